#!/bin/sh
# Offline setup: verify tools, parse every specification with SANY, run the harness self-tests that need no /repo build.
cd "$(dirname "$0")" || exit 2
set -e
java -version 2>&1 | head -1
test -f /opt/veriftools/tla/tla2tools.jar
/venv/bin/python -c "import schemathesis, hypothesis, jsonschema, werkzeug, yaml; print('schemathesis', schemathesis.__file__)"
fail=0
for f in spec/*.tla; do
  out=$(cd spec && java -cp /opt/veriftools/tla/tla2tools.jar:/opt/veriftools/tla/CommunityModules-deps.jar tla2sany.SANY "$(basename "$f")" 2>&1) || true
  if echo "$out" | grep -q -E "Semantic errors|Parse Error|Fatal errors|Could not"; then echo "SANY FAILED: $f"; echo "$out" | tail -20; fail=1; fi
done
mkdir -p evidence replays
[ $fail -eq 0 ] && echo "setup ok"
exit $fail
