#!/usr/bin/env python3
"""Prints the markdown table of seeded changes (DESIGN.md §12) from /verif/seeded/*/meta.json."""
import json, os
root = "/verif/seeded"
rows = []
for name in sorted(os.listdir(root)):
    p = os.path.join(root, name, "meta.json")
    if not os.path.exists(p):
        continue
    m = json.load(open(p))
    det = m.get("detected_by", {})
    sigs = det.get("signatures", [])
    rows.append((m.get("property", ""), name, (m.get("summary") or "").replace("|", "/").replace("\n", " ")[:170],
                 (str(m.get("needs_to_manifest") or "")).replace("|", "/").replace("\n", " ")[:150],
                 "caught" if det.get("exit_nonzero") else ("NOT caught" if det else "?"), (sigs[0] if sigs else "")[:90]))
print("| property | seeded change | what it breaks | needs | quick check | first signature |")
print("|---|---|---|---|---|---|")
for r in rows:
    print("| %s | `%s` | %s | %s | %s | `%s` |" % r)
print("\n%d seeded changes, %d caught by the quick check of their property" % (len(rows), sum(1 for r in rows if r[4] == "caught")))
