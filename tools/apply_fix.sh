#!/bin/sh
# usage: tools/apply_fix.sh <diff> "<commit subject starting with fix:>" "<body>"
cd /repo || exit 2
if [ -n "$(git status --porcelain --untracked-files=no)" ]; then echo "/repo dirty"; exit 2; fi
git apply "$1" 2>/dev/null || patch -p1 --fuzz=3 --no-backup-if-mismatch -s < "$1" || { echo "APPLY FAILED: $1"; git checkout -- . ; find . -name '*.rej' -delete; exit 1; }
find . -name '*.orig' -delete
/venv/bin/python -c "import schemathesis, schemathesis.cli, schemathesis.specs.openapi.schemas" || { echo "IMPORT FAILED"; git checkout -- .; exit 1; }
git add -A src && git commit -q -m "$2" -m "$3" && git log --oneline -1
