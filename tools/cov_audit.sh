#!/bin/sh
# usage: tools/cov_audit.sh <property id> [--tier quick|thorough]
# Implementation-side vacuity audit: runs the property's check under coverage.py (branch coverage, fork pools included) and prints, for the
# source files the property is anchored in (properties.jsonl: anchors.files), the lines and branches the check never executed.
# An unexecuted branch in an anchored function = behaviour the family never reaches = a change there cannot be detected.
ID="$1"; shift
cd /verif || exit 2
OUT="${COV_OUT:-/var/tmp/cov_$ID}"; rm -rf "$OUT"; mkdir -p "$OUT"
cat > "$OUT/coveragerc" <<RC
[run]
branch = True
parallel = True
concurrency = multiprocessing,thread
source = /repo/src/schemathesis
data_file = $OUT/.coverage
sigterm = True
[report]
show_missing = True
skip_covered = False
RC
export COVERAGE_RCFILE="$OUT/coveragerc" SCHEMATHESIS_VERIF=1 PYTHONHASHSEED=0
export VERIF_EVIDENCE_DIR="$OUT/evidence" VERIF_REPLAYS_DIR="$OUT/replays"
mod=$(echo "$ID" | tr 'A-Z' 'a-z')
/venv/bin/python -m coverage run -m harness.covmain "$mod" "$@" > "$OUT/check.out" 2>&1
echo "check exit=$? ($(tail -1 "$OUT/check.out" | cut -c1-120))"
/venv/bin/python -m coverage combine -q "$OUT" >/dev/null 2>&1
FILES=$(/venv/bin/python - "$ID" <<'PY'
import json, sys
for l in open("/verif/properties.jsonl"):
    p = json.loads(l)
    if p["id"] == sys.argv[1]:
        print(",".join("/repo/" + f if not f.startswith("/") else f for f in p.get("anchors", {}).get("files", [])))
PY
)
[ -n "$FILES" ] && /venv/bin/python -m coverage report --include="$FILES" 2>&1 | tee "$OUT/report.txt" | cut -c1-400
/venv/bin/python -m coverage json -q -o "$OUT/coverage.json" --include="$FILES" >/dev/null 2>&1
echo "details: $OUT/report.txt $OUT/coverage.json"
