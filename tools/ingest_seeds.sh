#!/bin/sh
# usage: tools/ingest_seeds.sh <property id> <sub-agent out dir> <tag>
# For both variants of a sub-agent's delivery: confirm the demo (clean passes / seeded fails), store under seeded/<id>-<tag>v<n>-<slug>,
# run the property's quick check against the change, print one line per variant.
PID="$1"; OUT="$2"; TAG="$3"
cd /verif
for n in 1 2; do
  [ -f "$OUT/patch$n.diff" ] || continue
  slug=$(/venv/bin/python - "$OUT/meta$n.json" <<'PY'
import json, re, sys
try:
    m = json.load(open(sys.argv[1]))
    s = m.get("summary") or "change"
except Exception:
    s = "change"
s = re.sub(r"[^a-z0-9]+", "-", s.lower()).strip("-")
print("-".join(s.split("-")[:7])[:60])
PY
)
  name="$PID-${TAG}v$n-$slug"
  ./tools/confirm_seed.sh "$OUT" $n "$(basename $(dirname $OUT/x) | sed 's/-out$//' | sed 's/^mut-//')" "$name" > /dev/null 2>&1
  wt=$(basename "$OUT" | sed 's/-out$//')
  sed -i "s#/tmp/$wt#/tmp/SCRATCH_WORKTREE#g" "seeded/$name/demo.py" 2>/dev/null
  c=$(cat seeded/$name/confirm.json 2>/dev/null)
  ./tools/try_patch.sh seeded/$name/patch.diff $PID > seeded/$name/check_output.txt 2>&1
  echo "$name confirm=$c check: $(grep -E '^== ' seeded/$name/check_output.txt) $(grep -c '^VIOLATION' seeded/$name/check_output.txt) violations"
done
./tools/seed_meta.py > /dev/null
