#!/usr/bin/env python3
"""Regenerates /verif/MANIFEST.json from the table below (single source of truth) and validates it."""
import json
import os
import subprocess
import sys

ROOT = os.path.dirname(os.path.dirname(os.path.abspath(__file__)))
ALL = ["C%02d" % i for i in range(1, 21)]

COMMON_TRUST = ("TLC 1.8 + CommunityModules Json; the Python driver/projection in harness/ (builds real schemathesis objects from "
                "TLC-exported descriptors and projects results back); small-scope hypothesis for the stated constants")

# property -> dict(engine, technique, text, note, design_ref)
CHECKS = {
    "C18": dict(
        engine="Lifecycle",
        technique="TLA+ spec (Lifecycle.tla) + TLC exhaustive enumeration of scenario forests; every forest replayed into the real "
                  "recorder/checks; observations judged by TLC (LifecycleJudge.tla)",
        text="Model checking of an explicit TLA+ specification of scenario histories: TLC enumerates every forest within the bound "
             "(quick: <=3 nodes, 7 operation kinds, 2 identifiers one a prefix of the other, 4 status classes; thorough: <=4 nodes), checks the "
             "design invariants on each, and each forest is replayed into the real ScenarioRecorder/CheckContext/use_after_free/"
             "ensure_resource_availability; verdicts are compared with the spec operators (UAF as equivalence, RNA as implication) and "
             "re-judged in TLC. Exhaustive within the bound, which is what 'for all histories' needs and a sampled unit test cannot give.",
        note=COMMON_TRUST + "; hand-built Case/Response/Transition objects equal what the stateful runner records; plural-insensitive "
             "segment matching is outside the modelled fragment",
        design_ref="§5 C18",
    ),
}

ENGINE_NOTE = (COMMON_TRUST + "; scripted loopback API is deterministic and its log is the ground truth for requests; Hypothesis is modelled as a "
               "nondeterministic source of cases; hook points sit at the linearisation points named in DESIGN Appendix A; a run cut short by "
               "--max-failures is exempt like an interruption (DESIGN Appendix F.2)")
ENGINE_TECH = ("TLA+ design model Engine.tla (plan loop, worker threads, consumer, failure counter, exit code) checked exhaustively by TLC; "
               "EngineFamily.tla enumerates run descriptors; every sampled descriptor x every stop / Ctrl-C position x single faults executed by the real "
               "engine against a scripted API; each recorded run validated line by line by EngineStream.tla (EventProtocol automaton + accounting) "
               "and, at the level of the models' own actions, by UnitTrace.tla (free-running unit phases vs Engine.tla), StatefulTrace.tla (stateful phase vs "
               "Stateful.tla) and EngineTrace.tla (schedules forced from TLC behaviours / counterexamples of the refuted old designs); "
               "liveness (FairSpec => <>Done) checked by TLC, a hung run is a HANG observation")
CHECKS.update({
    "C05": dict(engine="Engine", technique=ENGINE_TECH, design_ref="§5 C05, App. A, F.2", note=ENGINE_NOTE,
        text="Model checking + trace validation. TLC checks NoProblemLost/ZeroMeansClean on the design model for all interleavings of 2 workers, "
             "one fault and one stop; the real engine is then run for TLC-enumerated descriptors (API behaviours ok/500/conditional 500/dropped connection/"
             "invalid schema, phases, workers 1-3, max-failures, continue-on-failure, unique-inputs) and single injected faults at each pipeline stage "
             "(test construction, case execution, transport, checks); every recorded run (event stream + server log + hook points + CLI exit code) is validated "
             "by the TLA+ trace spec: any bad answer/fault must be reported on the scenario, the phase and the exit code, and exit 0 only for clean runs."),
    "C11": dict(engine="Engine", technique=ENGINE_TECH, design_ref="§5 C11, App. A, F.1", note=ENGINE_NOTE,
        text="Model checking + trace validation. The EventProtocol reference automaton (written from the property) is an invariant of the design model under "
             "all interleavings, and judges every recorded stream of the real engine: for each sampled descriptor the stream is stopped at EVERY event index, "
             "Ctrl-C is raised at every consumer get, and single faults are injected; nesting, identifiers, phase order, single start/finish and status "
             "consistency are checked after every line."),
    "C12": dict(engine="Engine", technique=ENGINE_TECH, design_ref="§5 C12, App. A", note=ENGINE_NOTE,
        text="Model checking + trace validation. TLC checks AtMostOneAfterStop/MaxFailuresRespected/LaterPhasesSkipped on the design model; the real engine is run "
             "over a sweep of max_examples, max_failures, step counts, workers, unique-inputs and stop positions; the TLA+ trace spec counts requests on the "
             "server log (max-examples for clean operations, duplicates under unique-inputs), delivered failures vs. the limit and skipped later phases, and "
             "per-thread sends / scenario announcements after the stop request (queue puts are logged under the queue's own mutex), requests per stateful "
             "scenario vs. the configured step count, and the request rate seen by the API vs. the configured limit."),
})

CHECKS["C14"] = dict(engine="AuthCache", design_ref="§5 C14, App. F.3",
    technique="TLA+ AuthCache.tla (double-checked locking with expiry, failing provider) model-checked by TLC for all interleavings; TLC behaviours and the "
              "counterexamples of three refuted designs (no re-check, cache write outside the lock, lock leaked when the provider raises) forced step by step onto real threads calling the real caching provider; fetch logs judged "
              "by AuthCacheJudge.tla; Requests.tla enumerates credential/override configurations, the real engine runs them in all phases and every "
              "received request is judged by RequestsTrace.tla (incl. provider kinds class / cache_by_key / requests-auth object and the per-key fetch budget)",
    text="Model checking + schedule replay + trace validation. The auth cache's fetch-once property is checked on the TLA+ model for 3 threads x 2 keys x all "
         "interleavings incl. a provider that raises (and TLC refutes the designs without the in-lock re-check, with the write outside the lock, and with the lock leaked on the "
         "error path; AuthCacheKeyed.tla proves the lock-per-key design with atomic lock creation and refutes the check-then-act one); simulated behaviours are forced onto the real CachingAuthProvider/"
         "KeyedCachingAuthProvider through hook points with a model-driven clock and the recorded fetch log must equal the model's; free-running thread "
         "storms are judged too. For presence/precedence, TLC enumerates carrier configurations (--header, --auth, --set-query/-header/-cookie/-path, auth "
         "provider at schema/global scope) x declared same-named parameters; the real engine runs examples, coverage, fuzzing, stateful and link-derived "
         "requests and EVERY request received by the scripted API is validated in TLC against the user's values.",
    note=COMMON_TRUST + "; harness/compat.py restores OpenAPI link routing on the installed Hypothesis so link-derived requests exist; ignored_auth "
         "probes are not enabled (the probe exception is not exercised); no order among user layers is asserted; --auth + global provider is excluded "
         "(the engine deliberately unregisters the global provider)")

CHECKS["C19"] = dict(engine="Hooks", design_ref="§5 C19",
    technique="TLA+ Hooks.tla / HooksAuth.tla (registration histories as actions) model-checked by TLC; every bounded history replayed into the real "
              "dispatchers / auth storages; observed hook x operation matrix judged by HooksJudge.tla",
    text="Explicit TLA+ model of hook and auth registration: one action per decorator form and per unregistration, on the global, schema and test scopes. "
         "Design invariants are model-checked on every enumerated history (the oracle depends only on a hook's own registration, unfiltered hooks apply everywhere, "
         "unregister removes exactly that hook). Every bounded history (<=3 registrations, <=1 unregistration; <=3 auth registrations; quick 18 768 + 2 548, thorough "
         "307 325) is replayed into the real dispatchers or storages; the observed hook/provider x operation matrix, read from cases generated by the real strategy "
         "with marker-writing hooks, is compared with the spec's and re-judged by TLC. Exhaustive within the bound.",
    note=COMMON_TRUST + "; a HookDispatcher(scope=GLOBAL) created per history stands for the import-time global dispatcher; one generated case per (history, "
         "operation); which of several applicable auth providers wins is left undecided (soundness only); GraphQL not covered")
CHECKS["C07"] = dict(engine="Filters", design_ref="§5 C07",
    technique="TLA+ Filters.tla + FiltersMatch.tla (three-valued selection oracle) model-checked by TLC; every include/exclude filter set x front door replayed "
              "through the real API; stratified live runs (pytest, engine, CLI) against the scripted server; all observations judged by FiltersJudge.tla",
    text="The TLA+ spec enumerates all include/exclude filter sets (<=2+<=2 filters, total <=3 quick / <=4 thorough) over a 23-filter catalogue (path/method/name/"
         "tag/operation-id x value/list/regex, expressions, deprecated, conjunctions) through the python, CLI and lazy-fixture doors, with the selection oracle "
         "written from the property text; design invariants (exclude wins, monotonicity, lazy door keeps the fixture's excludes) are model-checked. Every element "
         "(12 674 quick / 76 879 thorough) is built with the real API and observed at get_all_operations(), statistic and as_state_machine(); stratified samples "
         "run under real pytest, the real engine and the real CLI with the server log as ground truth (incl. link-derived requests); all observations are re-judged by TLC.",
    note=COMMON_TRUST + "; harness/compat.py enables link routing in the driver process and the CLI child; requests are mapped to operations by method and path "
         "template; an upper-case method key is treated as not an operation; three-valued gaps (!= on an unresolvable pointer, lazy schemas with includes on both "
         "sides) are skipped; GraphQL not covered")
CHECKS["C04"] = dict(engine="Responses", design_ref="§5 C04",
    technique="TLA+ Responses.tla (expectation oracle over the shared OasSchema.tla validity oracle) checked by TLC; TLC-enumerated (definition, response) pairs "
              "replayed through the real conformance checks; verdict sets judged by ResponsesJudge.tla",
    text="For every (response definition, received response) pair of a TLC-enumerated family the set of failure kinds reported by the four real conformance checks "
         "through Case.validate_response equals the expectation computed by an explicit TLA+ specification written from the OpenAPI and HTTP standards, in both "
         "directions (no miss, no false alarm, no crash). The family covers exact/NXX/default keys (<=3), <=2 media types with different schemas, <=2 headers, $ref'd "
         "responses, schemas and headers, nullable and writeOnly schemas, OpenAPI 2.0 and 3.0; received responses vary over 5 statuses, 7 Content-Type shapes and 14 "
         "bodies (quick 33 772 pairs, thorough 295 250). Kinds the standards leave open are U and never judged. Disagreeing observations and a random sample of "
         "agreeing ones are re-judged by TLC.",
    note=COMMON_TRUST + "; hand-built core.transport.Response objects; OpenAPI 3.1 and wildcard media ranges are not in the family; HeaderSchema is told apart from "
         "body JsonSchemaError by the failure title; Swagger 2.0 response headers are treated as never required")
CHECKS["C17"] = dict(engine="Examples", design_ref="§5 C17",
    technique="TLA+ Examples.tla (AllExamples by placement, round-robin combination model-checked) + OasSchema.tla; TLC-enumerated placement descriptors run through "
              "the real add_examples and, for a sample, the real engine over the wire; every observation judged by ExamplesJudge.tla",
    text="For every operation descriptor of a TLC-enumerated family (<=3 parameters with 0-3 examples each in 9 placement forms, <=2 JSON media types with 14 body "
         "placement forms, OpenAPI 2.0 x- forms, required inputs lacking examples, special-character texts, one example HTTP cannot carry; quick 954, thorough ~5 700) "
         "every example of the document occurs unchanged in at least one examples-phase request; required inputs are never missing and inputs without examples are "
         "schema-valid per the OasSchema oracle; an operation without examples sends nothing and is reported skipped. All descriptors are observed through the real "
         "add_examples; a stratified sample also runs through the real engine against the scripted server whose log is the ground truth. Every observation is judged by TLC.",
    note=COMMON_TRUST + "; the fast path assumes the attached explicit examples are what gets sent (validated on the wire sample only); example values are scalars "
         "and small JSON objects; form-urlencoded/multipart/text bodies, externalValue and array/object parameters are not in the family")
CHECKS["C16"] = dict(engine="Reports", design_ref="§5 C16",
    technique="TLA+ Reports.tla (event-history machine of the reporters) + ReportsYaml.tla (fold automata for the emitted YAML subset, base64, UTF-8); TLC-enumerated "
              "histories and strings replayed into the real ExecutionContext / JunitXMLHandler / CassetteWriters; ReportsTrace.tla and ReportsYamlJudge.tla judge",
    text="TLC enumerates every finished event history of Reports.tla within the bound (ScenarioFinished / NonFatalError / EngineFinished over 2 labels x 2 failure "
         "identities x 3 metadata shapes x 8 scenario shapes; quick 1 999, thorough 60 319). Each is replayed as real engine events into the real on_event, "
         "JunitXMLHandler and both CassetteWriters; ReportsTrace.tla re-runs the spec actions and requires after every event that the projected Statistic equals the "
         "machine state, no crash, a JUnit test case per label with exactly the failures first discovered under it, and cassette entries that are exactly the delivered "
         "exchanges. ReportsYaml.tla states the YAML subset the hand-written VCR writer emits as fold automata; TLC enumerates all strings of length <=2 (quick) / <=3 "
         "(thorough) over 16 hostile characters in every user-controlled field; the raw cassette is scanned line by line in TLA+ (well-formedness and "
         "Unquote(Scan(line)) = field); HAR and JUnit are compared field by field, base64 byte-exact. The YAML model is cross-checked against PyYAML on every run. "
         "The writer thread, queue and bounded join are model-checked over all interleavings in ReportsWriter.tla, and real VCR / HAR writer runs on a slow sink are "
         "trace-validated (ReportsWriterTrace.tla), including the join timing out before the queue is drained.",
    note=COMMON_TRUST + "; hand-built Recorder/Case/PreparedRequest/Response objects stand for engine output; json and xml.etree project HAR and JUnit; PyYAML only "
         "cross-checks; cassettes of text fields containing lone surrogates are not judged; bodies that are not valid UTF-8 are judged only under preserve-bytes")
CHECKS["C15"] = dict(engine="Sanitize", design_ref="§5 C15",
    technique="TLA+ Sanitize.tla (Sensitive(name, cfg), routes x sinks flow matrix) enumerated by TLC; unit-level sanitizers and end-to-end CLI subprocess runs with a "
              "canary per route; observed present[route, sink] matrix judged by SanitizeJudge.tla",
    text="Sanitize.tla defines Sensitive(name, cfg) from the property text (lower-cased name in the keys, or some marker is a substring) with the default lists owned "
         "by the spec, routes (user header, --auth, generated header/query/cookie parameter, URL userinfo, response Set-Cookie, response header) x sinks (console, curl "
         "sample, JUnit, VCR, HAR) and the expectation: sanitize and sensitive carrier => absent, otherwise present where the sink carries the field. TLC enumerates all "
         "(name, cfg) pairs of a 55-name pool x 3 configurations and the full flow matrix. Every pair runs through the real sanitize_value / sanitize_url / "
         "as_curl_command; end to end the real CLI runs in subprocesses against the scripted server with a unique canary per route, all report formats, sanitize on / "
         "off / custom keys / custom markers; stdout and every artifact are scanned for each canary (plain, percent-encoded, any-alignment base64) and the matrix is "
         "judged by TLC in both directions (leak and over-redaction). Configuration histories (configure / extend / reset interleaved with sanitizer calls, <=3 steps "
         "quick, <=4 thorough; SanitizeHist.tla) are TLC-enumerated and replayed in one process through sanitize_value, sanitize_url, as_curl_command and, for a "
         "sample, the real cassette writers.",
    note=COMMON_TRUST + "; a secret is recognised in plain, percent-encoded and base64 forms only; the server log decides which routes were exercised; the MustCarry "
         "table (which sink shows which field) is part of the spec; response and request bodies are outside the property's carriers")

CHECKS["C06"] = dict(engine="Wire", design_ref="§5 C06",
    technique="TLA+ Wire.tla: decoders (RFC 3986 percent-decoding, UTF-8, flat JSON, urlencoded, OpenAPI 3.0 / Swagger 2.0 style tables) as fold automata, checked "
              "by TLC to invert the table's own encoder; TLC-enumerated descriptor family replayed through the real serializer, quoting and the requests / WSGI / ASGI "
              "transports; every recorded request judged by WireJudge.tla; differential Python cross-check",
    text="Wire.tla states the property as decoders written as fold automata; TLC checks on every family element that these decoders invert the reference encoder. TLC "
         "enumerates the bounded family (127 parameter definitions x values over {a 1 space % + / . & = , ; e-acute}, '.'/'..', empty, booleans, null, 0, arrays/objects "
         "<=2; 7 base URLs x 3 templates; JSON/form/text bodies; quick 7 209 elements / 43 485 requests, thorough 57 420 / 360 354). Each element is driven through the "
         "real generation chain, the coverage template and explicit cases, over the requests, WSGI and ASGI transports, and every recorded request is judged by TLC "
         "for URL composition, parameter recovery up to string coercion, nothing extra, headers, Content-Type and body round trip. Inputs without a defined decoding are "
         "three-valued U and counted as skipped. 26 known-finding signatures (matrix style, coverage-phase serializer order, raw dot segments / tab / ';' in explicit "
         "path values, label null) are listed in known_findings.json.",
    note=COMMON_TRUST + "; exhaustive only within the stated alphabet and length bounds; trusts that the loopback server, werkzeug environ and starlette-testclient "
         "scope report requests faithfully and that injecting the value at the draw point exercises the generation chain (cross-checked on a sample); multipart, XML, "
         "binary bodies, non-ASCII header/cookie values, empty composites, items containing the delimiter and exploded cookies are skipped")
CHECKS["C09"] = dict(engine="Curl", design_ref="§5 C09",
    technique="TLA+ Curl.tla: POSIX sh tokenisation and curl option semantics as fold automata, TLC-checked (quote round trip, a faithful command exists for every "
              "in-fragment request); TLC-enumerated adversarial strings in 8 slots; commands from the real code judged by CurlJudge.tla; the sh/curl model is "
              "validated on every run against the real /bin/sh + curl on a stratified sample",
    text="Curl.tla models sh word splitting (unquoted, single, double quotes, backslash) and curl's -X, -H (incl. the empty-value and 'Name;' rules), -d (incl. leading "
         "'@' and default Content-Type), --data-raw, --insecure and the URL. For every enumerated string over {a ' \" \\ $ ` space newline @ ; : & %} in every slot "
         "(header value, Authorization, query, path, cookie, text / JSON / form body; quick 5 858 elements, thorough 76 162) a real case is sent, as_curl_command is "
         "called with that request's headers as the CLI does, and TLC decides that the interpreted command equals the received original on method, target, body and "
         "own headers; the same with sanitisation on, up to redacted values. A stratified sample (150 / 3 000) is executed by real sh + curl against the scripted "
         "server and the received request must equal both the model's prediction and the original.",
    note=COMMON_TRUST + "; bounded to the 13-character alphabet, length <=3 (<=4 for header and body in thorough); headers the clients add themselves and the test-case "
         "id header are not compared; curl runs in an empty working directory; dot segments and URL globbing are outside the model; non-ASCII header values and binary "
         "payloads are excluded by the property itself")

CHECKS["C20"] = dict(engine="GraphQL", design_ref="§5 C20",
    technique="TLA+ GraphQL.tla (input coercion TypeOK, document well-formedness on a projected AST, operation selection) with TLC enumeration of schema shapes and "
              "name filters; real SDL / introspection loaders and strategies driven per shape; graphql-core's parser projects each generated document to an AST that "
              "GraphQLJudge.tla judges; graphql-core's validator runs side by side only to keep the oracle honest",
    text="Model checking of an explicit TLA+ specification of GraphQL input coercion, document well-formedness and operation selection. TLC enumerates every schema "
         "shape of the bounded family (0-2 arguments over 12 base types x 5 wrappers, 6 return kinds, Query/Mutation name clash, custom root names, Subscription; "
         "quick 80, thorough 460) and all 57 name-filter pairs per shape, and checks the design invariants on each. Every shape is loaded through the SDL and "
         "introspection loaders; every projected AST of the sampled Hypothesis draws and every offered-set / count observation is judged by TLC against the spec "
         "operators; plus TLC-enumerated 3-step configure / register-scalar / draw histories (GraphQLHistory.tla) replayed on ONE schema object, each "
         "document judged against the configuration in force at its own step. Exhaustive over shapes, filters and histories within the bound, sampled over draws.",
    note=COMMON_TRUST + "; the graphql-core parser and the ~60-line AST projection; custom scalars are judged by declared literal kind; non-null values for "
         "unregistered scalars are undetermined; variables, directives and named fragments are outside the generated fragment")
CHECKS["C13"] = dict(engine="Repro", design_ref="§5 C13",
    technique="TLA+ trace specification Repro.tla (lock-step comparison of request logs, bag comparison for several workers); the real engine is run in fresh "
              "subprocesses with different PYTHONHASHSEED, in a warm process, with 3 workers, with another seed, and after a twin schema (same operation labels, other parameter schemas) in the same process - the "
              "process histories exported by ReproHistory.tla, whose TLC run proves HistoryFree for a content-keyed memo and refutes the label-keyed one; the server log is the ground truth",
    text="Trace validation against an explicit TLA+ specification of reproducibility. For each configuration the real engine is run six times against a deterministic, "
         "stateless scripted server; the server logs are cut per phase and projected to digests. Same seed with one worker requires position-wise equality and equal "
         "failure sets; several workers require per-operation bag equality in the examples, coverage and fuzzing phases; different seeds are unconstrained but checked "
         "for non-vacuity. A rejection names phase, operation, first divergent field and the attributed entropy source. Not exhaustive: the seed x schema space cannot "
         "be enumerated by TLC (12 configurations quick, 150 thorough, seeds derived from VERIF_SEED; configurations always include seeds 0 and -1, whose stateful "
         "re-run suite is seeded with 0, and user-supplied unexpected_methods sets).",
    note=COMMON_TRUST + "; the digest excludes the test-case id and Host headers; Hypothesis' local-constants pool is emptied in the children and each child has its "
         "own working directory; compat.enable_links is applied; health checks, deadlines and the example database are off; the API script is a pure function of "
         "(method, target, body)")

GEN_NOTE = (COMMON_TRUST + "; oracle fragment = catalogue patterns (search semantics, NFA advanced by a fold), integer constants, 5 formats; the document concretiser, "
            "the description -> keyword map and harness/encode.py are trusted Python; jsonschema is used only to self-test the oracle (harness.oas_selftest), never to "
            "decide a property; Hypothesis is the driver of draws, not the oracle")
CHECKS["C03"] = dict(engine="GenData", design_ref="§5 C03",
    technique="TLA+ GenData.tla + the shared three-valued OasSchema.tla oracle; TLC enumeration of a bounded schema / operation family; replay into the real "
              "deterministic coverage generators; every value and case judged by GenDataJudge.tla",
    text="TLC enumerates the Appendix-G schema family (numeric bounds incl. 0, equal and contradictory min/max, both exclusive spellings, multipleOf; lengths x 12 "
         "catalogue patterns; formats; enum/const; nullable in three dialect spellings; arrays; objects with required/optional/additional/readOnly properties; "
         "allOf/anyOf/oneOf/not over overlapping, disjoint and identical leaves; $ref depth <=2; quick 1 452 schemas + 549 operations, thorough 5 205 + 1 674) and "
         "checks the spec's own sanity invariants on every descriptor. Each descriptor becomes a real 2.0/3.0/3.1 document and is run through the real deterministic "
         "generators for mode sets {p}, {n}, {p,n}; every value and case they yield is judged with the three-valued OasSchema oracle: valid-labelled => not invalid; "
         "invalid-labelled => not valid and violating the keyword its description names; case negative <=> invalid part or missing required or duplicate or "
         "undocumented method. U verdicts are counted, never judged. The generator is deterministic, so the enumeration is complete over the family.",
    note=GEN_NOTE)
CHECKS["C01"] = dict(engine="GenData", design_ref="§5 C01",
    technique="TLC-enumerated operation descriptor family (GenData.tla) + seeded Hypothesis draws of the real positive strategy + TLC judge with the OasSchema.tla oracle",
    text="TLC enumerates operation descriptors (per location <=2 parameters from 12 leaf schemas, body alternatives from 10, dialects 2.0/3.0/3.1, configs allow_x00 x "
         "codec x with_security_parameters; quick 319, thorough 1 690). Each is built into a real document and drawn N times from as_strategy(POSITIVE) under seeded "
         "Hypothesis. Every distinct case and every per-descriptor outcome is judged in TLC: labels positive, every location conforming under string coercion with "
         "required parameters present, body conforming incl. readOnly absent, no NUL / codec respected, and satisfiable-by-witness descriptors must yield cases rather "
         "than Unsatisfiable or an exception. Descriptors are enumerated exhaustively; draws are explored (sampled).",
    note=GEN_NOTE + "; satisfiability is claimed only with a witness from a bounded universe")
CHECKS["C02"] = dict(engine="GenData", design_ref="§5 C02",
    technique="TLC-enumerated operation descriptor family (GenData.tla) + seeded Hypothesis draws of the real negative strategy + TLC judge with the OasSchema.tla oracle",
    text="Same descriptor family as C01, with as_strategy(NEGATIVE) under modes [negative] and [positive, negative]. Each drawn case is judged for the set of independent "
         "clauses it breaks: case negative; some present part labelled negative; each negative-labelled part present and not conforming; each positive-labelled part "
         "conforming. Each outcome is judged too: negatable-by-witness => cases; nothing-to-negate per the property's own list => skipped; asserted only where "
         "negatability is unambiguous. Mutation choices are drawn, not enumerated.",
    note=GEN_NOTE)

CHECKS["C08"] = dict(engine="OpCache", design_ref="§5 C08",
    technique="TLA+ OpCache.tla (one operation list, three lookup indices, effective-inputs oracle from the OpenAPI Path Item / Parameter rules) + TLC exhaustive "
              "enumeration of (document, serialisation, layout, access history); each replayed on a freshly loaded real schema; observations judged by OpCacheJudge.tla",
    text="Model checking of an explicit TLA+ specification of the operation lookup cache and of the effective-inputs oracle. TLC checks cache coherence, single "
         "ownership, route agreement and the merge law on every reachable state, and enumerates every document within MaxDev feature changes of a rich base document "
         "(13 features: path/operation-level parameters with equal names, $ref depth, path item behind $ref, body media types, recursive schema, security variants, "
         "malformed entries) x JSON/YAML (unquoted numeric keys, on/off, dates) x single/multi-file x every access history up to MaxLen over {iterate, path+method, "
         "operationId, reference} (quick 256 documents / 23 840 cases, thorough 1 618 / 303 120). Each element is concretised into real files, loaded by the real "
         "loader and replayed; generation schemas, parameter containers, body alternatives, response keys, YAML-sensitive scalars and resolver scope depth are "
         "compared with the oracle and re-judged in TLC.",
    note=COMMON_TRUST + "; the concretiser, YAML writer and projection in harness/c08.py are trusted; full-length histories only for the base document (one access "
         "shorter per deviating feature); lookups of a malformed operation must only fail, only get_all_operations must name the path; OpenAPI 2.0 formData/body "
         "parameters and 3.1 documents are not in the family")
CHECKS["C10"] = dict(engine="Links", design_ref="§5 C10",
    technique="TLA+ Links.tla (status matching; fold-based reference evaluator for OpenAPI runtime expressions and RFC 6901) + TLC enumeration; every element replayed "
              "into the real parser / evaluator, link construction and response matcher; live stateful runs read back from the scripted server's log; all observations "
              "judged by LinksJudge.tla",
    text="TLC checks design invariants (default covers exactly the remaining statuses, embedded results are text, constants denote themselves, nothing is sent for "
         "unresolvable or malformed input, RFC 6901 laws) and exhaustively enumerates link keys x key sets x all statuses 100-599, plus a bounded expression language: "
         "every JSON pointer up to PtrLen tokens over 17 token shapes and the one-edit neighbourhood of a base set of bare and embedded expressions over two exchanges "
         "(quick 5 386 cases, thorough 31 664). Each element is replayed into the real expressions parser / evaluate, link construction and the state machine's "
         "response matcher. The stateful phase of the real engine is run against the scripted server on five link families and every link-derived request is compared "
         "with the reference evaluator on the source exchange as the server saw it. Verdicts are recomputed by TLC and cross-checked with the driver.",
    note=COMMON_TRUST + "; harness/compat.py enables link routing for the live runs; expression judgements are three-valued plus envelopes; '$' in literal text, '}' "
         "after a '#' part and a single {expr} with a non-string value are not judged; regex extractors only for catalogue patterns; Swagger 2.0 x-links not covered")

REASON_PENDING = "no check registered yet: spec/harness for this property is still being built (DESIGN.md §10 build order); nothing is claimed"


def main() -> int:
    checks = []
    for pid in ALL:
        c = CHECKS.get(pid)
        if not c:
            continue
        checks.append({
            "property_id": pid,
            "quick_cmd": "./check %s --tier quick" % pid,
            "thorough_cmd": "./check %s --tier thorough" % pid,
            "evidence_file": "/verif/evidence/%s.json" % pid,
            "replay_cmd_template": "./check %s --replay {path}" % pid,
            "engine": c["engine"],
            "level_claimed": {"category": "model_checking", "text": c["text"], "design_ref": c["design_ref"]},
            "level_note": c["note"],
            "technique": c["technique"],
        })
    try:
        hook_commits = subprocess.run(["git", "-C", "/repo", "log", "--format=%h %s", "--grep=^verif hook"],
                                      stdout=subprocess.PIPE, text=True).stdout.strip().splitlines()
    except Exception:
        hook_commits = []
    manifest = {
        "version": 1,
        "setup_cmd": "./setup.sh",
        "hooks": {
            "guard": "SCHEMATHESIS_VERIF",
            "enable": "export SCHEMATHESIS_VERIF=1 before importing schemathesis (the ./check wrapper does); /repo is an editable install "
                      "in /venv, so the current working tree is what runs - nothing to rebuild",
            "baseline_off_cmd": "./tools/baseline.sh",
            "source_commits": [h.split()[0] for h in hook_commits],
            "add_only": True,
        },
        "engines": [
            {"name": c["engine"], "path": "/verif/spec/%s.tla" % c["engine"], "serves_properties": [p], "kind_free_text": "TLA+ module checked by TLC"}
            for p, c in CHECKS.items()
        ],
        "checks": checks,
        "notes": "Every check: TLA+ specification in /verif/spec, TLC on the design, TLC-exported behaviours/inputs replayed into the real code, "
                 "implementation observations judged by TLC. known_findings.json lists genuine defects (open = reported as KNOWN-FINDING).",
        "not_applicable": [{"property_id": p, "reason": REASON_PENDING} for p in ALL if p not in CHECKS],
    }
    path = os.path.join(ROOT, "MANIFEST.json")
    with open(path, "w") as fd:
        json.dump(manifest, fd, indent=1)
        fd.write("\n")
    try:
        import jsonschema
        jsonschema.validate(manifest, json.load(open("/root/.vp/MANIFEST.schema.json")))
        print("MANIFEST.json valid;", len(checks), "checks")
    except ImportError:
        print("MANIFEST.json written (jsonschema not importable here, not validated)")
    return 0


if __name__ == "__main__":
    sys.exit(main())
