#!/usr/bin/env python3
"""Regenerates /verif/MANIFEST.json from the table below (single source of truth) and validates it."""
import json
import os
import subprocess
import sys

ROOT = os.path.dirname(os.path.dirname(os.path.abspath(__file__)))
ALL = ["C%02d" % i for i in range(1, 21)]

COMMON_TRUST = ("TLC 1.8 + CommunityModules Json; the Python driver/projection in harness/ (builds real schemathesis objects from "
                "TLC-exported descriptors and projects results back); small-scope hypothesis for the stated constants")

# property -> dict(engine, technique, text, note, design_ref)
CHECKS = {
    "C18": dict(
        engine="Lifecycle",
        technique="TLA+ spec (Lifecycle.tla) + TLC exhaustive enumeration of scenario forests; every forest replayed into the real "
                  "recorder/checks; observations judged by TLC (LifecycleJudge.tla)",
        text="Model checking of an explicit TLA+ specification of scenario histories: TLC enumerates every forest within the bound "
             "(quick: <=3 nodes, 7 operation kinds, 2 identifiers one a prefix of the other, 4 status classes; thorough: <=4 nodes), checks the "
             "design invariants on each, and each forest is replayed into the real ScenarioRecorder/CheckContext/use_after_free/"
             "ensure_resource_availability; verdicts are compared with the spec operators (UAF as equivalence, RNA as implication) and "
             "re-judged in TLC. Exhaustive within the bound, which is what 'for all histories' needs and a sampled unit test cannot give.",
        note=COMMON_TRUST + "; hand-built Case/Response/Transition objects equal what the stateful runner records; plural-insensitive "
             "segment matching is outside the modelled fragment",
        design_ref="§5 C18",
    ),
}

ENGINE_NOTE = (COMMON_TRUST + "; scripted loopback API is deterministic and its log is the ground truth for requests; Hypothesis is modelled as a "
               "nondeterministic source of cases; hook points sit at the linearisation points named in DESIGN Appendix A; a run cut short by "
               "--max-failures is exempt like an interruption (DESIGN Appendix F.2)")
ENGINE_TECH = ("TLA+ design model Engine.tla (plan loop, worker threads, consumer, failure counter, exit code) checked exhaustively by TLC; "
               "EngineFamily.tla enumerates run descriptors; every sampled descriptor x every stop / Ctrl-C position x single faults executed by the real "
               "engine against a scripted API; each recorded run validated line by line by EngineStream.tla (EventProtocol automaton + accounting)")
CHECKS.update({
    "C05": dict(engine="Engine", technique=ENGINE_TECH, design_ref="§5 C05, App. A, F.2", note=ENGINE_NOTE,
        text="Model checking + trace validation. TLC checks NoProblemLost/ZeroMeansClean on the design model for all interleavings of 2 workers, "
             "one fault and one stop; the real engine is then run for TLC-enumerated descriptors (API behaviours ok/500/conditional 500/dropped connection/"
             "invalid schema, phases, workers 1-3, max-failures, continue-on-failure, unique-inputs) and single injected faults at each pipeline stage "
             "(test construction, case execution, transport, checks); every recorded run (event stream + server log + hook points + CLI exit code) is validated "
             "by the TLA+ trace spec: any bad answer/fault must be reported on the scenario, the phase and the exit code, and exit 0 only for clean runs."),
    "C11": dict(engine="Engine", technique=ENGINE_TECH, design_ref="§5 C11, App. A, F.1", note=ENGINE_NOTE,
        text="Model checking + trace validation. The EventProtocol reference automaton (written from the property) is an invariant of the design model under "
             "all interleavings, and judges every recorded stream of the real engine: for each sampled descriptor the stream is stopped at EVERY event index, "
             "Ctrl-C is raised at every consumer get, and single faults are injected; nesting, identifiers, phase order, single start/finish and status "
             "consistency are checked after every line."),
    "C12": dict(engine="Engine", technique=ENGINE_TECH, design_ref="§5 C12, App. A", note=ENGINE_NOTE,
        text="Model checking + trace validation. TLC checks AtMostOneAfterStop/MaxFailuresRespected/LaterPhasesSkipped on the design model; the real engine is run "
             "over a sweep of max_examples, max_failures, step counts, workers, unique-inputs and stop positions; the TLA+ trace spec counts requests on the "
             "server log (max-examples for clean operations, duplicates under unique-inputs), delivered failures vs. the limit and skipped later phases, and "
             "per-thread sends / scenario announcements after the stop request (queue puts are logged under the queue's own mutex). Rate limiting is not covered yet."),
})

CHECKS["C14"] = dict(engine="AuthCache", design_ref="§5 C14, App. F.3",
    technique="TLA+ AuthCache.tla (double-checked locking with expiry) model-checked by TLC for all interleavings; TLC behaviours and the "
              "counterexample of the design without re-check forced step by step onto real threads calling the real caching provider; fetch logs judged "
              "by AuthCacheJudge.tla; Requests.tla enumerates credential/override configurations, the real engine runs them in all phases and every "
              "received request is judged by RequestsTrace.tla",
    text="Model checking + schedule replay + trace validation. The auth cache's fetch-once property is checked on the TLA+ model for 3 threads x 2 keys x all "
         "interleavings (and TLC refutes the design without the in-lock re-check); simulated behaviours are forced onto the real CachingAuthProvider/"
         "KeyedCachingAuthProvider through hook points with a model-driven clock and the recorded fetch log must equal the model's; free-running thread "
         "storms are judged too. For presence/precedence, TLC enumerates carrier configurations (--header, --auth, --set-query/-header/-cookie/-path, auth "
         "provider at schema/global scope) x declared same-named parameters; the real engine runs examples, coverage, fuzzing, stateful and link-derived "
         "requests and EVERY request received by the scripted API is validated in TLC against the user's values.",
    note=COMMON_TRUST + "; harness/compat.py restores OpenAPI link routing on the installed Hypothesis so link-derived requests exist; ignored_auth "
         "probes are not enabled (the probe exception is not exercised); no order among user layers is asserted; --auth + global provider is excluded "
         "(the engine deliberately unregisters the global provider)")

REASON_PENDING = "no check registered yet: spec/harness for this property is still being built (DESIGN.md §10 build order); nothing is claimed"


def main() -> int:
    checks = []
    for pid in ALL:
        c = CHECKS.get(pid)
        if not c:
            continue
        checks.append({
            "property_id": pid,
            "quick_cmd": "./check %s --tier quick" % pid,
            "thorough_cmd": "./check %s --tier thorough" % pid,
            "evidence_file": "/verif/evidence/%s.json" % pid,
            "replay_cmd_template": "./check %s --replay {path}" % pid,
            "engine": c["engine"],
            "level_claimed": {"category": "model_checking", "text": c["text"], "design_ref": c["design_ref"]},
            "level_note": c["note"],
            "technique": c["technique"],
        })
    try:
        hook_commits = subprocess.run(["git", "-C", "/repo", "log", "--format=%h %s", "--grep=^verif hook"],
                                      stdout=subprocess.PIPE, text=True).stdout.strip().splitlines()
    except Exception:
        hook_commits = []
    manifest = {
        "version": 1,
        "setup_cmd": "./setup.sh",
        "hooks": {
            "guard": "SCHEMATHESIS_VERIF",
            "enable": "export SCHEMATHESIS_VERIF=1 before importing schemathesis (the ./check wrapper does); /repo is an editable install "
                      "in /venv, so the current working tree is what runs - nothing to rebuild",
            "baseline_off_cmd": "./tools/baseline.sh",
            "source_commits": [h.split()[0] for h in hook_commits],
            "add_only": True,
        },
        "engines": [
            {"name": c["engine"], "path": "/verif/spec/%s.tla" % c["engine"], "serves_properties": [p], "kind_free_text": "TLA+ module checked by TLC"}
            for p, c in CHECKS.items()
        ],
        "checks": checks,
        "notes": "Every check: TLA+ specification in /verif/spec, TLC on the design, TLC-exported behaviours/inputs replayed into the real code, "
                 "implementation observations judged by TLC. known_findings.json lists genuine defects (open = reported as KNOWN-FINDING).",
        "not_applicable": [{"property_id": p, "reason": REASON_PENDING} for p in ALL if p not in CHECKS],
    }
    path = os.path.join(ROOT, "MANIFEST.json")
    with open(path, "w") as fd:
        json.dump(manifest, fd, indent=1)
        fd.write("\n")
    try:
        import jsonschema
        jsonschema.validate(manifest, json.load(open("/root/.vp/MANIFEST.schema.json")))
        print("MANIFEST.json valid;", len(checks), "checks")
    except ImportError:
        print("MANIFEST.json written (jsonschema not importable here, not validated)")
    return 0


if __name__ == "__main__":
    sys.exit(main())
