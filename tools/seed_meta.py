#!/usr/bin/env python3
"""Writes /verif/seeded/<name>/meta.json from the sub-agent's meta, my confirmation run and (if present) the check output."""
import json, os, re, sys
root = "/verif/seeded"
for name in sorted(os.listdir(root)):
    d = os.path.join(root, name)
    if not os.path.isdir(d):
        continue
    meta = {}
    if os.path.exists(os.path.join(d, "meta.json")):
        try:
            meta = json.load(open(os.path.join(d, "meta.json")))
        except Exception:
            meta = {}
    agent = {}
    if os.path.exists(os.path.join(d, "agent_meta.json")):
        try:
            agent = json.load(open(os.path.join(d, "agent_meta.json")))
        except Exception:
            agent = {}
    m = re.search(r"([CX]\d\d)", name)
    prop = m.group(1) if m else (meta.get("property") or agent.get("property", ""))
    meta.setdefault("property", prop)
    meta.setdefault("origin", "reverted fix: commit (my own regression seed)" if name.startswith("revert-") else
                    "independent sub-agent given only the property text and a scratch worktree")
    if agent:
        meta["summary"] = agent.get("summary", meta.get("summary", ""))
        meta["needs_to_manifest"] = agent.get("needs_to_manifest", meta.get("needs_to_manifest", ""))
        meta["files_touched"] = agent.get("files_touched", [])
        meta["agent_tests_run"] = agent.get("tests_run", "")
    elif os.path.exists(os.path.join(d, "subject.txt")):
        meta["summary"] = "reverts: " + open(os.path.join(d, "subject.txt")).read().strip()
    if os.path.exists(os.path.join(d, "confirm.json")):
        meta["confirmed_by_me"] = json.load(open(os.path.join(d, "confirm.json")))
        meta["what_i_ran"] = ("tools/confirm_seed.sh: demo.py in a scratch worktree of /repo HEAD without the change (must exit 0) and with patch.diff applied "
                              "(must exit non-zero); tools/try_patch.sh patch.diff <property>: the property's quick check against a scratch worktree with the change")
    out = os.path.join(d, "check_output.txt")
    if os.path.exists(out):
        txt = open(out).read()
        sigs = sorted(set(re.findall(r"violations with signature (\S+):", txt)))
        meta["detected_by"] = {"check": prop, "exit_nonzero": "exit=1" in txt or " FAIL tier" in txt, "signatures": sigs[:8]}
    json.dump(meta, open(os.path.join(d, "meta.json"), "w"), indent=1)
    print(name, meta.get("detected_by", {}).get("exit_nonzero"))
