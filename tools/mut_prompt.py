#!/venv/bin/python
"""usage: tools/mut_prompt.py <property id> <round tag, e.g. r3>  ->  writes /var/tmp/mut_<tag>_prompt_<id>.txt
The prompt given to an independent sub-agent that seeds a regression: only the text of the property, its own scratch worktree,
and one-line summaries of the regressions already seeded for that property (so that it picks a different mechanism)."""
import glob
import json
import os
import sys

pid, tag = sys.argv[1], sys.argv[2]
base = open("/var/tmp/mut2_prompt_%s.txt" % pid).read()
head = base.split("ROUND 2 NOTE.")[0].replace("%sr2" % pid, "%s%s" % (pid, tag))
seen = []
for d in sorted(glob.glob("/verif/seeded/*%s*" % pid)):
    try:
        m = json.load(open(os.path.join(d, "meta.json")))
    except Exception:
        continue
    if m.get("property") != pid:
        continue
    seen.append(" - " + (m.get("summary") or "")[:260])
tail = base.split("Also: do not use `git stash`")[1]
note = ("NOTE. %d regressions for this property were already seeded by others; do NOT repeat them or close variations of them - pick different "
        "code sites and different mechanisms (prefer ones that need a particular interleaving, fault, history or configuration to manifest):\n%s\n"
        "Also: do not use `git stash`" % (len(seen), "\n".join(seen)))
out = "/var/tmp/mut_%s_prompt_%s.txt" % (tag, pid)
open(out, "w").write(head + note + tail)
print(out, len(seen))
