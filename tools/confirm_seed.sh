#!/bin/sh
# usage: tools/confirm_seed.sh <out-dir of the sub-agent> <variant n> <property id> <name>  [patch file override]
# Confirms a seeded change myself in a scratch worktree (demo passes clean, fails with the change), stores it under /verif/seeded/<name>/
OUT="$1"; N="$2"; PID="$3"; NAME="$4"; PATCH="${5:-$OUT/patch$N.diff}"
D=/verif/seeded/$NAME; mkdir -p "$D"
WT="$(mktemp -d /tmp/seed-confirm.XXXXXX)"; rmdir "$WT"
git -C /repo worktree add -q --detach "$WT" HEAD || exit 2
trap 'git -C /repo worktree remove --force "$WT" >/dev/null 2>&1' EXIT INT TERM
cp "$PATCH" "$D/patch.diff"; cp "$OUT/demo$N.py" "$D/demo.py"; cp "$OUT/meta$N.json" "$D/agent_meta.json" 2>/dev/null
sed -i "s#/tmp/mut-$PID-out#$D#g; s#/tmp/mut-$PID#$WT#g" "$D/demo.py"
PYTHONPATH="$WT/src" timeout 600 /venv/bin/python "$D/demo.py" > "$D/demo_clean.log" 2>&1; c=$?
git -C "$WT" apply "$D/patch.diff" || { echo "patch does not apply"; exit 2; }
PYTHONPATH="$WT/src" timeout 600 /venv/bin/python "$D/demo.py" > "$D/demo_mutated.log" 2>&1; m=$?
sed -i "s#$WT#/tmp/SCRATCH_WORKTREE#g" "$D/demo.py" "$D/demo_clean.log" "$D/demo_mutated.log"
echo "$NAME demo: clean exit=$c mutated exit=$m"
echo "{\"demo_clean_exit\": $c, \"demo_mutated_exit\": $m}" > "$D/confirm.json"
