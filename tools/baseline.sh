#!/bin/sh
# Runs the repository's pinned test-suite with the verification guard OFF and compares the
# result with /root/.vp/BASELINE.json (every stable-pass test must still pass).
# usage: tools/baseline.sh [repo_dir]   (default /repo)
REPO="${1:-/repo}"
OUT="$(mktemp -d /var/tmp/verif-baseline.XXXXXX)"
unset SCHEMATHESIS_VERIF
cd "$REPO" || exit 2
# when a scratch worktree is given, make its sources win over the editable install
if [ "$REPO" != "/repo" ]; then export PYTHONPATH="$REPO/src${PYTHONPATH:+:$PYTHONPATH}"; fi
/venv/bin/python -m pytest -ra -q -p no:cacheprovider --timeout=900 --continue-on-collection-errors \
    --junitxml="$OUT/run.junit.xml" >"$OUT/pytest.log" 2>&1
/venv/bin/python - "$OUT/run.junit.xml" <<'EOF'
import json, sys, xml.etree.ElementTree as ET
base = json.load(open("/root/.vp/BASELINE.json"))
passed, failed = set(), set()
for tc in ET.parse(sys.argv[1]).getroot().iter("testcase"):
    tid = (tc.get("classname") or "") + "::" + (tc.get("name") or "")
    if tc.find("failure") is not None or tc.find("error") is not None:
        failed.add(tid)
    elif tc.find("skipped") is None:
        passed.add(tid)
passed -= failed
stable = set(base["stable_pass"])
missing = sorted(stable - passed)
print(f"passed={len(passed)} failed={len(failed)} stable={len(stable)} stable_not_passing={len(missing)}")
for m in missing[:50]:
    print("  NOT PASSING:", m, "(failed)" if m in failed else "(absent)")
sys.exit(0 if len(missing) <= base["offline_check"].get("tolerance", 0) and not [m for m in missing if m in failed] else 1)
EOF
rc=$?
rm -rf "$OUT"
exit $rc
