#!/bin/sh
# Runs every seeded change against the quick check of its property (scratch worktree) and refreshes meta.json.
# usage: tools/seed_matrix.sh            (JOBS=3 seeds side by side; ONLY=C12 restricts to one property)
cd /verif
JOBS=${JOBS:-3}
run_one() {
  d="$1"; n=$(basename "$d"); p=$(echo "$n" | grep -oE '[CX][0-9][0-9]' | head -1)
  [ -z "$p" ] && return
  [ -n "$ONLY" ] && [ "$p" != "$ONLY" ] && return
  ./tools/try_patch.sh "$d/patch.diff" "$p" > "$d/check_output.txt" 2>&1
  echo "$n -> $(grep -E '== ' "$d/check_output.txt")"
}
i=0
for d in seeded/*/; do
  run_one "${d%/}" &
  i=$((i+1))
  if [ $((i % JOBS)) -eq 0 ]; then wait; fi
done
wait
./tools/seed_meta.py > /dev/null
