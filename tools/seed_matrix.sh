#!/bin/sh
# Runs every seeded change against the quick check of its property (scratch worktree) and refreshes meta.json.
cd /verif
for d in seeded/*/; do
  n=$(basename $d); p=$(echo $n | sed -E 's/^(revert-)?(C[0-9][0-9]).*/\2/')
  [ -n "$ONLY" ] && [ "$p" != "$ONLY" ] && continue
  ./tools/try_patch.sh $d/patch.diff $p > $d/check_output.txt 2>&1
  echo "$n -> $(grep -E '== ' $d/check_output.txt)"
done
./tools/seed_meta.py > /dev/null
