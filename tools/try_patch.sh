#!/bin/sh
# usage: tools/try_patch.sh <patch.diff> <property id> [more ids...]
# Runs the checks of the given properties against a scratch worktree of /repo's HEAD with the seeded change applied
# (PYTHONPATH override; /repo itself is never touched, so concurrent work is not disturbed). The worktree is always removed.
P="$(readlink -f "$1")"; shift
WT="$(mktemp -d /tmp/try-patch.XXXXXX)"; rmdir "$WT"
git -C /repo worktree add -q --detach "$WT" HEAD || exit 2
trap 'git -C /repo worktree remove --force "$WT" >/dev/null 2>&1' EXIT INT TERM
git -C "$WT" apply "$P" || { echo "patch does not apply"; exit 2; }
cd /verif
export VERIF_EVIDENCE_DIR="$WT/.verif-evidence" VERIF_REPLAYS_DIR="$WT/.verif-replays"   # a seeded run must not overwrite the real evidence
rc=0
for id in "$@"; do
  OUTF="$WT/.try_$id.out"
  PYTHONPATH="$WT/src" ./check "$id" ${TIER:+--tier $TIER} > "$OUTF" 2>&1; r=$?
  cp "$OUTF" "/var/tmp/try_$id.out" 2>/dev/null
  echo "== $id exit=$r"; grep -E "^VIOLATION|MACHINERY| ok tier| FAIL tier|^  violations" "$OUTF" | cut -c1-260 | head -12
  [ $r -ne 0 ] && rc=$r
done
exit $rc
