"""Scripted loopback HTTP server (stdlib http.server, threaded) that records every request exactly as received.

The log - not schemathesis's own records - is the ground truth for "what was sent". Each entry:
  seq (monotone, assigned under a lock), method, target (raw request-target text, undecoded), path, query (raw text after '?'),
  headers (list of [name, value] in wire order, duplicates kept), body (bytes), t_ms (monotonic ms since server start).
`behaviour(req) -> (status, headers: list[(k, v)] | dict, body: bytes)` decides the answer; default 200 `{}` JSON.
"""
from __future__ import annotations

import json
import threading
import time
from dataclasses import dataclass, field
from http.server import BaseHTTPRequestHandler, ThreadingHTTPServer
from typing import Callable


@dataclass
class Recorded:
    seq: int
    method: str
    target: str
    path: str
    query: str
    headers: list
    body: bytes
    t_ms: int
    status: int = 0

    def header(self, name: str, default=None):
        for k, v in self.headers:
            if k.lower() == name.lower():
                return v
        return default

    def as_json(self) -> dict:
        return {"seq": self.seq, "method": self.method, "target": self.target, "headers": self.headers,
                "body": self.body.decode("latin-1"), "t_ms": self.t_ms, "status": self.status}


def default_behaviour(req: Recorded):
    return 200, [("Content-Type", "application/json")], b"{}"


class LoopbackServer:
    def __init__(self, behaviour: Callable[[Recorded], tuple] | None = None):
        self.behaviour = behaviour or default_behaviour
        self.log: list[Recorded] = []
        self._lock = threading.Lock()
        self._t0 = time.monotonic()
        outer = self

        class Handler(BaseHTTPRequestHandler):
            protocol_version = "HTTP/1.1"

            def log_message(self, *a, **k):  # silence
                pass

            def _handle(self):
                length = int(self.headers.get("Content-Length") or 0)
                body = self.rfile.read(length) if length else b""
                if (self.headers.get("Transfer-Encoding") or "").lower() == "chunked":
                    body = b""
                    while True:
                        size = int(self.rfile.readline().strip() or b"0", 16)
                        if size == 0:
                            self.rfile.readline()
                            break
                        body += self.rfile.read(size)
                        self.rfile.readline()
                target = self.path
                path, _, query = target.partition("?")
                with outer._lock:
                    rec = Recorded(
                        seq=len(outer.log) + 1, method=self.command, target=target, path=path, query=query,
                        headers=[[k, v] for k, v in self.headers.items()], body=body,
                        t_ms=int((time.monotonic() - outer._t0) * 1000),
                    )
                    outer.log.append(rec)
                try:
                    status, headers, payload = outer.behaviour(rec)
                except ConnectionAbortedError:  # scripted network error: drop the connection without answering
                    rec.status = -1
                    self.close_connection = True
                    return
                except Exception as exc:  # a broken script must be visible, not silent
                    status, headers, payload = 599, [("Content-Type", "text/plain")], repr(exc).encode()
                rec.status = status
                if isinstance(headers, dict):
                    headers = list(headers.items())
                self.send_response(status)
                has_len = False
                for k, v in headers:
                    if k.lower() == "content-length":
                        has_len = True
                    self.send_header(k, v)
                if not has_len:
                    self.send_header("Content-Length", str(len(payload)))
                self.end_headers()
                if self.command != "HEAD":
                    self.wfile.write(payload)

            def __getattr__(self, name):
                if name.startswith("do_"):
                    return self._handle
                raise AttributeError(name)

        self.httpd = ThreadingHTTPServer(("127.0.0.1", 0), Handler)
        self.httpd.daemon_threads = True
        self.port = self.httpd.server_address[1]
        self.base_url = "http://127.0.0.1:%d" % self.port
        self._thread = threading.Thread(target=self.httpd.serve_forever, kwargs={"poll_interval": 0.05}, daemon=True)

    def start(self) -> "LoopbackServer":
        self._thread.start()
        return self

    def stop(self) -> None:
        self.httpd.shutdown()
        self.httpd.server_close()

    def __enter__(self) -> "LoopbackServer":
        return self.start()

    def __exit__(self, *a) -> None:
        self.stop()

    def clear(self) -> None:
        with self._lock:
            self.log.clear()

    def snapshot(self) -> list[Recorded]:
        with self._lock:
            return list(self.log)


def json_response(status: int, obj, headers: list | None = None):
    return status, [("Content-Type", "application/json")] + list(headers or []), json.dumps(obj).encode()
