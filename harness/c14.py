"""C14 - configured credentials and overrides reach every request; an auth token is fetched at most once per interval and key.

Part A (auth cache):  spec/AuthCache.tla checked exhaustively by TLC; behaviours (simulation + the counterexample TLC finds when the
                      in-lock re-check is switched off) are FORCED step by step onto real threads calling the real
                      CachingAuthProvider / KeyedCachingAuthProvider (auth_sched.py); free-running thread storms with the real clock;
                      all fetch/return logs are judged by spec/AuthCacheJudge.tla (and must equal the model's prediction when forced).
Part B (requests):    spec/Requests.tla enumerates configurations (carriers x declared-parameters x workers x provider scope); the real
                      engine runs each sampled configuration through examples, coverage, fuzzing, stateful and link-derived requests;
                      EVERY request the scripted API received is judged by spec/RequestsTrace.tla.
"""
from __future__ import annotations

import glob
import os
import random

from . import common, tlc
from .common import Ctx, Outcome, Violation

PHASE = {1: "probing", 2: "examples", 3: "coverage", 4: "fuzzing", 5: "stateful"}


def _forced(item: dict) -> dict:
    from . import auth_sched

    r = auth_sched.run_forced([tuple(x) for x in item["steps"]], {int(k): v for k, v in item["calls"].items()}, item["R"], item["keyed"])
    r["expected"] = item["expected"]
    r["hasExpected"] = item["hasExpected"]
    r["expectedFails"] = sum(1 for x in item["steps"] if x[1] == "fetchfail")
    r["origin"] = item["origin"]
    return r


def _free(item: dict) -> dict:
    from . import auth_sched

    r = auth_sched.run_free(item["threads"], item["calls"], item["R_ms"], item["keys"], item["keyed"], item.get("fail_every", 0))
    r["expected"] = []
    r["expectedFails"] = 0
    r["hasExpected"] = False
    r["origin"] = "free:%s" % item
    return r


def _req(desc: dict) -> dict:
    from .requests_driver import run_one

    try:
        return run_one(desc)
    except BaseException as exc:
        return {"hdr": None, "lines": [], "desc": desc, "machinery": repr(exc)}


def part_auth(ctx: Ctx, out: Outcome, rng: random.Random) -> dict:
    from . import auth_sched, sched

    cov: dict = {}
    design = tlc.require_ok(tlc.run_tlc("AuthCache", "AuthCache_quick.cfg" if ctx.quick else "AuthCache_thorough.cfg", timeout=3000),
                            "AuthCache design")
    for inv in design.violated:
        out.violations.append(Violation("C14:design:AuthCache:" + inv, "AuthCache.tla violates " + inv,
                                        {"kind": "design", "trace": design.counterexample[:80]}))
    # design exploration: one refresh lock per cache key, created lazily (AuthCacheKeyed.tla).  The atomic creation must hold, the
    # check-then-act creation must be refuted, and the parallelism the design is for must be reachable (vacuity guard)
    keyed_design = tlc.require_ok(tlc.run_tlc("AuthCacheKeyed", "AuthCacheKeyed_atomic.cfg", timeout=1800), "AuthCacheKeyed atomic")
    for inv in keyed_design.violated:
        out.violations.append(Violation("C14:design:AuthCacheKeyed:" + inv, "AuthCacheKeyed.tla (atomic lock creation) violates " + inv,
                                        {"kind": "design", "trace": keyed_design.counterexample[:80]}))
    for cfg, inv in (("AuthCacheKeyed_racy.cfg", "FetchOnce"), ("AuthCacheKeyed_overlap.cfg", "NoOverlap")):
        res = tlc.require_ok(tlc.run_tlc("AuthCacheKeyed", cfg, timeout=600), cfg)
        if inv not in res.violated:
            raise tlc.TLCFailure("%s: TLC must reach a violation of %s (refuted design / reachability witness)" % (cfg, inv))
    cov.update(keyed_design_states=keyed_design.distinct)
    items: list[dict] = []
    # attack schedules: what TLC finds without the in-lock re-check; the real code re-reads after acquiring, so a "reread" token
    # is inserted after every acquire - correct code then refuses to follow the rest (no second fetch), defective code follows it
    for cfg, keyed in (("AuthCache_norecheck.cfg", True), ("AuthCache_norecheck1.cfg", False),
                       ("AuthCache_writeoutside.cfg", True), ("AuthCache_writeoutside1.cfg", False)):
        res = tlc.require_ok(tlc.run_tlc("AuthCache", cfg, timeout=600), cfg)
        if not res.violated:
            raise tlc.TLCFailure("%s: the defective design must violate an invariant in the model" % cfg)
        beh = sched.parse_counterexample(res.counterexample)
        steps, calls, _ = auth_sched.steps_of(beh)
        steps2 = []
        for s in steps:
            steps2.append(s)
            if s[1] == "acquire" and "norecheck" in cfg:
                steps2.append((s[0], "reread"))
        items.append({"steps": steps2, "calls": calls, "R": 2, "keyed": keyed, "expected": [], "hasExpected": False, "origin": "attack:" + cfg})
    # third refuted design: the lock leaked when the provider raises (ReleaseOnError = FALSE).  TLC's counterexample ends with every
    # thread idle and the lock held; one more call by every thread (running freely after the schedule) hangs code that leaks the lock
    for cfg, keyed in (("AuthCache_leak.cfg", True), ("AuthCache_leak1.cfg", False)):
        res = tlc.require_ok(tlc.run_tlc("AuthCache", cfg, timeout=600), cfg)
        if "NoLeak" not in res.violated:
            raise tlc.TLCFailure("%s: the design that leaks the lock on a failed fetch must violate NoLeak in the model" % cfg)
        beh = sched.parse_counterexample(res.counterexample)
        steps, calls, _ = auth_sched.steps_of(beh)
        if not any(x[1] == "fetchfail" for x in steps):
            raise tlc.TLCFailure("%s: counterexample without FetchFail" % cfg)
        calls = {t: list(calls.get(t, [])) + [1] for t in (1, 2)}
        items.append({"steps": steps, "calls": calls, "R": 2, "keyed": keyed, "expected": [], "hasExpected": False, "origin": "attack:" + cfg})
    n_sim = 60 if ctx.quick else 600
    for cfg, keyed in (("AuthCache_sim.cfg", True), ("AuthCache_sim1.cfg", False)):
        d = ctx.path("sim_" + cfg)
        os.makedirs(d, exist_ok=True)
        tlc.require_ok(tlc.run_tlc("AuthCache", cfg, workers=1, simulate="file=%s/tr,num=%d" % (d, n_sim // 2), depth=70, seed=ctx.seed + 5,
                                   timeout=900, want_prints=False), "simulate " + cfg)
        for f in sorted(glob.glob(d + "/tr_*")):
            beh = sched.parse_behaviour(f)
            steps, calls, final = auth_sched.steps_of(beh)
            if any(p not in ("idle",) for p in (beh[-1][2].get("pc") or [])):
                continue  # cut by -depth in the middle of a call
            items.append({"steps": steps, "calls": calls, "R": 2, "keyed": keyed, "expected": final, "hasExpected": True,
                          "origin": "simulate:" + cfg})
    forced = [_forced(i) for i in items] if len(items) < 32 else common.pmap(_forced, items, chunk=4)
    free_items = [{"threads": th, "calls": 150 if ctx.quick else 600, "R_ms": r, "keys": k, "keyed": k > 1}
                  for th in (4, 8) for r in (3, 10) for k in (1, 3)]
    free_items += [{"threads": 6, "calls": 150 if ctx.quick else 600, "R_ms": 3, "keys": k, "keyed": k > 1, "fail_every": 3} for k in (1, 3)]
    free = [_free(i) for i in free_items]
    runs = forced + free
    for r in runs:
        if r["hung"]:
            # threads that never come back from get(): the refresh lock is held by nobody who will release it (NoLeak)
            out.violations.append(Violation(
                "C14:auth-cache:NoLeak:%s" % r["origin"].split(":")[0],
                "calls to the real provider never returned (%s; %d provider failure(s) before): the refresh lock was left held" % (r["origin"], r.get("nfails", 0)),
                {"kind": "auth", "origin": r["origin"], "fetches": r["fetches"][:50], "R": r["R"]},
            ))
    # a forced simulated schedule that was not followed cannot be compared with the prediction
    for r in runs:
        if r["diverged"]:
            r["hasExpected"] = False
    obs = ctx.path("auth_obs.json")
    tlc.write_json(obs, [{"fetches": r["fetches"], "returned": r["returned"], "R": r["R"], "expected": r["expected"],
                          "hasExpected": r["hasExpected"] and not r["hung"], "nfails": r.get("nfails", 0),
                          "expectedFails": r.get("expectedFails", 0)} for r in runs])
    j = tlc.require_ok(tlc.run_tlc("AuthCacheJudge", "AuthCacheJudge.cfg", env={"OBS_FILE": obs}, workers=1, timeout=900), "AuthCacheJudge")
    accepted = {p[1] for p in j.prints if isinstance(p, list) and p and p[0] == "ACCEPT"}
    bad = [(p[1], p[2]) for p in j.prints if isinstance(p, list) and p and p[0] == "DISAGREE"]
    if len(accepted) + len({b[0] for b in bad}) != len(runs):
        raise tlc.TLCFailure("AuthCacheJudge: verdicts missing")
    for i, clause in bad:
        r = runs[i - 1]
        kind = r["origin"].split(":")[0]
        out.violations.append(Violation(
            "C14:auth-cache:%s:%s" % (clause, kind),
            "%s violated by the real provider (%s): fetches=%s" % (clause, r["origin"], r["fetches"][:8]),
            {"kind": "auth", "origin": r["origin"], "fetches": r["fetches"][:50], "R": r["R"]},
        ))
    sim_div = sum(1 for r in forced if r["diverged"] and r["origin"].startswith("simulate"))
    if sim_div:
        out.notes.append("%d simulated auth schedule(s) diverged (e.g. %s)" % (sim_div, next(r["diverged"] for r in forced if r["diverged"] and r["origin"].startswith("simulate"))))
    cov.update(design_states=design.distinct, design_generated=design.generated, forced_schedules=len(forced),
               forced_followed_exactly=sum(1 for r in forced if not r["diverged"]), attack_schedules=6, provider_failures=sum(r.get("nfails", 0) for r in runs), free_runs=len(free),
               fetches_observed=sum(len(r["fetches"]) for r in runs), simulated_diverged=sim_div, judged=len(runs))
    cov["sample"] = {"origin": forced[-1]["origin"], "steps": items[-1]["steps"][:30], "fetches": forced[-1]["fetches"]}
    return cov


def part_requests(ctx: Ctx, out: Outcome, rng: random.Random) -> dict:
    fam: list[dict] = []
    fres = tlc.require_ok(tlc.run_tlc("Requests", "Requests.cfg", workers=1, on_json=lambda tag, d: fam.append(d), want_prints=False,
                                      timeout=900), "Requests design + family")
    for inv in fres.violated:
        out.violations.append(Violation("C14:design:Requests:" + inv, "Requests.tla violates " + inv, {"kind": "design"}))
    fam.sort(key=lambda d: (sorted(d["carriers"]), d["declared"], d["workers"], d["provider_scope"], d["provider_kind"]))
    full = [d for d in fam if len(d["carriers"]) >= 6 and "key" not in d["carriers"]]
    keyed = [d for d in fam if "key" in d["carriers"]]
    k = 18 if ctx.quick else 300
    chosen = common.sample(rng, full, 10 if ctx.quick else 60) + common.sample(rng, keyed, 8 if ctx.quick else 80) \
        + common.sample(rng, [d for d in fam if 1 <= len(d["carriers"]) < 6 and "key" not in d["carriers"]], k)
    descs = []
    for i, d in enumerate(chosen):
        d = dict(d)
        d["seed"] = ctx.seed * 100 + i + 1
        d["max_examples"] = 4 if ctx.quick else 8
        descs.append(d)
    runs = common.pmap(_req, descs, chunk=1)
    for r in runs:
        if r.get("machinery"):
            raise RuntimeError("requests driver failed: %s on %s" % (r["machinery"], r["desc"]))
    obs = ctx.path("req_obs.json")
    tlc.write_json(obs, [{"hdr": dict({k2: r["hdr"][k2] for k2 in ("carriers", "user", "applies")}, issued=r["hdr"]["issued_by_key"]),
                          "lines": [{"op": ln["op"], "ph": ln["ph"], "vals": ln["vals"], "probe": ln["probe"], "parent": ln["parent"]}
                                    for ln in r["lines"]]} for r in runs])
    j = tlc.require_ok(tlc.run_tlc("RequestsTrace", "RequestsTrace.cfg", env={"OBS_FILE": obs}, workers=1, timeout=1800, heap="8g"),
                       "RequestsTrace")
    ended = {p[1] for p in j.prints if isinstance(p, list) and p and p[0] == "END"}
    if len(ended) != len(runs):
        raise tlc.TLCFailure("RequestsTrace: %d of %d traces reached their end" % (len(ended), len(runs)))
    from .requests_driver import CARRIERS

    seen = set()
    nrej = 0
    for p in j.prints:
        if isinstance(p, list) and p and p[0] == "REJECT":
            nrej += 1
            t, line, c, ph, op = p[1], p[2], p[3], p[4], p[5]
            r = runs[t - 1]
            if c == 0 and ph == 1:
                out.violations.append(Violation("C14:requests:provider-fetched-more-than-once:%s:workers=%d" % (r["desc"].get("provider_kind", "class"), r["desc"]["workers"]),
                                                "the auth provider was asked for its token %s times per cache key within one refresh interval; config %s" % (
                                                    r["hdr"]["issued_by_key"], r["desc"]),
                                                {"kind": "requests", "desc": r["desc"], "carrier": "prov", "phase": 0, "op": 0}))
                continue
            if c == 0:
                out.violations.append(Violation("C14:requests:probe-budget", "more credential probes than one stripped + one invalid per probed request; config %s" % r["desc"],
                                                {"kind": "requests", "desc": r["desc"], "carrier": "key", "phase": 0, "op": 0}))
                continue
            carrier = CARRIERS[c - 1]
            others = sorted(x for x in r["desc"]["carriers"] if x != carrier)
            # the failing class: which carrier lost its value, in which phase kind, and which OTHER user layers were configured
            phase_kind = "stateful" if ph == 5 else "unit"
            clash = [x for x in others if (carrier in ("ovh", "hdr") and x in ("hdr", "ovh", "prov")) or (carrier == "basic" and x == "prov")]
            sig = "C14:requests:%s:%s:declared=%s:with=%s" % (carrier, phase_kind, r["desc"]["declared"], "+".join(clash) or "-")
            got = r["lines"][line - 1]["vals"][c - 1]
            out.violations.append(Violation(
                sig, "request #%d (%s, op %d) carries %r at carrier %s instead of the user's value; config %s" % (
                    line, PHASE.get(ph, ph), op, got, carrier, r["desc"]),
                {"kind": "requests", "desc": r["desc"], "carrier": carrier, "phase": ph, "op": op}))
    nreq = sum(len(r["lines"]) for r in runs)
    linked = sum(1 for r in runs for ln in r["lines"] if ln["ph"] == 5 and ln["op"] == 2)
    return {"family": len(fam), "configs_run": len(runs), "requests_judged": nreq, "link_derived_requests": linked,
            "probe_requests": sum(1 for r in runs for ln in r["lines"] if ln["probe"]),
            "rejected_lines": nrej, "family_states": fres.distinct, "family_generated": fres.generated,
            "by_phase": {PHASE[p]: sum(1 for r in runs for ln in r["lines"] if ln["ph"] == p) for p in (2, 3, 4, 5)},
            "provider_fetches": [r["hdr"]["issued"] for r in runs if "prov" in r["desc"]["carriers"]][:20],
            "sample": {"desc": runs[0]["desc"], "first_requests": runs[0]["lines"][:3]}}


def run(ctx: Ctx) -> Outcome:
    out = Outcome()
    rng = random.Random(ctx.seed * 31 + 14)
    a = part_auth(ctx, out, rng)
    b = part_requests(ctx, out, rng)
    out.coverage = {
        "states": a["design_states"] + b["family_states"], "transitions": a["design_generated"] + b["family_generated"],
        "traces_validated_against_impl": a["judged"] + b["configs_run"],
        "samples": [a.pop("sample"), b.pop("sample")],
        "evaluations": a["judged"] + b["requests_judged"],
        "distinct_nontrivial": a["forced_schedules"] + b["configs_run"],
        "rule": "auth cache: every forced schedule / free-running storm is one evaluation; requests: every request received by the scripted API "
                "is one evaluation, non-trivial = configurations with at least one configured carrier (all of them)",
        "exhaustive": False, "auth_cache": a, "requests": b,
    }
    out.assumptions = [
        "harness/compat.py shim enables OpenAPI link routing on the installed Hypothesis so that link-derived requests exist",
        "the fake timer is advanced only by the model's Tick action in forced schedules; free-running runs use time.monotonic in integer ms",
        "no precedence AMONG user layers is asserted (the property orders user > generated only)",
        "probes are recognised as the child cases a check records without a transition (ScenarioRecorder), matched to the server log by the test-case id header",
    ]
    return out


def replay(ctx: Ctx, data: dict) -> Outcome:
    out = Outcome()
    if data.get("kind") != "requests":
        return out
    from .requests_driver import CARRIERS, USER

    r = _req(data["desc"])
    c = CARRIERS.index(data["carrier"])
    for ln in r["lines"]:
        if r["hdr"]["applies"][ln["op"] - 1][c] and ln["vals"][c] != USER[data["carrier"]]:
            out.violations.append(Violation("C14:requests:" + data["carrier"], "carrier %s lost: %r" % (data["carrier"], ln["vals"][c]), data))
            break
    return out


def selftest(ctx: Ctx) -> bool:
    obs = ctx.path("st.json")
    good = {"fetches": [{"k": 1, "at": 0}, {"k": 1, "at": 2}], "returned": [{"t": 1, "k": 1, "data": 1, "at": 0}], "R": 2, "expected": [], "hasExpected": False}
    bad = dict(good, fetches=[{"k": 1, "at": 0}, {"k": 1, "at": 1}])
    tlc.write_json(obs, [good, bad])
    j = tlc.require_ok(tlc.run_tlc("AuthCacheJudge", "AuthCacheJudge.cfg", env={"OBS_FILE": obs}, workers=1), "selftest")
    ok1 = ["ACCEPT", 1] in j.prints and ["DISAGREE", 2, "FetchOnce"] in j.prints
    hdr = {"carriers": [True] * 8, "user": ["a"] * 8, "applies": [[True] * 8] * 4, "issued": [1]}
    tlc.write_json(obs, [{"hdr": hdr, "lines": [{"op": 1, "ph": 4, "vals": ["a"] * 8, "probe": False, "parent": 0},
                                                {"op": 2, "ph": 4, "vals": ["a"] * 6 + ["x", "a"], "probe": False, "parent": 0},
                                                {"op": 2, "ph": 4, "vals": ["a"] * 7 + [""], "probe": True, "parent": 1}]}])
    j = tlc.require_ok(tlc.run_tlc("RequestsTrace", "RequestsTrace.cfg", env={"OBS_FILE": obs}, workers=1), "selftest")
    ok2 = ["REJECT", 1, 2, 7, 4, 2] in j.prints and ["REJECT", 1, 1, 1, 4, 1] not in j.prints and ["REJECT", 1, 4, 0, 1, 0] not in j.prints
    # a provider asked twice for the same cache key within the interval is rejected
    tlc.write_json(obs, [{"hdr": dict(hdr, issued=[1, 2]), "lines": [{"op": 1, "ph": 4, "vals": ["a"] * 8, "probe": False, "parent": 0}]}])
    j = tlc.require_ok(tlc.run_tlc("RequestsTrace", "RequestsTrace.cfg", env={"OBS_FILE": obs}, workers=1), "selftest")
    ok3 = ["REJECT", 1, 2, 0, 1, 0] in j.prints
    return ok1 and ok2 and ok3


def main(argv=None) -> int:
    return common.main("C14", run, replay, selftest, argv)
