"""C12 - decided on the engine specifications (spec/Engine.tla, spec/EventProtocol.tla, spec/EngineStream.tla); see engine_check.py."""
from . import common, engine_check

PID = "C12"
DESIGN = {"quick": ["Engine_quick_stop.cfg", "Engine_quick_fault.cfg", "Engine_quick_plan.cfg", "Engine_quick_ctrlc.cfg", "Stateful_quick.cfg", "Stateful_quick_mf.cfg"],
          "thorough": ["Engine_thorough_stop.cfg", "Engine_thorough_fault.cfg", "Engine_thorough_plan.cfg", "Engine_thorough_w3.cfg", "Engine_quick_ctrlc.cfg", "Stateful_thorough.cfg", "Stateful_thorough2.cfg", "Stateful_quick_mf.cfg"]}


def run(ctx):
    return engine_check.run_property(ctx, PID, DESIGN[ctx.tier])


def replay(ctx, data):
    return engine_check.replay(ctx, PID, data)


def selftest(ctx):
    return engine_check.selftest(ctx, PID)


def main(argv=None):
    return common.main(PID, run, replay, selftest, argv)
