"""C15 - with sanitisation on, secrets never reach any output.

spec/Sanitize.tla: Sensitive(name, cfg) from the property text, routes x sinks, Expected(route, sink, name, sanitize, cfg).
TLC enumerates the (name, cfg) pairs of the pool and the full route x sink x sanitize x cfg matrix.
(i)  unit level: the real sanitize_value / sanitize_url / Case.as_curl_command on every (name, cfg), all value shapes;
(ii) end to end: the real CLI (`st run`, subprocess) against the loopback server, a unique canary per route, every report format,
     sanitize on / off / custom keys / custom markers; stdout and every artifact are scanned for each canary (plain, percent-encoded,
     base64 at any alignment); the boolean matrix present[route, sink] is judged by spec/SanitizeJudge.tla.
Two further family dimensions of Sanitize.tla: the SHAPE of URL userinfo (user:password / bare token / token: / :password - unit
level on sanitize_url, Case.as_curl_command and the cassette command line; end to end on --url and the schema location) and the FATE
of the request (answered / no-response: the loopback server drops the connection of every API request of the run; every report kind
is scanned, the expected matrix is ExpectedF(..., fate)).
"""
from __future__ import annotations

import base64
import json
import os
import random
import re
import shutil
import subprocess
import tempfile
import time
from concurrent.futures import ThreadPoolExecutor
from urllib.parse import quote

from . import common, tlc
from .common import Ctx, Outcome, Violation
from .server import LoopbackServer

ST = "/venv/bin/st"
SINKS = ["console", "curl", "junit", "vcr", "har"]
ROUTES = ["user-header", "auth-basic", "gen-header", "gen-query", "gen-cookie", "url-userinfo", "resp-set-cookie", "resp-header",
          "requests-auth", "schema-userinfo", "schema-query"]
CUSTOM = {"default": None, "custom-keys": {"keys_to_sanitize": ["X-Custom"]}, "custom-markers": {"sensitive_markers": ["Zeta"]},
          "no-cookie-keys": None}  # filled by set_default_keys(): the default keys without cookie / set-cookie


def set_default_keys(keys: list[str] | None = None) -> None:
    """Install the "no-cookie-keys" configuration: the specification's default key list (or, outside run(), the library's) minus the
    header names cookie / set-cookie, so that cookies are judged one by one."""
    if keys is None:
        from schemathesis.core.output.sanitization import DEFAULT_KEYS_TO_SANITIZE

        keys = sorted(DEFAULT_KEYS_TO_SANITIZE)
    CUSTOM["no-cookie-keys"] = {"keys_to_sanitize": [k for k in keys if k not in ("cookie", "set-cookie")]}


POSITIONS = ["first", "middle", "last"]
SEPARATORS = {"semicolon-space": "; ", "semicolon": ";"}
NOT_GENERATED_HEADERS = {"accept", "content-type", "authorization", "cookie", "set-cookie", "user-agent", "location", "etag"}
NOT_RESPONSE_HEADERS = {"content-type", "content-length", "set-cookie", "cookie", "location"}
CANARY = "Cnry7Secret"  # unit level only
USERINFO = {"user-password": "user:%s", "token-only": "%s", "token-empty-password": "%s:", "empty-user-password": ":%s"}
FATES = ["answered", "no-response"]


def text(cps: list[int]) -> str:
    return "".join(map(chr, cps))


# ------------------------------------------------------------------------------------------------------------------
# (i) unit level
# ------------------------------------------------------------------------------------------------------------------
def _config(kind: str):
    from schemathesis.core.output.sanitization import SanitizationConfig

    kw = CUSTOM[kind]
    return SanitizationConfig() if kw is None else SanitizationConfig.from_config(SanitizationConfig(), **kw)


def unit_observe(case: dict) -> list[dict]:
    """Every shape a (name, value) pair reaches the sanitizer in; returns [name, cfg, form, redacted] rows."""
    from schemathesis.core.output.sanitization import sanitize_url, sanitize_value

    name, kind = text(case["name"]), case["cfg"]
    cfg = _config(kind)
    rows = []

    def row(form: str, rendered: str, header: str = "-") -> None:
        rows.append({"name": case["name"], "cfg": kind, "form": form, "header": header, "shape": "-", "route": "-",
                     "redacted": CANARY not in rendered})

    d = {name: [CANARY], "X-Other": ["v"]}
    sanitize_value(d, config=cfg)
    row("header-list", json.dumps(d))
    d = {name: CANARY}
    sanitize_value(d, config=cfg)
    row("mapping-str", json.dumps(d))
    d = {"outer": {name: CANARY}, "items": [{name: [CANARY]}]}
    sanitize_value(d, config=cfg)
    row("nested", json.dumps(d))
    from requests.structures import CaseInsensitiveDict

    d = CaseInsensitiveDict({name: CANARY})
    sanitize_value(d, config=cfg)
    row("case-insensitive-dict", json.dumps(dict(d)))
    row("url-query", sanitize_url("http://h.example/p?%s=%s&z=1" % (quote(name, safe=""), CANARY), config=cfg))
    # the value as one cookie among others inside a Cookie / Set-Cookie header: every position x both separator spellings
    if re.fullmatch(r"[!#$%&'*+\-.^_`|~0-9A-Za-z]+", name):
        for header in ("Cookie", "Set-Cookie"):
            for pos in POSITIONS:
                for sep_name, sep in SEPARATORS.items():
                    cookies = ["theme=dark", "lang=en"]
                    cookies.insert(POSITIONS.index(pos), "%s=%s" % (name, CANARY))
                    d = {header: [sep.join(cookies)]}
                    sanitize_value(d, config=cfg)
                    row("cookie-%s-%s" % (pos, sep_name), json.dumps(d), header.lower())
    return rows


def unit_global(kind: str, names: list[list[int]], userinfo: list[dict] | None = None) -> list[dict]:
    """The module-level configuration path (configure() + default config) and Case.as_curl_command - run in a child process.
    `userinfo` = the (route, shape) elements of the USERINFO family of this configuration: the URL is rendered by sanitize_url (several
    URL contexts), by Case.as_curl_command (base URL of that shape) and by the command line echoed into the cassettes."""
    code = r"""
import json, sys
import schemathesis
from schemathesis.core.output.sanitization import sanitize_value, sanitize_url
kind, kw, names, canary, userinfo, shapes = json.loads(sys.stdin.read())
if kw: schemathesis.sanitization.configure(**kw)
RAW = {"openapi": "3.0.2", "info": {"title": "t", "version": "1"}, "paths": {"/a": {"get": {"responses": {"200": {"description": "ok"}}}}}}
schema = schemathesis.openapi.from_dict(RAW)
schema.base_url = "http://user:%s@h.example" % canary
op = schema["/a"]["GET"]
rows = []
for cps in names:
    name = "".join(map(chr, cps))
    d = {name: [canary]}
    sanitize_value(d)
    rows.append({"name": cps, "cfg": kind, "form": "global-config", "header": "-", "shape": "-", "route": "-", "redacted": canary not in json.dumps(d)})
    try:
        cmd = op.Case(headers={name: canary}, query={name: canary}, cookies={name: canary}).as_curl_command()
    except Exception as exc:
        continue
    # userinfo of the base url must be gone as well; report separately
    head, _, url = cmd.rpartition(" ")
    rows.append({"name": cps, "cfg": kind, "form": "curl-api", "header": "-", "shape": "-", "route": "-", "redacted": canary not in head and ("=" + canary) not in url})
    rows.append({"name": cps, "cfg": kind, "form": "curl-api-userinfo", "header": "-", "shape": "-", "route": "-", "redacted": (canary + "@") not in url})
from schemathesis.cli.commands.run.handlers import cassettes
for u in userinfo:
    ui = shapes[u["shape"]] % canary
    def urow(form, rendered):
        rows.append({"name": [], "cfg": kind, "form": form, "header": "-", "shape": u["shape"], "route": u["route"], "redacted": canary not in rendered})
    if u["route"] == "url-userinfo":   # the base URL of the API
        for k, base in enumerate(("https://%s@api.example.com/v1", "http://%s@127.0.0.1:8080", "http://%s@[::1]:8080/api")):
            urow("userinfo-sanitize-url-%d" % k, sanitize_url(base % ui + "/a?page=1"))
        fresh = schemathesis.openapi.from_dict(RAW)   # the operations of a schema remember the base URL they were built with
        fresh.base_url = "https://%s@api.example.com/v1" % ui
        cmd = fresh["/a"]["GET"].Case(query={"page": "1"}).as_curl_command()
        assert "api.example.com/v1/a" in cmd, cmd
        urow("userinfo-curl-api", cmd)
        argv = ["st", "run", "http://api.example.com/openapi.json", "--url", "https://%s@api.example.com/v1" % ui, "--report", "vcr"]
    else:                              # the location the schema is loaded from
        for k, loc in enumerate(("https://%s@api.example.com/openapi.json", "http://%s@127.0.0.1:8080/openapi.json?v=2", "https://%s@api.example.com")):
            urow("userinfo-sanitize-url-%d" % k, sanitize_url(loc % ui))
        argv = ["st", "run", "https://%s@api.example.com/openapi.json" % ui, "--report", "vcr"]
    saved = sys.argv
    try:
        sys.argv = argv
        urow("userinfo-command-line", cassettes.get_command_representation(sanitize=True))
    finally:
        sys.argv = saved
print(json.dumps(rows))
"""
    p = subprocess.run(["/venv/bin/python", "-c", code], input=json.dumps([kind, CUSTOM[kind], names, CANARY, userinfo or [], USERINFO]), capture_output=True,
                       text=True, timeout=600)
    if p.returncode != 0:
        raise RuntimeError("unit_global child failed: " + p.stderr[-2000:])
    return json.loads(p.stdout.strip().splitlines()[-1])


# ------------------------------------------------------------------------------------------------------------------
# (i') histories: re-configuration inside ONE process
# ------------------------------------------------------------------------------------------------------------------
OPS = {"configure-keys": ("configure", {"keys_to_sanitize": ["X-Custom"]}), "configure-markers": ("configure", {"sensitive_markers": ["Zeta"]}),
       "extend-keys": ("extend", {"keys_to_sanitize": ["customer_ref"]}), "extend-markers": ("extend", {"sensitive_markers": ["Trace"]}),
       "configure-replacement": ("configure", {"replacement": "<hidden>"})}
_hstate: dict = {}


def _reset_config() -> None:
    import schemathesis
    from schemathesis.core.output import sanitization as sz

    schemathesis.sanitization.configure(keys_to_sanitize=sorted(sz.DEFAULT_KEYS_TO_SANITIZE),
                                        sensitive_markers=sorted(sz.DEFAULT_SENSITIVE_MARKERS), replacement=sz.DEFAULT_REPLACEMENT)


def hist_observe(item: tuple[int, dict, bool]) -> dict:
    """Replay one configuration history through the PUBLIC module-level API of this very process (no `config=` argument anywhere):
    configure()/extend() for C steps; for S steps the value is rendered by sanitize_value, sanitize_url (the same URL every time the
    name recurs), Case.as_curl_command and - when with_writers - the real VCR and HAR writers."""
    idx, h, with_writers = item
    import schemathesis
    from schemathesis.core.output.sanitization import sanitize_url, sanitize_value

    if "schema" not in _hstate:
        _hstate["schema"] = schemathesis.openapi.from_dict({"openapi": "3.0.2", "info": {"title": "t", "version": "1"},
                                                            "paths": {"/a": {"get": {"responses": {"200": {"description": "ok"}}}}}})
    schema = _hstate["schema"]
    schema.base_url = "http://h%d.example" % idx
    op = schema["/a"]["GET"]
    canary = "Cnry%dHq" % idx
    outs = []
    _reset_config()
    try:
        for k, step in enumerate(h["steps"], 1):
            if step["kind"] == "C":
                if step["op"] == "reset":
                    _reset_config()
                else:
                    fn, kw = OPS[step["op"]]
                    getattr(schemathesis.sanitization, fn)(**kw)
                continue
            name = text(step["name"])

            def out(form: str, rendered: str) -> None:
                outs.append({"step": k, "form": form, "redacted": canary not in rendered})

            d = {name: [canary]}
            sanitize_value(d)
            out("value", json.dumps(d))
            url = "http://h%d.example/p?%s=%s" % (idx, quote(name, safe=""), canary)  # identical across re-configurations
            out("url", sanitize_url(url))
            out("curl", op.Case(headers={name: canary}, query={name: canary}).as_curl_command())
            if with_writers:
                from . import c16

                st = c16._setup()
                rec = st["Recorder"](label="GET /a")
                c16.make_exchange(st, rec, cid="h%dk%d" % (idx, k), url=url, req_headers={name: canary},
                                  resp_headers={"content-type": ["application/json"], name.lower(): [canary]},
                                  checks=[("chk", 0, None, "")])
                ev = st["events"]
                import uuid

                r = c16.run_reporters(st, [ev.ScenarioFinished(id=uuid.uuid4(), phase=st["PhaseName"].FUZZING, suite_id=uuid.uuid4(),
                                                               label="GET /a", status=st["Status"].SUCCESS, recorder=rec,
                                                               elapsed_time=0.01, skip_reason=None, is_final=False),
                                           ev.EngineFinished(running_time=0.1)], sanitize=True, snapshots=False)
                if r["crashAt"] or r["vcr.yaml"] is None or r["har.json"] is None:
                    raise RuntimeError("cassette writers failed in history %d: %s" % (idx, r["crashSite"]))
                out("vcr", r["vcr.yaml"])
                out("har", r["har.json"])
    finally:
        _reset_config()
    return {"steps": [{"kind": s["kind"], "op": s["op"], "name": s["name"]} for s in h["steps"]], "outs": outs, "idx": idx}


def recurs_across_config(h: dict) -> bool:
    """The same name is rendered, then the configuration changes, then it is rendered again."""
    seen: dict = {}
    changed_since: dict = {}
    for s in h["steps"]:
        if s["kind"] == "C":
            for n in seen:
                changed_since[n] = True
        else:
            n = tuple(s["name"])
            if seen.get(n) and changed_since.get(n):
                return True
            seen[n] = True
            changed_since[n] = False
    return False


# ------------------------------------------------------------------------------------------------------------------
# (ii) end to end
# ------------------------------------------------------------------------------------------------------------------
def b64_cores(secret: str) -> list[str]:
    """Substrings that occur in the base64 text of ANY byte string containing `secret` (three alignments)."""
    out = []
    raw = secret.encode()
    for k in range(3):
        enc = base64.b64encode(b"A" * k + raw).decode()
        start = 4 if k else 0
        end = len(enc) - (4 if (k + len(raw)) % 3 else 0)
        core = enc[start:end]
        if len(core) >= 8:
            out.append(core)
    return out


def occurs(secret: str, haystack: str) -> bool:
    if secret in haystack or quote(secret, safe="") in haystack:
        return True
    return any(core in haystack for core in b64_cores(secret))


def spellings(key: str) -> list[str]:
    """The three spellings of a default key that Sanitize.tla puts into the pool (original, upper, mixed)."""
    return [key, key.upper(), "".join(c.upper() if i % 2 == 0 else c for i, c in enumerate(key))]


def plan_runs(ctx: Ctx, pool: list[str], default_keys: list[str]) -> list[dict]:
    """A run = configuration + sanitize flag + slots; a slot = (route, carrier name), each with its own canary. One CLI run can carry
    many slots per route (many -H options, many generated header / query / cookie parameters, many Set-Cookie headers)."""

    def headers_run(cfg, sanitize, user, gh, gq, gc, rc, rh, **extra):
        slots = [{"route": r, "name": n} for r, n in (("user-header", user), ("gen-header", gh), ("gen-query", gq), ("gen-cookie", gc),
                                                    ("resp-set-cookie", rc), ("resp-header", rh))]
        return dict({"mode": "headers", "cfg": cfg, "sanitize": sanitize, "slots": slots}, **extra)

    def key_run(cfg, sanitize, rotation):
        """EVERY default key of the specification in header, query and cookie position; the spelling rotates with `rotation`."""
        slots = []
        for k in default_keys:
            sp = spellings(k)
            slots.append({"route": "gen-header", "name": sp[rotation % 3]})
            slots.append({"route": "gen-query", "name": sp[(rotation + 1) % 3]})
            slots.append({"route": "gen-cookie", "name": sp[(rotation + 2) % 3]})
        return {"mode": "headers", "cfg": cfg, "sanitize": sanitize, "slots": slots}

    runs = [
        headers_run("default", True, "Authorization", "X-API-Key", "api_key", "sessionid", "sid", "X-Auth-Token"),
        headers_run("default", False, "Authorization", "X-API-Key", "api_key", "sessionid", "sid", "X-Auth-Token"),
        {"mode": "auth", "cfg": "default", "sanitize": True, "slots": [{"route": "auth-basic", "name": "Authorization"}]},
        {"mode": "userinfo", "cfg": "default", "sanitize": True, "slots": [{"route": "url-userinfo", "name": "Authorization"}]},
        headers_run("custom-keys", True, "X-Custom", "X-Trace", "token", "Kee", "PHPSESSID", "Set-Cookie"),
        headers_run("custom-markers", True, "X-Zeta-Id", "Token-X", "api_key", "zetacookie", "sid", "X-Auth-Token"),
        headers_run("default", True, "X-Trace", "X-Request-Id", "page", "theme", "lang", "ETag"),
        headers_run("default", True, "X-Auth-Token", "X-Secret-Id", "client_secret", "csrftoken", "PHPSESSID", "X-Token", eq=True),
        {"mode": "auth", "cfg": "default", "sanitize": True, "slots": [{"route": "auth-basic", "name": "Authorization"}], "eq": True},
    ]
    def location_run(cfg, sanitize, names):
        return {"mode": "schema-location", "cfg": cfg, "sanitize": sanitize,
                "slots": [{"route": "schema-userinfo", "name": "Authorization"}] + [{"route": "schema-query", "name": n} for n in names]}

    runs += [location_run("default", True, ["api_key", "page", "X-Custom"]), location_run("default", False, ["api_key", "page"]),
             location_run("custom-keys", True, ["X-Custom", "cookie", "token"])]
    # every default key x 3 spellings x {header, query, cookie}: 3 rotations; under custom markers only the exact-key rule can match
    runs += [key_run("default", True, r) for r in range(3)] + [key_run("custom-markers", True, r) for r in range(3)]
    # without cookie / set-cookie among the keys the Cookie header is redacted cookie by cookie: every default key at every position
    runs += [key_run("no-cookie-keys", True, r) for r in ([ctx.seed % 3] if ctx.quick else range(3))]
    runs.append(key_run("default", False, ctx.seed % 3))
    # the SHAPE of URL userinfo (family USERINFO of Sanitize.tla): --url and the schema location
    shapes = [sh for sh in USERINFO if sh != "user-password"]

    def userinfo_run(cfg, sanitize, shape, **extra):
        return dict({"mode": "userinfo", "cfg": cfg, "sanitize": sanitize,
                     "slots": [{"route": "url-userinfo", "name": "Authorization", "shape": shape}]}, **extra)

    def shaped_location_run(cfg, sanitize, shape, names):
        r = location_run(cfg, sanitize, names)
        r["slots"][0]["shape"] = shape
        return r

    rot = shapes[ctx.seed % len(shapes):] + shapes[:ctx.seed % len(shapes)]
    runs += [userinfo_run("default", True, "token-only"), userinfo_run("default", True, rot[1] if rot[1] != "token-only" else rot[2]),
             shaped_location_run("default", True, "token-only", ["api_key", "page"])]
    # the FATE of the request: every API request of the run is dropped without a response (transport-level fault) - every route group
    runs += [headers_run("default", True, "Authorization", "X-API-Key", "api_key", "sessionid", "sid", "X-Auth-Token", fault=True),
             headers_run("default", False, "Authorization", "X-API-Key", "api_key", "sessionid", "sid", "X-Auth-Token", fault=True),
             dict(key_run("default", True, ctx.seed % 3), fault=True),
             {"mode": "auth", "cfg": "default", "sanitize": True, "slots": [{"route": "auth-basic", "name": "Authorization"}], "fault": True},
             userinfo_run("default", True, rot[0], fault=True),
             dict(location_run("default", True, ["api_key", "page"]), fault=True)]
    if ctx.quick:
        return runs
    runs += [userinfo_run(cfg, sanitize, sh) for sh in shapes for cfg, sanitize in (("default", True), ("custom-keys", True), ("default", False))]
    runs += [shaped_location_run("default", sanitize, sh, ["api_key", "page"]) for sh in shapes for sanitize in (True, False)]
    runs += [userinfo_run("default", True, sh, fault=True) for sh in USERINFO]
    runs += [headers_run("custom-keys", True, "X-Custom", "X-Trace", "token", "Kee", "PHPSESSID", "Set-Cookie", fault=True),
             headers_run("custom-markers", True, "X-Zeta-Id", "Token-X", "api_key", "zetacookie", "sid", "X-Auth-Token", fault=True),
             headers_run("default", True, "X-Trace", "X-Request-Id", "page", "theme", "lang", "ETag", fault=True),
             dict(key_run("no-cookie-keys", True, 0), fault=True), dict(key_run("custom-markers", True, 1), fault=True),
             dict(key_run("default", False, 2), fault=True)]
    runs += [{"mode": "auth", "cfg": "default", "sanitize": False, "slots": [{"route": "auth-basic", "name": "Authorization"}]},
             {"mode": "userinfo", "cfg": "default", "sanitize": False, "slots": [{"route": "url-userinfo", "name": "Authorization"}]},
             {"mode": "auth", "cfg": "custom-keys", "sanitize": True, "slots": [{"route": "auth-basic", "name": "Authorization"}]},
             {"mode": "userinfo", "cfg": "custom-markers", "sanitize": True, "slots": [{"route": "url-userinfo", "name": "Authorization"}]},
             key_run("custom-keys", True, 0), key_run("custom-markers", False, 1)]
    n = len(pool)
    for cfg, sanitize, step in (("default", True, 2), ("custom-keys", True, 5), ("custom-markers", True, 5), ("default", False, 9)):
        for i in range(ctx.seed % step, n, step):
            runs.append(headers_run(cfg, sanitize, pool[i], pool[(i + 7) % n], pool[(i + 13) % n], pool[(i + 19) % n],
                                    pool[(i + 29) % n], pool[(i + 37) % n]))
    return runs


def e2e_run(item: tuple[int, dict]) -> dict:
    idx, run = item
    rng = random.Random(1000 + idx)
    mode = run["mode"]
    fault = bool(run.get("fault"))
    slots = [dict(sl, k=k, canary="cq%ds%d%sz" % (idx, k, "".join(rng.choice("bcdfghjkmnpqrstvwxz") for _ in range(10))))
             for k, sl in enumerate(run["slots"])]
    by_route: dict[str, list[dict]] = {}
    for sl in slots:
        by_route.setdefault(sl["route"], []).append(sl)
    user_names = {sl["name"].lower() for sl in by_route.get("user-header", [])}
    params, planned = [], []
    seen_headers = set(user_names)
    for sl in by_route.get("gen-header", []):
        low = sl["name"].lower()
        if low in NOT_GENERATED_HEADERS or low in seen_headers:  # header names are case-insensitive: one spelling per run
            continue
        seen_headers.add(low)
        params.append({"name": sl["name"], "in": "header", "required": True, "schema": {"type": "string", "enum": [sl["canary"]]}})
    for sl in by_route.get("gen-query", []):
        params.append({"name": sl["name"], "in": "query", "required": True, "schema": {"type": "string", "enum": [sl["canary"]]}})
    if "cookie" not in user_names:
        for sl in by_route.get("gen-cookie", []):
            params.append({"name": sl["name"], "in": "cookie", "required": True, "schema": {"type": "string", "enum": [sl["canary"]]}})
    schema = {"openapi": "3.0.2", "info": {"title": "t", "version": "1"},
              "paths": {"/items": {"get": {"parameters": params, "responses": {"200": {"description": "ok"}}}}}}
    resp_headers = [("Content-Type", "application/json")]
    for sl in by_route.get("resp-set-cookie", []):
        resp_headers.append(("Set-Cookie", "%s=%s; Path=/" % (sl["name"], sl["canary"])))
    for sl in by_route.get("resp-header", []):
        if sl["name"].lower() not in NOT_RESPONSE_HEADERS:
            resp_headers.append((sl["name"], sl["canary"]))

    def behaviour(rec):
        if rec.path.endswith("/openapi.json"):
            return 200, [("Content-Type", "application/json")], json.dumps(schema).encode()
        if fault:  # transport-level fault: every request but the schema download is dropped without a response
            raise ConnectionAbortedError()
        if rec.path.endswith("/items"):
            return 500, resp_headers, b'{"error": "boom"}'
        return 404, [("Content-Type", "application/json")], b"{}"

    d = tempfile.mkdtemp(prefix="c15-")
    try:
        with LoopbackServer(behaviour) as srv:
            location = srv.base_url + "/openapi.json"
            if mode == "schema-location":  # the credentials travel in the URL the schema is loaded from
                location = "http://%s@127.0.0.1:%d/openapi.json?%s" % (
                    USERINFO[by_route["schema-userinfo"][0].get("shape", "user-password")] % by_route["schema-userinfo"][0]["canary"], srv.port,
                    "&".join("%s=%s" % (quote(sl["name"], safe=""), sl["canary"]) for sl in by_route.get("schema-query", [])))
            cmd = [ST, "run", location, "--report", "junit,vcr,har", "--report-dir", d, "--phases", "fuzzing",
                   "--max-examples", "2", "--checks", "not_a_server_error", "--workers", "1", "--seed", "1",
                   "--output-sanitize", "true" if run["sanitize"] else "false"]
            eq = run.get("eq", False)  # the --option=value spelling
            for sl in by_route.get("user-header", []):
                hv = "%s: %s" % (sl["name"], sl["canary"])
                cmd += ["--header=" + hv] if eq else ["-H", hv]
            for sl in by_route.get("auth-basic", []):
                cmd += ["--auth=user:" + sl["canary"]] if eq else ["--auth", "user:" + sl["canary"]]
            for sl in by_route.get("url-userinfo", []):
                cmd += ["--url", "http://%s@127.0.0.1:%d" % (USERINFO[sl.get("shape", "user-password")] % sl["canary"], srv.port)]
            env = dict(os.environ, COLUMNS="400", NO_COLOR="1", TERM="dumb")
            env.pop("SCHEMATHESIS_HOOKS", None)
            if CUSTOM[run["cfg"]] is not None:
                with open(os.path.join(d, "c15hooks.py"), "w") as fd:
                    fd.write("import schemathesis\nschemathesis.sanitization.configure(**%r)\n" % CUSTOM[run["cfg"]])
                env["SCHEMATHESIS_HOOKS"] = "c15hooks"
            p = subprocess.run(cmd, capture_output=True, text=True, cwd=d, env=env, timeout=600)
            log = srv.snapshot()
        out = p.stdout + "\n" + p.stderr
        if fault:
            if "Network Error" not in out or "Reproduce with" in out or p.returncode != 1:
                return {"error": "CLI run %d did not report the scripted network error (rc=%s): %s" % (idx, p.returncode, out[-1500:])}
        elif "Reproduce with" not in out or p.returncode != 1:
            return {"error": "CLI run %d did not report the scripted failure (rc=%s): %s" % (idx, p.returncode, out[-1500:])}
        lines = out.splitlines()
        sinks = {"curl": "\n".join(l for l in lines if "curl -X" in l), "console": "\n".join(l for l in lines if "curl -X" not in l)}
        for sink, fname in (("junit", "junit.xml"), ("vcr", "vcr.yaml"), ("har", "har.json")):
            try:
                with open(os.path.join(d, fname), encoding="utf-8", errors="replace") as fd:
                    sinks[sink] = fd.read()
            except FileNotFoundError:
                return {"error": "CLI run %d wrote no %s" % (idx, fname)}
        # which slots were really exercised: the server log is the ground truth
        reqs = [r for r in log if r.path.endswith("/items")]
        if fault and (not reqs or any(r.status != -1 for r in reqs)):
            return {"error": "CLI run %d: the scripted fault did not hit every API request: %s" % (idx, [r.status for r in reqs])}
        sent = "\n".join(r.target + "\n" + "\n".join("%s: %s" % (k, v) for k, v in r.headers) for r in reqs)
        sent_schema = "\n".join(r.target + "\n" + "\n".join("%s: %s" % (k, v) for k, v in r.headers)
                                for r in log if r.path.endswith("/openapi.json"))
        # a sink whose artifact is broken or incomplete cannot witness absence: it is not judged (and is reported as a note)
        dead = []
        try:
            if len(json.loads(sinks["har"])["log"]["entries"]) < len(reqs):
                dead.append("har")
        except Exception:
            dead.append("har")
        try:
            import yaml

            if len(yaml.load(sinks["vcr"], Loader=getattr(yaml, "CSafeLoader", yaml.SafeLoader))["http_interactions"] or []) < len(reqs):
                dead.append("vcr")
        except Exception:
            dead.append("vcr")
        try:
            import xml.etree.ElementTree as ET

            ET.fromstring(sinks["junit"].encode("utf-8", "replace"))
        except Exception:
            dead.append("junit")
        routes, not_exercised = [], []
        for sl in slots:
            if sl["route"] in ("resp-set-cookie", "resp-header"):
                exercised = not fault and bool(reqs) and any(sl["canary"] in v for _, v in resp_headers)
            elif sl.get("shape", "user-password") != "user-password":
                # userinfo without a usable user:password pair is not turned into an Authorization header by the transport; the
                # secret is what the user typed on the command line - exercised as soon as that URL was really used
                exercised = bool(reqs) if sl["route"] == "url-userinfo" else bool(sent_schema)
            elif sl["route"].startswith("schema-"):
                exercised = occurs(sl["canary"], sent_schema)
            else:
                exercised = occurs(sl["canary"], sent)
            if exercised:
                routes.append({"route": sl["route"], "name": [ord(c) for c in sl["name"]], "k": sl["k"], "shape": sl.get("shape", "-"),
                               "present": {s: occurs(sl["canary"], sinks[s]) for s in SINKS}})
            else:
                not_exercised.append(sl["route"])
        return {"cfg": run["cfg"], "sanitize": run["sanitize"], "mode": mode, "routes": routes, "idx": idx, "dead": dead,
                "fate": FATES[fault],
                "not_exercised": not_exercised, "canary": {sl["k"]: sl["canary"] for sl in slots},
                "excerpt": {s: _excerpts(sinks[s], [sl["canary"] for sl in slots]) for s in SINKS}}
    finally:
        shutil.rmtree(d, ignore_errors=True)


# ------------------------------------------------------------------------------------------------------------------
# (iii) Python API channel: credentials put on the request by a `requests` auth object
# ------------------------------------------------------------------------------------------------------------------
API_CHILD = r"""
import json, sys
from hypothesis import HealthCheck, Phase, given, settings
from requests.auth import AuthBase, HTTPBasicAuth
import schemathesis
from schemathesis.core.failures import FailureGroup
from schemathesis.core.output import OutputConfig
from harness.server import LoopbackServer

spec = json.loads(sys.stdin.read())
if spec["cfg_kw"]:
    schemathesis.sanitization.configure(**spec["cfg_kw"])
RAW = {"openapi": "3.0.2", "info": {"title": "t", "version": "1"},
       "paths": {"/users": {"get": {"parameters": [{"name": "limit", "in": "query", "schema": {"type": "integer", "enum": [1]}}],
                                    "responses": {"200": {"description": "OK"}}}}}}


class HeaderAuth(AuthBase):
    def __init__(self, name, value):
        self.name, self.value = name, value

    def __call__(self, r):
        r.headers[self.name] = self.value
        return r


rows = []
with LoopbackServer(lambda rec: (500, [("Content-Type", "application/json")], b'{"detail": "boom"}')) as srv:
    for it in spec["items"]:
        schema = schemathesis.openapi.from_dict(RAW).configure(base_url=srv.base_url, output=OutputConfig(sanitize=spec["sanitize"]))
        kw = {}
        if it["carrier"] == "basic-auth-object":
            schema.auth.set_from_requests(HTTPBasicAuth("svc", it["canary"]))
        elif it["carrier"] == "header-auth-object":
            schema.auth.set_from_requests(HeaderAuth(it["name"], it["canary"]))
        elif it["carrier"] == "auth-at-call":
            kw["auth"] = ("svc", it["canary"])
        texts = []

        @given(case=schema["/users"]["GET"].as_strategy())
        @settings(max_examples=1, deadline=None, database=None, phases=[Phase.generate], derandomize=True,
                  suppress_health_check=list(HealthCheck))
        def once(case):
            texts.append(case.as_curl_command())
            try:
                case.call_and_validate(**kw)
            except FailureGroup as exc:
                texts.append(str(exc) + "\n" + "\n".join(str(e) for e in exc.exceptions))

        srv.clear()
        once()
        sent = "\n".join("%s: %s" % (k, v) for r in srv.snapshot() for k, v in r.headers)
        rows.append({"text": "\n".join(texts), "sent": sent})
print(json.dumps(rows))
"""


def api_runs(kind: str, sanitize: bool, items: list[dict]) -> list[dict]:
    """One child process per (configuration, sanitize): for every item a fresh schema whose credential comes from a `requests` auth
    object (HTTPBasicAuth / a header-setting AuthBase under `name`) or from `auth=` at call time; the curl sink is
    Case.as_curl_command() plus the failure report of call_and_validate() against a loopback server answering 500."""
    p = subprocess.run(["/venv/bin/python", "-c", API_CHILD], input=json.dumps({"cfg_kw": CUSTOM[kind], "sanitize": sanitize, "items": items}),
                       capture_output=True, text=True, timeout=1200, cwd=common.ROOT)
    if p.returncode != 0:
        raise RuntimeError("api_runs child failed: " + p.stderr[-2000:])
    rows = json.loads(p.stdout.strip().splitlines()[-1])
    out = []
    for it, row in zip(items, rows):
        if "Reproduce with" not in row["text"]:
            raise RuntimeError("API run produced no failure report for %r: %s" % (it, row["text"][-500:]))
        if not occurs(it["canary"], row["sent"]):
            out.append({"skip": it})
            continue
        present = {s: False for s in SINKS}
        present["curl"] = occurs(it["canary"], row["text"])
        out.append({"cfg": kind, "sanitize": sanitize, "mode": "api:" + it["carrier"], "idx": -1, "not_exercised": [], "dead": [],
                    "routes": [{"route": "requests-auth", "name": [ord(c) for c in it["name"]], "k": 0, "present": present}],
                    "canary": {0: it["canary"]}, "excerpt": {s: (_excerpts(row["text"], [it["canary"]]) if s == "curl" else []) for s in SINKS},
                    "item": it})
    return out


def _excerpts(hay: str, secrets: list[str]) -> list[str]:
    out = []
    for s in secrets:
        i = hay.find(s)
        if i >= 0:
            out.append(hay[max(0, i - 60): i + len(s) + 20].replace("\n", " "))
    return out[:4]


# ------------------------------------------------------------------------------------------------------------------
def name_class(name: str, cfg: str, sens: dict, route: str = "") -> str:
    low = name.lower()
    header = {"gen-cookie": "cookie", "resp-set-cookie": "set-cookie"}.get(route)
    if header and sens.get((header, cfg)):
        return "cookie-header-sensitive" + ("" if cfg == "default" else ":" + cfg)
    return ("sensitive" if sens.get((low, cfg)) else "plain") + ("" if cfg == "default" else ":" + cfg)


def judge(ctx: Ctx, units: list[dict], runs: list[dict], tag: str = "obs", hists: list[dict] | None = None):
    f = ctx.path("%s.json" % tag)
    tlc.write_json(f, {"units": [dict({"shape": "-", "route": "-"}, **u) for u in units],
                       "runs": [{"cfg": r["cfg"], "sanitize": r["sanitize"], "dead": r.get("dead", []), "fate": r.get("fate", "answered"),
                                 "routes": [dict({"shape": "-"}, **x) for x in r["routes"]]} for r in runs],
                       "hists": [{"steps": h["steps"], "outs": h["outs"]} for h in hists or []]})
    found: list = []
    res = tlc.require_ok(tlc.run_tlc("SanitizeJudge", "SanitizeJudge.cfg", env={"OBS_FILE": f}, workers=4, timeout=1800,
                                     on_json=lambda t, d: found.append(d), want_prints=False), "SanitizeJudge")
    unit_bad: dict[int, set] = {}
    run_bad: dict[int, set] = {}
    hist_bad: dict[int, set] = {}
    for d in found:
        {"unit": unit_bad, "run": run_bad, "hist": hist_bad}[d["what"]].setdefault(d["i"] - 1, set()).update(tuple(x) for x in d["v"])
    if hists is not None:
        return unit_bad, run_bad, res, hist_bad
    return unit_bad, run_bad, res


def run(ctx: Ctx) -> Outcome:
    out = Outcome()
    rng = random.Random(ctx.seed)
    names: list[dict] = []
    flows: list[dict] = []
    cookie_family: list[dict] = []
    userinfo_family: list[dict] = []
    res = tlc.require_ok(tlc.run_tlc("Sanitize", "Sanitize.cfg", workers=1, timeout=1800, want_prints=False,
                                     on_json=lambda t, d: {"NAME": names, "FLOW": flows, "COOKIE": cookie_family, "USERINFO": userinfo_family}[t].append(d)),
                         "Sanitize enumeration")
    for inv in res.violated:
        out.violations.append(Violation("C15:spec:" + inv, "design invariant %s violated in Sanitize.tla" % inv,
                                        {"kind": "spec", "invariant": inv, "trace": res.counterexample[:60]}))
    sens = {(text(n["name"]).lower(), n["cfg"]): n["sensitive"] for n in names}
    info = {(text(n["name"]), n["cfg"]): n for n in names}
    flow = {(f["route"], f["sink"], f["sanitize"], f["sens"], f["omitted"], f["fate"]): f["expected"] for f in flows}
    userinfo_exp = {(u["route"], u["shape"], u["cfg"]): u["redacted"] for u in userinfo_family}
    if set(u["shape"] for u in userinfo_family) != set(USERINFO):
        raise tlc.TLCFailure("the userinfo shapes of Sanitize.tla and of the driver differ")

    def expected(name: str, cfg: str, route: str, sink: str, sanitize: bool, fate: str = "answered") -> str:
        n = info[(name, cfg)]
        return flow[(route, sink, sanitize, n["carrier"][route], n["omitted"], fate)]

    pool = []
    for n in names:
        if text(n["name"]) not in pool:
            pool.append(text(n["name"]))
    default_keys = sorted({text(n["name"]) for n in names if n["isDefaultKey"]})
    set_default_keys(default_keys)
    cookie_exp = {(text(c["name"]), c["cfg"], c["route"], c["pos"], c["sep"]): c["redacted"] for c in cookie_family}

    # (i) unit level ---------------------------------------------------------------------------------------------
    t1 = time.time()
    units = [row for rows in common.pmap(unit_observe, names) for row in rows]
    with ThreadPoolExecutor(3) as ex:
        for rows in ex.map(lambda k: unit_global(k, [[ord(c) for c in p] for p in pool], [u for u in userinfo_family if u["cfg"] == k]),
                           list(CUSTOM)):
            units += rows
    t_unit = time.time() - t1

    # (i') histories: one process, re-configured between calls -----------------------------------------------------
    hs: list[dict] = []
    res_h = tlc.require_ok(tlc.run_tlc("SanitizeHist", "SanitizeHist_%s.cfg" % ("quick" if ctx.quick else "thorough"), workers=1,
                                       timeout=1800, want_prints=False, on_json=lambda t, d: hs.append(d)), "SanitizeHist enumeration")
    for inv in res_h.violated:
        out.violations.append(Violation("C15:spec:" + inv, "design invariant %s violated in SanitizeHist.tla" % inv,
                                        {"kind": "spec", "invariant": inv, "trace": res_h.counterexample[:60]}))
    recurring = [i for i, h in enumerate(hs) if recurs_across_config(h)]
    with_writers = set(common.sample(rng, recurring, 16 if ctx.quick else 120))
    t1 = time.time()
    hobs = common.pmap(hist_observe, [(i, h, i in with_writers) for i, h in enumerate(hs)])
    t_hist = time.time() - t1

    # (ii) end to end ----------------------------------------------------------------------------------------------
    plan = plan_runs(ctx, pool, default_keys)
    # (iii) Python API channel: requests auth objects; names = a seeded sample of the pool (all of it in thorough)
    api_names = ["Authorization", "X-API-Key", "X-Trace"] + common.sample(rng, pool, 12 if ctx.quick else len(pool))
    api_items = [{"carrier": "basic-auth-object", "name": "Authorization"}, {"carrier": "auth-at-call", "name": "Authorization"}] + \
        [{"carrier": "header-auth-object", "name": n} for n in dict.fromkeys(api_names)]
    for k, it in enumerate(api_items):
        it["canary"] = "cqA%dx%sz" % (k, "".join(rng.choice("bcdfghjkmnpqrstvwxz") for _ in range(10)))
    api_plan = [("default", True), ("default", False), ("custom-keys", True), ("custom-markers", True)]
    t1 = time.time()
    with ThreadPoolExecutor(12) as ex:
        api_future = [ex.submit(api_runs, kind, sanitize, api_items) for kind, sanitize in api_plan]
        observed = list(ex.map(e2e_run, list(enumerate(plan))))
        api_obs = [o for fut in api_future for o in fut.result()]
    t_e2e = time.time() - t1
    errors = [o["error"] for o in observed if "error" in o]
    if errors:
        raise RuntimeError("%d end-to-end runs unusable, e.g. %s" % (len(errors), errors[0]))
    api_skipped = [o for o in api_obs if "skip" in o]
    observed += [o for o in api_obs if "skip" not in o]
    unit_bad, run_bad, jres, hist_bad = judge(ctx, units, observed, hists=hobs)
    for i, (h, o) in enumerate(zip(hs, hobs)):  # driver-side comparison with the exported outputs of the machine
        mine = {(x["form"], x["step"], "over-redacted" if x["redacted"] else "leak") for x in o["outs"]
                if x["redacted"] != h["steps"][x["step"] - 1]["out"]}
        if mine != hist_bad.get(i, set()):
            raise tlc.TLCFailure("history %d: driver %s, TLC %s - machinery inconsistency" % (i, sorted(mine), sorted(hist_bad.get(i, set()))))
        if mine:
            shape = " ; ".join(st["op"] if st["kind"] == "C" else "S(%s)" % text(st["name"]) for st in h["steps"])
            for form, step, direction in sorted(mine):
                earlier = any(st["kind"] == "S" and st["name"] == h["steps"][step - 1]["name"] for st in h["steps"][:step - 1])
                out.violations.append(Violation(
                    "C15:history:%s:%s:%s" % (form, direction, "same-name-rendered-before-reconfiguration" if earlier else "first-rendering"),
                    "history [%s]: step %d rendered through %s is %s (the configuration current at that call says otherwise)" % (
                        shape, step, form, direction), {"kind": "hist", "hist": h, "idx": i, "writers": i in with_writers}))

    # driver-side comparison against the exported expectations; must coincide with TLC's verdict
    for i, u in enumerate(units):
        if u["shape"] != "-":
            want = userinfo_exp[(u["route"], u["shape"], u["cfg"])]
        elif u["header"] != "-":
            _, pos, sep_name = u["form"].split("-", 2)
            want = cookie_exp[(text(u["name"]), u["cfg"], "gen-cookie" if u["header"] == "cookie" else "resp-set-cookie", pos, sep_name)]
        else:
            want = True if u["form"] == "curl-api-userinfo" else sens[(text(u["name"]).lower(), u["cfg"])]
        mine = set() if u["redacted"] == want else {(u["form"], "-", "over-redacted" if u["redacted"] else "leak")}
        if mine != unit_bad.get(i, set()):
            raise tlc.TLCFailure("unit %s: driver %s, TLC %s - machinery inconsistency" % (u, mine, unit_bad.get(i)))
    n_cells = 0
    n_nontrivial = 0
    for i, r in enumerate(observed):
        mine = set()
        for x in r["routes"]:
            for s in SINKS:
                if s in r.get("dead", []):
                    continue
                n_cells += 1
                e = expected(text(x["name"]), r["cfg"], x["route"], s, r["sanitize"], r.get("fate", "answered"))
                n_nontrivial += e == "absent"
                if e == "absent" and x["present"][s]:
                    mine.add((x["route"], s, "leak", x["k"]))
                elif e == "present" and not x["present"][s]:
                    mine.add((x["route"], s, "missing", x["k"]))
        theirs = run_bad.get(i, set())
        if mine != theirs:
            raise tlc.TLCFailure("run %d: driver %s, TLC %s - machinery inconsistency" % (i, sorted(mine), sorted(theirs)))

    for i, bad in sorted(unit_bad.items()):
        u = units[i]
        for form, _, direction in sorted(bad):
            out.violations.append(Violation(
                "C15:unit:%s:%s:%s" % (re.sub(r"-\d+$", "", form) if u["shape"] != "-" else form, direction, "userinfo:" + u["shape"] if u["shape"] != "-" else
                                       "userinfo" if form == "curl-api-userinfo" else name_class(text(u["name"]), u["cfg"], sens)),
                "%s(%r) under %s config: %s" % (form, u["route"] + " of shape " + u["shape"] if u["shape"] != "-" else text(u["name"]),
                                                u["cfg"], direction), {"kind": "unit", "unit": u}))
    for i, bad in sorted(run_bad.items()):
        r = observed[i]
        for route, sink, direction, k in sorted(bad):
            slot = next(x for x in r["routes"] if x["k"] == k and x["route"] == route)
            nm = text(slot["name"])
            cls = "userinfo" if route in ("url-userinfo", "schema-userinfo") else name_class(nm, r["cfg"], sens, route)
            if slot.get("shape", "-") not in ("-", "user-password"):
                cls += ":" + slot["shape"]
            if r.get("fate", "answered") != "answered":
                cls += ":" + r["fate"]
            if r["mode"].startswith("api:"):
                cls += ":" + r["mode"][4:]
                rep = {"kind": "api", "cfg": r["cfg"], "sanitize": r["sanitize"], "item": r["item"]}
            else:
                rep = {"kind": "e2e", "run": plan[r["idx"]], "idx": r["idx"]}
            out.violations.append(Violation(
                "C15:%s:%s:%s:%s" % (route, sink, direction, cls),
                ("run #%d (%s, cfg=%s, sanitize=%s" + (", every request dropped without a response" if r.get("fate") == "no-response" else "")
                 + "): canary of route %s (carrier %r) %s %s; e.g. %s") % (
                    r["idx"], r["mode"], r["cfg"], r["sanitize"], route, nm,
                    "found in" if direction == "leak" else "not found in", sink,
                    [e for e in r["excerpt"][sink] if r["canary"][k] in e][:1]), rep))

    not_ex = sum(len(r["not_exercised"]) for r in observed) + len(api_skipped)
    dead_sinks = [(r["idx"], r["mode"], s) for r in observed for s in r.get("dead", [])]
    if dead_sinks:
        out.notes.append("%d sink artifacts were not well-formed / incomplete and therefore NOT judged (absence there would be vacuous), "
                         "e.g. run #%d (%s): %s - see C16" % (len(dead_sinks), dead_sinks[0][0], dead_sinks[0][1], dead_sinks[0][2]))
    out.coverage = {
        "states": res.distinct + res_h.distinct, "transitions": res.generated + res_h.generated,
        "traces_validated_against_impl": len(units) + len(observed) + len(hobs),
        "config_histories": len(hs), "config_histories_same_name_across_reconfiguration": len(recurring),
        "config_histories_with_cassette_writers": len(with_writers), "history_outputs": sum(len(o["outs"]) for o in hobs),
        "hist_s": round(t_hist, 1),
        "judge_states": jres.distinct,
        "evaluations": len(units) + sum(len(r["routes"]) * len(SINKS) for r in observed),
        "distinct_nontrivial": sum(1 for n in names if n["sensitive"]) + n_nontrivial,
        "userinfo_shape_family": len(userinfo_family), "userinfo_shape_observations": sum(1 for u in units if u["shape"] != "-"),
        "e2e_runs_without_response": sum(1 for r in observed if r.get("fate") == "no-response"),
        "e2e_cells_judged_without_response": sum(len(r["routes"]) * (len(SINKS) - len(r.get("dead", []))) for r in observed if r.get("fate") == "no-response"),
        "e2e_slots_with_nonstandard_userinfo": sum(1 for r in observed for x in r["routes"] if x.get("shape", "-") not in ("-", "user-password")),
        "name_cfg_pairs": len(names), "cookie_position_family": len(cookie_family),
        "cookie_position_observations": sum(1 for u in units if u["header"] != "-"), "flow_matrix_cells": len(flows), "unit_observations": len(units),
        "e2e_runs": len(plan), "sinks_not_wellformed_not_judged": len(dead_sinks), "api_channel_observations": len(api_obs), "default_keys": len(default_keys),
        "e2e_slots_judged": sum(len(r["routes"]) for r in observed), "e2e_cells_judged": n_cells, "e2e_cells_expected_absent": n_nontrivial,
        "skipped_outside_fragment": not_ex, "routes_planned_but_not_exercised": not_ex,
        "samples": [{"cfg": r["cfg"], "sanitize": r["sanitize"], "mode": r["mode"],
                     "matrix": {"%s#%d" % (x["route"], x["k"]): {"carrier": text(x["name"]), "present": x["present"]} for x in r["routes"][:8]}}
                    for r in common.sample(rng, observed, 2)]
                   + [{"unit": {"name": text(u["name"]), "cfg": u["cfg"], "form": u["form"], "redacted": u["redacted"]}}
                      for u in common.sample(rng, units, 3)],
        "rule": "every (name, cfg) of the pool in Sanitize.tla x every value shape of the sanitizer functions (exhaustive); end to end: "
                "the planned CLI runs (every default key x 3 spellings in header, query and cookie position under default and custom-marker "
                "configurations; one run per configuration/route group; URL userinfo of every shape at unit level, token-only + one rotating shape "
                "end to end; the request route groups once more with every API request dropped without a response; thorough: every pool name on the routes) and the Python API channel "
                "(requests auth objects under pool names); non-trivial = "
                "the spec expects the secret to be absent",
        "exhaustive": True,
        "constants": {"pool": len(pool), "cfgs": list(CUSTOM), "routes": ROUTES, "sinks": SINKS, "userinfo_shapes": list(USERINFO), "fates": FATES},
        "tlc_enumeration_s": round(res.wall_s, 1), "unit_s": round(t_unit, 1), "e2e_s": round(t_e2e, 1), "tlc_judge_s": round(jres.wall_s, 1),
    }
    out.assumptions = [
        "a secret is recognised in a sink in plain, percent-encoded and base64 (any alignment) form only",
        "the loopback server log is the ground truth for which routes were exercised; routes whose canary never reached the wire are not judged",
        "console = stdout+stderr of `st run` without the curl lines; curl = those lines; file sinks are read after the CLI process exited",
        "configuration histories are replayed through the module-level API of one process per worker; every history starts and ends with the defaults re-installed through configure()",
        "Python API channel: curl sink = Case.as_curl_command() + the failure report of call_and_validate(); the other sinks are not exercised there",
        "custom configurations are installed through SCHEMATHESIS_HOOKS + schemathesis.sanitization.configure (replace semantics)",
        "which sink shows which field when nothing is redacted (MustCarry) is part of the specification",
        "no-response = the loopback server closes the connection of every request except the schema download (requests.ConnectionError); timeouts are not scripted",
        "URL userinfo of a non user:password shape never reaches the wire as a header; it counts as exercised when the URL that carries it was used for a request",
    ]
    return out


def text_name(r: dict, route: str) -> str:
    for x in r["routes"]:
        if x["route"] == route:
            return text(x["name"])
    return "-"


def replay(ctx: Ctx, data: dict) -> Outcome:
    out = Outcome()
    set_default_keys()
    if data.get("kind") == "unit":
        u = data["unit"]
        rows = unit_observe({"name": u["name"], "cfg": u["cfg"]}) if not u["form"].startswith(("global", "curl-api", "userinfo")) else \
            unit_global(u["cfg"], [u["name"]] if u.get("shape", "-") == "-" else [],
                        [] if u.get("shape", "-") == "-" else [{"route": u["route"], "shape": u["shape"], "cfg": u["cfg"]}])
        rows = [r for r in rows if r["form"] == u["form"] and r.get("shape", "-") == u.get("shape", "-")]
        bad, _, _ = judge(ctx, rows, [], "replay")
        for i, v in bad.items():
            for form, _, direction in v:
                out.violations.append(Violation("C15:unit:%s:%s" % (form, direction), "%s %s" % (text(u["name"]), direction), data))
    elif data.get("kind") == "hist":
        o = hist_observe((data["idx"], data["hist"], data.get("writers", False)))
        _, _, _, bad = judge(ctx, [], [], "replay", hists=[o])
        for form, step, direction in sorted(bad.get(0, set())):
            out.violations.append(Violation("C15:history:%s:%s" % (form, direction), "step %d via %s: %s" % (step, form, direction), data))
    elif data.get("kind") == "api":
        obs = [o for o in api_runs(data["cfg"], data["sanitize"], [data["item"]]) if "skip" not in o]
        _, bad, _ = judge(ctx, [], obs, "replay")
        for route, sink, direction, _k in sorted(bad.get(0, set())):
            out.violations.append(Violation("C15:%s:%s:%s" % (route, sink, direction), "canary of %s %s in %s" % (route, direction, sink), data))
    elif data.get("kind") == "e2e":
        o = e2e_run((data["idx"], data["run"]))
        if "error" in o:
            raise RuntimeError(o["error"])
        _, bad, _ = judge(ctx, [], [o], "replay")
        for route, sink, direction, _k in sorted(bad.get(0, set())):
            out.violations.append(Violation("C15:%s:%s:%s" % (route, sink, direction), "canary of %s %s in %s" % (route, direction, sink), data))
    return out


def selftest(ctx: Ctx) -> bool:
    """Binding: a flipped observation must be rejected by the TLA+ judge, the untouched one accepted."""
    name = [ord(c) for c in "X-Api-Key"]
    units = [{"name": name, "cfg": "default", "form": "header-list", "header": "-", "redacted": True},
             {"name": name, "cfg": "default", "form": "header-list", "header": "-", "redacted": False},
             {"name": [ord(c) for c in "Accept"], "cfg": "default", "form": "header-list", "header": "-", "redacted": True},
             {"name": [ord(c) for c in "PHPSESSID"], "cfg": "no-cookie-keys", "form": "cookie-last-semicolon-space", "header": "cookie", "redacted": False},
             {"name": [ord(c) for c in "theme"], "cfg": "no-cookie-keys", "form": "cookie-last-semicolon-space", "header": "cookie", "redacted": False},
             {"name": [], "cfg": "default", "form": "userinfo-curl-api", "header": "-", "shape": "token-only", "route": "url-userinfo", "redacted": True},
             {"name": [], "cfg": "custom-keys", "form": "userinfo-curl-api", "header": "-", "shape": "token-only", "route": "url-userinfo", "redacted": False}]
    present = {s: False for s in SINKS}
    runs = [{"cfg": "default", "sanitize": True, "dead": [], "routes": [{"route": "user-header", "name": name, "k": 0, "present": present}]},
            {"cfg": "default", "sanitize": True, "dead": [], "routes": [{"route": "user-header", "name": name, "k": 0, "present": dict(present, vcr=True)}]},
            {"cfg": "default", "sanitize": False, "dead": ["har"], "routes": [{"route": "user-header", "name": name, "k": 0, "present": dict(present, vcr=True)}]},
            {"cfg": "default", "sanitize": True, "dead": [], "fate": "no-response", "routes": [{"route": "user-header", "name": name, "k": 0, "present": dict(present, har=True)}]},
            {"cfg": "default", "sanitize": False, "dead": [], "fate": "no-response", "routes": [{"route": "user-header", "name": name, "k": 0, "present": dict(present, har=True, vcr=True)}]}]
    xc = [ord(c) for c in "X-Custom"]
    steps = [{"kind": "S", "op": "-", "name": xc}, {"kind": "C", "op": "configure-keys", "name": []}, {"kind": "S", "op": "-", "name": xc}]
    good_h = {"steps": steps, "outs": [{"step": 1, "form": "url", "redacted": False}, {"step": 3, "form": "url", "redacted": True}]}
    stale_h = {"steps": steps, "outs": [{"step": 1, "form": "url", "redacted": False}, {"step": 3, "form": "url", "redacted": False}]}
    ub, rb, _, hb = judge(ctx, units, runs, "selftest", hists=[good_h, stale_h])
    if hb != {1: {("url", 3, "leak")}}:
        print("selftest: history judge gave", hb)
        return False
    ok = ub == {1: {("header-list", "-", "leak")}, 2: {("header-list", "-", "over-redacted")},
                3: {("cookie-last-semicolon-space", "-", "leak")}, 6: {("userinfo-curl-api", "-", "leak")}} and \
        rb == {1: {("user-header", "vcr", "leak", 0)}, 2: {("user-header", "curl", "missing", 0), ("user-header", "junit", "missing", 0)},
               3: {("user-header", "har", "leak", 0)}}
    if not ok:
        print("selftest: judge gave", ub, rb)
    return ok


def main(argv=None) -> int:
    return common.main("C15", run, replay, selftest, argv)
