"""C13 - a fixed seed reproduces the same requests (trace validation; spec/Repro.tla).

For every configuration (schema of a small built-in family, seed, phase subset, generation modes) the REAL engine is run
  A   in a fresh subprocess, PYTHONHASHSEED = h1
  B   in a fresh subprocess, PYTHONHASHSEED = h2            (fresh-process reproducibility, string-hash order must not matter)
  C   one more subprocess (PYTHONHASHSEED = h1) running A1, A2 (same seed twice, process-global caches warm the second time)
  E   a subprocess (PYTHONHASHSEED = h1) running W3 (same seed, 3 workers) and D (another seed)
  Hk  one subprocess (PYTHONHASHSEED = h1) per PROCESS HISTORY of the family TLC enumerates from spec/ReproHistory.tla that contains a
      "twin" (= a schema with the SAME operation labels but DIFFERENT parameter / body schemas): the history is tested in that process
      one schema after another, the last run (the schema itself) must send what the fresh process A sent (expected outcome exported
      by the spec: "as-fresh"; the label-keyed memo of ReproHistory.tla is refuted by exactly this history)
against a deterministic, stateless scripted loopback server owned by this process; the SERVER LOG is the ground truth.  Logs are cut
into phases by marker requests, projected to integer digests and paired into units; TLC validates every unit against Repro.tla
(`ReproTrace`).  A rejected unit names the phase, the operation and the first divergent field.
"""
from __future__ import annotations

import copy
import json
import os
import random
import re
import subprocess
import sys
import time
import zlib
from concurrent.futures import ThreadPoolExecutor

from . import common, tlc
from .common import Ctx, Outcome, Violation
from .server import LoopbackServer, json_response

PH = {"EXAMPLES": "examples", "COVERAGE": "coverage", "FUZZING": "fuzzing", "STATEFUL_TESTING": "stateful"}
SKIP_HEADERS = {"x-schemathesis-testcaseid", "host"}     # the per-case id; the harness's own server address (one server per run)
CONFIGS_PER_TLC = 20

# --------------------------------------------------------------------------------------------------------------------
# schema family
# --------------------------------------------------------------------------------------------------------------------
OK = {"200": {"description": "ok"}}


def fam_params() -> dict:
    return {"openapi": "3.0.2", "info": {"title": "params", "version": "1"}, "paths": {
        "/items/{id}": {"get": {"operationId": "getItem", "parameters": [
            {"name": "id", "in": "path", "required": True, "schema": {"type": "string"}},
            {"name": "n", "in": "query", "required": True, "schema": {"type": "integer", "minimum": 1, "multipleOf": 2}},
            {"name": "e", "in": "query", "schema": {"enum": [None, "a", "b"]}},
            {"name": "p", "in": "query", "schema": {"type": "string", "pattern": "^a*$"}},
            {"name": "arr", "in": "query", "schema": {"type": "array", "items": {"type": "integer"}, "maxItems": 3}},
            {"name": "X-Tag", "in": "header", "schema": {"type": "string", "pattern": "^[a-z]{1,5}$"}},
            {"name": "sid", "in": "cookie", "schema": {"type": "string", "minLength": 1, "maxLength": 8}},
        ], "responses": OK}},
        "/search": {"get": {"operationId": "search", "parameters": [
            {"name": "q", "in": "query", "required": True, "schema": {"type": "string", "minLength": 2, "maxLength": 5}},
            {"name": "flag", "in": "query", "schema": {"type": "boolean"}},
            {"name": "lim", "in": "query", "schema": {"type": "integer", "maximum": 10}},
            {"name": "when", "in": "query", "schema": {"type": "string", "format": "date"}},
        ], "responses": OK}},
    }}


ITEM = {"type": "object", "required": ["name", "price"], "additionalProperties": False, "properties": {
    "name": {"type": "string", "minLength": 1, "example": "n1"},
    "price": {"type": "number", "minimum": 0},
    "tags": {"type": "array", "items": {"type": "string"}, "uniqueItems": True, "maxItems": 3},
    "kind": {"enum": ["new", "used"]},
    "note": {"type": "string", "nullable": True},
}}


def fam_bodies() -> dict:
    return {"openapi": "3.0.2", "info": {"title": "bodies", "version": "1"},
            "components": {"securitySchemes": {"key": {"type": "apiKey", "in": "header", "name": "X-Key"}}},
            "security": [{"key": []}],
            "paths": {
                "/items": {"post": {"operationId": "createItem", "requestBody": {"required": True, "content": {"application/json": {
                    "schema": copy.deepcopy(ITEM),
                    "examples": {"one": {"value": {"name": "ex1", "price": 1}}, "two": {"value": {"name": "ex2", "price": 2.5, "tags": ["t"]}}},
                }}}, "responses": OK}},
                "/items/{id}": {"put": {"operationId": "putItem", "parameters": [
                    {"name": "id", "in": "path", "required": True, "schema": {"type": "integer", "minimum": 1}, "example": 7},
                    {"name": "ver", "in": "query", "required": True, "schema": {"type": "string", "minLength": 1}},
                    {"name": "mode", "in": "query", "schema": {"enum": ["fast", "safe"]}, "examples": {"a": {"value": "fast"}, "b": {"value": "safe"}}},
                ], "requestBody": {"content": {"application/x-www-form-urlencoded": {"schema": {
                    "type": "object", "required": ["a"], "properties": {"a": {"type": "string"}, "b": {"type": "integer"}}}}}},
                    "responses": OK}},
            }}


def fam_links() -> dict:
    user = {"type": "object", "required": ["name"], "properties": {"name": {"type": "string", "minLength": 1, "maxLength": 6},
                                                                    "age": {"type": "integer", "minimum": 0, "maximum": 120}}}
    return {"openapi": "3.0.2", "info": {"title": "links", "version": "1"}, "paths": {
        "/users": {"post": {"operationId": "createUser", "requestBody": {"required": True, "content": {"application/json": {"schema": user}}},
                            "responses": {"201": {"description": "created",
                                                  "content": {"application/json": {"schema": {"type": "object", "properties": {"id": {"type": "integer"}}}}},
                                                  "links": {"get": {"operationId": "getUser", "parameters": {"id": "$response.body#/id"}},
                                                            "patch": {"operationId": "patchUser", "parameters": {"id": "$response.body#/id"}},
                                                            "delete": {"operationId": "deleteUser", "parameters": {"id": "$response.body#/id"}}}}}}},
        "/users/{id}": {
            "parameters": [{"name": "id", "in": "path", "required": True, "schema": {"type": "integer", "minimum": 0}}],
            "get": {"operationId": "getUser", "responses": {"200": {"description": "ok",
                                                                    "links": {"delete": {"operationId": "deleteUser", "parameters": {"id": "$request.path.id"}}}},
                                                            "404": {"description": "nf"}}},
            "patch": {"operationId": "patchUser", "requestBody": {"content": {"application/json": {"schema": user}}},
                      "responses": {"200": {"description": "ok"}, "404": {"description": "nf"}}},
            "delete": {"operationId": "deleteUser", "responses": {"204": {"description": "gone"}, "404": {"description": "nf"}}},
        },
    }}


def fam_multi_flat() -> dict:
    """The operations of `multi` in one document without references (the same operation labels)."""
    p, b, l = fam_params(), fam_bodies(), fam_links()
    root = {"openapi": "3.0.2", "info": {"title": "multi", "version": "1"}, "paths": {}}
    root["paths"]["/items/{id}"] = {"get": p["paths"]["/items/{id}"]["get"], "put": b["paths"]["/items/{id}"]["put"]}
    root["paths"]["/search"] = p["paths"]["/search"]
    root["paths"]["/items"] = b["paths"]["/items"]
    root["paths"].update(l["paths"])
    return root


def fam_multi(dirname: str) -> str:
    """All of the above in three files with relative $ref (root.json -> defs.json -> sub/more.json). Returns the root path."""
    root = fam_multi_flat()
    root["paths"]["/items"]["post"]["requestBody"]["content"]["application/json"]["schema"] = {"$ref": "defs.json#/schemas/Item"}
    get = root["paths"]["/items/{id}"]["get"]
    get["parameters"][1] = {"$ref": "defs.json#/parameters/N"}
    get["parameters"][5]["schema"] = {"$ref": "sub/more.json#/Tag"}
    user = root["paths"]["/users"]["post"]["requestBody"]["content"]["application/json"]["schema"]
    root["paths"]["/users"]["post"]["requestBody"]["content"]["application/json"]["schema"] = {"$ref": "defs.json#/schemas/User"}
    root["paths"]["/users/{id}"]["patch"]["requestBody"]["content"]["application/json"]["schema"] = {"$ref": "defs.json#/schemas/User"}
    item = copy.deepcopy(ITEM)
    item["properties"]["tags"]["items"] = {"$ref": "sub/more.json#/Tag"}
    defs = {"schemas": {"Item": item, "User": user}, "parameters": {"N": fam_params()["paths"]["/items/{id}"]["get"]["parameters"][1]}}
    more = {"Tag": {"type": "string", "pattern": "^[a-z]{1,5}$"}}
    os.makedirs(os.path.join(dirname, "sub"), exist_ok=True)
    for name, doc in (("root.json", root), ("defs.json", defs), (os.path.join("sub", "more.json"), more)):
        with open(os.path.join(dirname, name), "w") as fd:
            json.dump(doc, fd)
    return os.path.join(dirname, "root.json")


def fam_rich() -> dict:
    """Schema features that reach the remaining value-generation sites of the coverage / examples phases (every one of them a draw):
    format-only strings, length-only strings, bounded integers, arrays of enums / strings / objects, pattern + length, allOf, const,
    patternProperties, exclusive bounds, uniqueItems, defaults and examples, boolean sub-schemas - and an operation that cannot be built."""
    thing = {"type": "object", "required": ["id", "code"], "properties": {
        "id": {"type": "string", "format": "uuid"},
        "when": {"type": "string", "format": "date-time"},
        "host": {"type": "string", "format": "hostname"},
        "short": {"type": "string", "maxLength": 4},
        "code": {"type": "string", "pattern": "^[A-Z]+$", "minLength": 2, "maxLength": 5},
        "fixed": {"type": "string", "pattern": "^ab$", "minLength": 1, "maxLength": 3},
        "level": {"type": "integer", "minimum": 2, "maximum": 9},
        "ratio": {"type": "number", "exclusiveMinimum": True, "minimum": 0, "maximum": 12, "multipleOf": 3},
        "colors": {"type": "array", "items": {"enum": ["r", "g", "b"]}, "minItems": 1},
        "words": {"type": "array", "items": {"type": "string"}, "minItems": 2, "maxItems": 4, "uniqueItems": True},
        "points": {"type": "array", "items": {"type": "object", "properties": {"x": {"type": "integer"}, "y": {"type": "integer"}}}},
        "kind": {"const": "thing"},
        "both": {"allOf": [{"type": "integer", "minimum": 1}, {"maximum": 5}]},
        "one": {"allOf": [{"type": "string", "minLength": 1}]},
        "either": {"anyOf": [{"type": "integer"}, {"type": "string", "maxLength": 2}]},
        "size": {"type": "integer", "default": 3, "minimum": 0},
        "label": {"type": "string", "example": "lbl", "minLength": 1},
        "meta": {"type": "object", "patternProperties": {"^x-": {"type": "integer"}}, "additionalProperties": False},
        "free": {"type": "object", "additionalProperties": True},
    }}
    return {"openapi": "3.0.2", "info": {"title": "rich", "version": "1"}, "paths": {
        "/things": {"post": {"operationId": "createThing", "requestBody": {"required": True, "content": {"application/json": {"schema": thing}}},
                             "responses": OK},
                    "get": {"operationId": "listThings", "parameters": [
                        {"name": "id", "in": "query", "schema": {"type": "string", "format": "uuid"}},
                        {"name": "ip", "in": "query", "schema": {"type": "string", "format": "ipv4"}},
                        {"name": "short", "in": "query", "required": True, "schema": {"type": "string", "maxLength": 3}},
                        {"name": "level", "in": "query", "schema": {"type": "integer", "minimum": 2, "maximum": 9}},
                        {"name": "colors", "in": "query", "schema": {"type": "array", "items": {"enum": ["r", "g", "b"]}}},
                        {"name": "X-Code", "in": "header", "schema": {"type": "string", "pattern": "^[A-Z]+$", "minLength": 2, "maxLength": 5}},
                        {"name": "size", "in": "query", "schema": {"type": "integer", "default": 3}},
                    ], "responses": OK}},
        "/broken": {"get": {"operationId": "broken", "parameters": [{"name": "q", "in": "query", "schema": {"$ref": "#/components/schemas/Missing"}}],
                            "responses": OK}},
    }}


def fam_swagger() -> dict:
    """Open API 2.0: the other dialect of the same generation code (formData, body parameter, collectionFormat, x-nullable)."""
    return {"swagger": "2.0", "info": {"title": "swagger", "version": "1"}, "basePath": "/", "consumes": ["application/json"], "paths": {
        "/items/{id}": {"get": {"operationId": "getItem2", "parameters": [
            {"name": "id", "in": "path", "required": True, "type": "integer", "minimum": 1},
            {"name": "n", "in": "query", "required": True, "type": "integer", "minimum": 1, "multipleOf": 2},
            {"name": "tags", "in": "query", "type": "array", "items": {"type": "string", "enum": ["a", "b", "c"]}, "collectionFormat": "csv"},
            {"name": "X-Tag", "in": "header", "type": "string", "pattern": "^[a-z]{1,5}$"},
        ], "responses": OK}},
        "/items": {"post": {"operationId": "createItem2", "parameters": [
            {"name": "body", "in": "body", "required": True, "schema": {"type": "object", "required": ["name"], "properties": {
                "name": {"type": "string", "minLength": 1}, "price": {"type": "number", "minimum": 0}, "note": {"type": "string", "x-nullable": True}}}},
        ], "responses": OK}},
        "/search": {"post": {"operationId": "search2", "consumes": ["application/x-www-form-urlencoded"], "parameters": [
            {"name": "q", "in": "formData", "required": True, "type": "string", "minLength": 2, "maxLength": 5},
            {"name": "lim", "in": "formData", "type": "integer", "maximum": 10},
        ], "responses": OK}},
    }}


def fam_many(n: int = 32) -> dict:
    """Many small operations: with several workers there is always another operation being prepared while one is started."""
    paths = {}
    for i in range(n):
        params = [{"name": "n", "in": "query", "required": True, "schema": {"type": "integer"}}]
        if i % 3 == 1:
            params.append({"name": "flag", "in": "query", "required": True, "schema": {"type": "boolean"}})
        if i % 3 == 2:
            params.append({"name": "s%d" % i, "in": "query", "required": True, "schema": {"type": "string", "maxLength": 6}})
        paths["/m%d" % i] = {"get": {"operationId": "m%d" % i, "parameters": params, "responses": OK}}
    return {"openapi": "3.0.2", "info": {"title": "many", "version": "1"}, "paths": paths}


def _twin_of(schema) -> dict:
    """Another schema for the same slot: numbers become short lowercase words, everything else becomes a bounded integer."""
    if isinstance(schema, dict) and schema.get("type") in ("integer", "number"):
        return {"type": "string", "pattern": "^[a-z]{3,8}$"}
    return {"type": "integer", "minimum": 1, "maximum": 100}


TWIN_BODY = {"type": "object", "required": ["zz"], "additionalProperties": False,
             "properties": {"zz": {"type": "integer", "minimum": 1, "maximum": 100}, "yy": {"type": "string", "pattern": "^[a-z]{3,8}$"}}}


def twin(raw: dict) -> dict:
    """The "twin" of a schema (spec/ReproHistory.tla: same label, other version): the same paths, methods, operation ids, parameter names
    and locations, responses and links - hence the same operation labels - but EVERY parameter schema (path, query, header, cookie, formData)
    and every payload schema is a different one."""
    doc = copy.deepcopy(raw)
    swagger = "swagger" in doc

    def params(container: dict) -> None:
        for i, prm in enumerate(container.get("parameters", [])):
            if swagger and prm.get("in") == "body":
                prm["schema"] = copy.deepcopy(TWIN_BODY)
            elif swagger:
                new = {k: prm[k] for k in ("name", "in", "required") if k in prm}
                new.update(_twin_of(prm))
                container["parameters"][i] = new
            else:
                prm["schema"] = _twin_of(prm.get("schema"))

    for item in doc["paths"].values():
        params(item)
        for method, op in item.items():
            if method == "parameters" or not isinstance(op, dict):
                continue
            params(op)
            for media in op.get("requestBody", {}).get("content", {}).values():
                media["schema"] = copy.deepcopy(TWIN_BODY)
    doc["info"]["title"] += "-twin"
    return doc


FAMILY = {"many": fam_many, "params": fam_params, "bodies": fam_bodies, "links": fam_links, "rich": fam_rich, "swagger": fam_swagger}
TEMPLATES = ["/items/{id}", "/search", "/items", "/users/{id}", "/users", "/things", "/broken"]
_TEMPLATE_RE = [(t, re.compile("^" + re.sub(r"\{[^}]+\}", "[^/]*", t) + "$")) for t in TEMPLATES]


def behaviour(rec):
    """Deterministic and stateless: the answer is a function of (method, request target, body) only."""
    if rec.path == "/__verif__/marker":
        return json_response(200, {})
    key = zlib.crc32(rec.method.encode() + b" " + rec.target.encode("latin-1", "replace") + b" " + rec.body)
    if key % 97 == 0:          # rare: an explicit-example run (examples, coverage) stops at its first failure, and most cases should be observed
        return json_response(500, {"error": "scripted"})
    if rec.path == "/users" and rec.method == "POST":
        return json_response(201, {"id": key % 1000})
    if rec.path.startswith("/users/"):
        tail = rec.path[len("/users/"):]
        if not tail.isdigit() or int(tail) % 5 == 0:
            return json_response(404, {})
        if (rec.method == "PATCH" and int(tail) % 3 == 1) or (rec.method == "DELETE" and int(tail) % 2 == 1):
            return json_response(500, {"error": "scripted"})      # a failure the stateful phase finds quickly: its suite is re-run (seed + 1)
        if rec.method == "DELETE":
            return 204, [], b""
        return json_response(200, {"id": int(tail), "name": "x"})
    return json_response(200, {})


# --------------------------------------------------------------------------------------------------------------------
# configurations
# --------------------------------------------------------------------------------------------------------------------
METHODS = ["delete", "put", "patch", "trace", "options", "post"]   # user-supplied `unexpected_methods` (a set of >= 2 methods)
QUICK = [  # (schema, phases, modes[, extras: fixed seed / unexpected_methods])
    ("params", ["coverage"], ["positive", "negative"], {"unexpected_methods": METHODS}),
    ("params", ["fuzzing"], ["positive"], {"seed": 0}),
    ("params", ["examples", "coverage", "fuzzing"], ["negative"]),
    ("bodies", ["examples"], ["positive"]),
    ("bodies", ["coverage"], ["positive", "negative"], {"unexpected_methods": METHODS[1:], "seed": 0}),
    ("bodies", ["fuzzing"], ["positive", "negative"]),
    ("links", ["stateful"], ["positive"], {"seed": 0}),                               # seed 0 is a seed like any other
    ("links", ["fuzzing", "stateful"], ["positive", "negative"], {"seed": -1}),       # the suite re-run after a failure is seeded with -1 + 1 = 0
    ("multi", ["fuzzing", "stateful"], ["negative"]),
    ("multi", ["examples", "coverage", "fuzzing", "stateful"], ["positive", "negative"]),
    ("rich", ["coverage"], ["positive", "negative"]),
    ("rich", ["examples", "fuzzing"], ["positive", "negative"], {"unique_inputs": True}),
    ("swagger", ["coverage", "fuzzing"], ["positive", "negative"], {"continue_on_failure": True}),
    ("links", ["stateful"], ["positive", "negative"], {"unique_inputs": True, "max_failures": 2}),
    # derandomised mode (`--generation-deterministic`, no seed): the stream of an operation comes from the digest of its own test
    ("many", ["fuzzing"], ["positive"], {"deterministic": True, "workers_n": 4}),
    ("many", ["fuzzing"], ["positive"], {"deterministic": True, "workers_n": 4, "front": "cli"}),
    ("params", ["coverage", "fuzzing"], ["positive", "negative"], {"deterministic": True}),
    ("params", ["coverage"], ["positive", "negative"], {"front": "cli"}),         # the CLI front door: `schemathesis run --seed N ...`
    ("bodies", ["fuzzing"], ["negative"], {"front": "cli", "seed": 0}),
]


def histories_model() -> dict:
    """spec/ReproHistory.tla: a content-keyed process-wide memo satisfies HistoryFree, a label-keyed one is refuted (by the history
    <<twin, self>>); the reachable histories of the content-keyed model are the family of process histories the driver concretises."""
    by_content = tlc.require_ok(tlc.run_tlc("ReproHistory", "ReproHistory_content.cfg", workers=1, timeout=300), "ReproHistory content keys")
    by_label = tlc.require_ok(tlc.run_tlc("ReproHistory", "ReproHistory_label.cfg", workers=1, timeout=300), "ReproHistory label keys")
    if by_content.violated or "HistoryFree" not in by_label.violated:
        raise tlc.TLCFailure("ReproHistory: expected HistoryFree to hold for content keys and to be refuted for label keys: %s / %s" % (
            by_content.violated, by_label.violated))
    family = []
    for p in by_content.prints:
        if isinstance(p, list) and len(p) == 2 and p[0] == "CASE":
            view = json.loads(p[1]) if isinstance(p[1], str) else p[1]
            if view["expect"] != "as-fresh":
                raise tlc.TLCFailure("ReproHistory: unexpected oracle value %r" % (view,))
            if view["hist"] not in family:
                family.append(view["hist"])
    family.sort(key=lambda h: (len(h), h))
    if not any("twin" in h for h in family) or any(h[-1] != "self" for h in family):
        raise tlc.TLCFailure("ReproHistory: the exported family has no history with a twin / a malformed history: %s" % family)
    steps = [l.split("<", 1)[1].split(" line", 1)[0] for l in by_label.counterexample if l.startswith("State") and "<" in l and "Initial" not in l]
    return {"states_content_keys": by_content.distinct, "states_label_keys": by_label.distinct, "family": family, "refuting_history": steps}


def configurations(ctx: Ctx, histories: list | None = None) -> list[dict]:
    """`histories`: the process histories (ReproHistory.tla) that contain a twin; each becomes one more child process of a configuration."""
    histories = [h for h in (histories or []) if "twin" in h]
    rng = random.Random(ctx.seed)
    out = []
    if ctx.quick:
        base = QUICK
    else:
        subsets = [["examples"], ["coverage"], ["fuzzing"], ["stateful"], ["examples", "coverage"], ["coverage", "fuzzing"], ["fuzzing", "stateful"],
                   ["examples", "fuzzing"], ["examples", "coverage", "fuzzing"], ["examples", "coverage", "fuzzing", "stateful"]]
        modes = [["positive"], ["negative"], ["positive", "negative"]]
        allc = [(s, p, m) for s in ("params", "bodies", "links", "multi", "rich", "swagger") for p in subsets for m in modes
                if "stateful" not in p or s in ("links", "multi")]
        rng.shuffle(allc)
        quick3 = [tuple(c[:3]) for c in QUICK]
        base = list(QUICK) + [c for c in allc if tuple(c) not in quick3]
        base = (base + [c for c in allc])[:130]            # 96 distinct (schema, phases, modes) + repeats with other seeds / extras
    for i, c in enumerate(base):
        s, p, m = c[:3]
        extras = dict(c[3]) if len(c) > 3 else {}
        seed = rng.randrange(1, 2 ** 31 - 1)
        h1, h2 = rng.randrange(1, 4000), rng.randrange(4001, 8000)
        extra_rnd = rng.randrange(1000)
        if not ctx.quick and i >= len(QUICK):
            # "for all seeds": 0 and -1 (whose per-suite increment reaches 0) are seeds too; user-supplied method sets in negative coverage
            if i % 8 == 0:
                extras["seed"] = 0
            elif i % 8 == 4:
                extras["seed"] = -1
            if "coverage" in p and "negative" in m and i % 3 == 0:
                k = 2 + i % 5
                extras["unexpected_methods"] = METHODS[i % 2:][:k]
            if i % 7 == 1:
                extras["unique_inputs"] = True
            if i % 7 == 3:
                extras["continue_on_failure"] = True
            if i % 11 == 5:
                extras["max_failures"] = 1 + i % 2
            if i % 9 == 2 and len(p) == 1:
                extras["front"] = "cli"
            if i % 10 == 6 and "stateful" not in p:
                extras["deterministic"] = True
                extras.pop("seed", None)
        seed = extras.get("seed", seed)
        if extras.get("deterministic"):
            seed = None                      # derandomised: no seed at all, the configuration alone determines the data
        out.append({"id": i, "schema": s, "phases": p, "modes": m, "seed": seed, "seed2": abs(seed or 0) + 1 + extra_rnd,
                    "h1": h1, "h2": h2, "max_examples": 5 if ctx.quick else 6, "steps": 4 if ctx.quick else 5,
                    "diff": (not ctx.quick) or i % 2 == 0, "unexpected_methods": extras.get("unexpected_methods"),
                    "unique_inputs": bool(extras.get("unique_inputs")), "continue_on_failure": bool(extras.get("continue_on_failure")),
                    "max_failures": extras.get("max_failures"), "front": extras.get("front", "engine"),
                    "deterministic": bool(extras.get("deterministic")), "workers_n": extras.get("workers_n", 3),
                    # budget: every second configuration (in the quick tier exactly those that have no different-seed run D)
                    "histories": histories if i % 2 == 1 else []})
    return out


# --------------------------------------------------------------------------------------------------------------------
# running one configuration
# --------------------------------------------------------------------------------------------------------------------
def child_env(hashseed: int) -> dict:
    """Explicit environment of a child: nothing of the check's own PYTHONHASHSEED leaks into the runs."""
    pp = [common.ROOT] + [p for p in os.environ.get("PYTHONPATH", "").split(os.pathsep) if p]
    env = {"PATH": os.environ.get("PATH", "/usr/bin:/bin"), "HOME": os.environ.get("HOME", "/tmp"), "PYTHONHASHSEED": str(hashseed),
           "PYTHONPATH": os.pathsep.join(pp), "SCHEMATHESIS_VERIF": "1", "PYTHONDONTWRITEBYTECODE": "1", "LANG": "C.UTF-8"}
    if os.environ.get("COVERAGE_RCFILE"):          # tools/cov_audit.sh: measure the children too (they do all the work of this check)
        env["COVERAGE_RCFILE"] = env["COVERAGE_PROCESS_START"] = os.environ["COVERAGE_RCFILE"]
    return env


def run_child(cfg: dict, workdir: str, name: str, hashseed: int, runs: list[dict]) -> dict:
    """One subprocess with its own server. Returns {tag: {"phases": {phase: [Recorded]}, "failures": [...]}}."""
    os.makedirs(workdir, exist_ok=True)
    if cfg["schema"] == "multi":
        schema = {"kind": "path", "path": os.path.join(workdir, "schema", "root.json")}   # one location for all runs of a configuration
    else:
        schema = {"kind": "dict", "raw": FAMILY[cfg["schema"]]()}
        if cfg.get("front") == "cli":
            path = os.path.join(workdir, "schema.json")          # the CLI loads a file
            if not os.path.exists(path):
                with open(path + ".%s.tmp" % name, "w") as fd:
                    json.dump(schema["raw"], fd)
                os.replace(path + ".%s.tmp" % name, path)
            schema = {"kind": "path", "path": path}
    if any(r.get("schema") == "twin" for r in runs):
        raw = twin(fam_multi_flat() if cfg["schema"] == "multi" else FAMILY[cfg["schema"]]())
        source = {"kind": "dict", "raw": raw}
        if cfg.get("front") == "cli":
            path = os.path.join(workdir, "twin-%s.json" % name)
            with open(path, "w") as fd:
                json.dump(raw, fd)
            source = {"kind": "path", "path": path}
        runs = [dict(r, schema=source) if r.get("schema") == "twin" else r for r in runs]
    with LoopbackServer(behaviour) as srv:
        job = os.path.join(workdir, "job-%s.json" % name)
        with open(job, "w") as fd:
            json.dump({"schema": schema, "base_url": srv.base_url, "runs": runs}, fd)
        cwd = os.path.join(workdir, "cwd-" + name)      # own (empty) Hypothesis storage directory: concurrent processes race on .hypothesis/constants
        os.makedirs(cwd, exist_ok=True)
        proc = subprocess.run([sys.executable, "-m", "harness.c13_child", job], cwd=cwd, env=child_env(hashseed),
                              stdout=subprocess.PIPE, stderr=subprocess.PIPE, timeout=1500)
        if proc.returncode != 0:
            raise RuntimeError("child %s of configuration %s failed: %s" % (name, cfg["id"], proc.stderr.decode()[-1500:]))
        result = json.loads(proc.stdout.decode())
        log = srv.snapshot()
    out: dict = {}
    orphans: list = []
    tag, phase = None, None
    for r in log:
        if r.path == "/__verif__/marker":
            m = json.loads(r.body)
            if m["event"] == "run-start":
                tag, phase = m["tag"], None
                out[tag] = {"phases": {}, "outside": 0, "failures": []}
            elif m["event"] == "run-end":
                tag = None
            elif m["event"] == "phase-start":
                phase = PH.get(m["phase"], m["phase"])
                out[tag]["phases"].setdefault(phase, [])
            elif m["event"] == "phase-end":
                phase = None
            continue
        if tag is None or phase is None:
            if tag is not None:
                out[tag]["outside"] += 1
            else:
                orphans.append((r.method, r.target, r.status))
            continue
        out[tag]["phases"][phase].append(r)
    for r in result["runs"]:
        out[r["tag"]]["failures"] = r["failures"]
        out[r["tag"]]["output_tail"] = r.get("output_tail", "")
        out[r["tag"]]["orphans"] = orphans        # requests received outside every run of this child (after a run was reported finished)
    return out


def operation_of(r) -> str:
    if re.match(r"^/m\d+$", r.path):
        return "%s %s" % (r.method, r.path)
    for t, rx in _TEMPLATE_RE:
        if rx.match(r.path):
            return "%s %s" % (r.method, t)
    return "%s <other>" % r.method


class Digests:
    """Small integers by first occurrence; equal integer <=> equal content (per configuration)."""

    def __init__(self):
        self.tables = {k: {} for k in ("op", "m", "u", "h", "b", "f")}

    def num(self, table: str, value) -> int:
        t = self.tables[table]
        if value not in t:
            t[value] = len(t) + 1
        return t[value]

    def line(self, r) -> dict:
        headers = tuple(sorted((k.lower(), v) for k, v in r.headers if k.lower() not in SKIP_HEADERS))
        return {"op": self.num("op", operation_of(r)), "m": self.num("m", r.method), "u": self.num("u", r.target),
                "h": self.num("h", headers), "b": self.num("b", r.body)}

    def name(self, table: str, n: int):
        for k, v in self.tables[table].items():
            if v == n:
                return k
        return None


def run_config(args) -> dict:
    cfg, workdir = args
    wd = os.path.join(workdir, "cfg-%d" % cfg["id"])
    one = {"seed": cfg["seed"], "workers": 1, "phases": cfg["phases"], "modes": cfg["modes"], "max_examples": cfg["max_examples"], "steps": cfg["steps"],
           "unexpected_methods": cfg.get("unexpected_methods"), "unique_inputs": cfg.get("unique_inputs", False),
           "continue_on_failure": cfg.get("continue_on_failure", False), "max_failures": cfg.get("max_failures"), "front": cfg.get("front", "engine"),
           "deterministic": cfg.get("deterministic", False)}
    plan = [("A", cfg["h1"], [dict(one, tag="A")]), ("B", cfg["h2"], [dict(one, tag="B")]),
            ("C", cfg["h1"], [dict(one, tag="A1"), dict(one, tag="A2")]),
            # a failure limit stops a multi-worker run at a scheduling-dependent moment: the bag clause speaks about complete runs
            ("E", cfg["h1"], ([dict(one, tag="W3", workers=cfg.get("workers_n", 3))] if not cfg.get("max_failures") else [])
             + ([dict(one, tag="D", seed=cfg["seed2"])] if cfg.get("diff", True) and not cfg.get("deterministic") else []))]
    for k, h in enumerate(cfg.get("histories") or []):
        # a process history with a twin: tested one after another in ONE process, the last one is the schema itself (tag Hk)
        tags = ["H%d.%d" % (k, j) for j in range(len(h) - 1)] + ["H%d" % k]
        plan.append(("H%d" % k, cfg["h1"], [dict(one, tag=t, **({"schema": "twin"} if kind == "twin" else {})) for t, kind in zip(tags, h)]))
    plan = [p for p in plan if p[2]]
    plan = [p for p in plan if p[0] in cfg.get("only_children", ["A", "B", "C", "E"]) or p[0].startswith("H")]
    t0 = time.time()
    if cfg["schema"] == "multi":
        fam_multi(os.path.join(wd, "schema"))
    with ThreadPoolExecutor(max_workers=len(plan)) as ex:
        res = list(ex.map(lambda p: run_child(cfg, wd, p[0], p[1], p[2]), plan))
    runs: dict = {}
    for r in res:
        runs.update(r)
    return {"cfg": cfg, "runs": runs, "wall": time.time() - t0}


PAIRS = [  # (tag a, tag b, same seed, workers a, workers b, how)
    ("A", "B", True, 1, 1, "fresh-processes-different-hashseed"),
    ("A", "A1", True, 1, 1, "fresh-processes-same-hashseed"),
    ("A1", "A2", True, 1, 1, "second-run-in-warm-process"),
    ("A", "W3", True, 1, 3, "workers-1-vs-3"),
    ("A", "D", False, 1, 1, "different-seed"),
]
HISTORY_HOW = "after-other-schema-in-same-process"      # ("A", "Hk"): the process of Hk tested a history with a twin before
HIST_OF = {"A2": ["self"]}                              # what the process of run b tested before run b (Repro.tla `hist`)


def build_units(results: list[dict]):
    """Project logs to digests and pair them. Returns (logs, units, meta) where meta[i] describes unit i for reporting."""
    logs, units, meta = [], [], []
    for res in results:
        cfg, runs = res["cfg"], res["runs"]
        dg = Digests()
        index: dict = {}
        hist_of = dict(HIST_OF)
        pairs = list(PAIRS)
        for k, h in enumerate(cfg.get("histories") or []):
            hist_of["H%d" % k] = list(h[:-1])
            pairs.append(("A", "H%d" % k, True, 1, 1, HISTORY_HOW))
        for a, b, same, wa, wb, how in pairs:
            if a not in runs or b not in runs:
                continue
            for ph in cfg["phases"]:
                for tag in (a, b):
                    if (tag, ph) not in index:
                        recs = runs[tag]["phases"].get(ph, [])
                        fails = [dg.num("f", f) for f in runs[tag]["failures"] if json.loads(f)[0] == {v: k for k, v in PH.items()}[ph]]
                        logs.append({"lines": [dg.line(r) for r in recs], "fails": fails})
                        index[(tag, ph)] = len(logs)
                if wb > 1:
                    wb = cfg.get("workers_n", 3)
                units.append({"a": index[(a, ph)], "b": index[(b, ph)], "ph": ph, "same": same, "wa": wa, "wb": wb, "stateless": True,
                              "limited": bool(cfg.get("max_failures")), "how": how, "hist": hist_of.get(b, [])})
                meta.append({"cfg": cfg, "a": a, "b": b, "ph": ph, "how": how, "dg": dg, "runs": runs})
    return logs, units, meta


def validate(ctx: Ctx, logs: list, units: list, tag: str = ""):
    """TLC (Repro.tla / ReproTrace): returns ({unit index: (line, why)} for rejected units, accepted count, states, generated, vacuous, seconds)."""
    f = ctx.path("repro%s.json" % tag)
    tlc.write_json(f, {"logs": logs, "units": units})
    r = tlc.require_ok(tlc.run_tlc("Repro", "Repro.cfg", workers=8, env={"OBS_FILE": f}, timeout=3000, heap="8g"), "Repro trace validation")
    accepted, stuck, vacuous = set(), {}, False
    for p in r.prints:
        if isinstance(p, list) and p:
            if p[0] == "ACCEPT":
                accepted.add(p[1] - 1)
            elif p[0] == "STUCK":
                i = p[1] - 1
                if i not in stuck or p[2] > stuck[i][0]:
                    stuck[i] = (p[2], p[3])
            elif p[0] == "VACUOUS":
                vacuous = True
    rejected = {i: stuck[i] for i in range(len(units)) if i not in accepted}
    if len(rejected) + len(accepted) != len(units) or any(i not in stuck for i in rejected):
        raise tlc.TLCFailure("Repro: %d units, %d accepted, %d stuck - inconsistent" % (len(units), len(accepted), len(stuck)))
    return rejected, len(accepted), r.distinct, r.generated, vacuous, r.wall_s


def python_verdict(logs: list, u: dict) -> bool:
    """The driver's own comparison (cross-check of TLC's verdict; never used as the verdict)."""
    a, b = logs[u["a"] - 1], logs[u["b"] - 1]
    if not u["same"]:
        return True
    if u["wa"] == 1 and u["wb"] == 1:
        if u.get("limited"):
            n = min(len(a["lines"]), len(b["lines"]))
            return a["lines"][:n] == b["lines"][:n] and abs(len(a["lines"]) - len(b["lines"])) <= 1 and set(a["fails"]) == set(b["fails"])
        return a["lines"] == b["lines"] and set(a["fails"]) == set(b["fails"])
    if u["ph"] in ("examples", "coverage", "fuzzing") and u["stateless"]:
        key = lambda x: (x["op"], x["m"], x["u"], x["h"], x["b"])  # noqa: E731
        return sorted(map(key, a["lines"])) == sorted(map(key, b["lines"]))
    return True


def attribute(m: dict, rejected_hows: set[str]) -> str:
    """Entropy source, from which comparisons of the same configuration and phase were rejected."""
    how = m["how"]
    if how == "fresh-processes-different-hashseed":
        return "per-process-entropy" if "fresh-processes-same-hashseed" in rejected_hows else "string-hash-order"
    if how == "fresh-processes-same-hashseed":
        return "per-process-entropy"
    if how == "second-run-in-warm-process":
        return "process-global-state" if "fresh-processes-same-hashseed" not in rejected_hows else "per-process-entropy"
    if how == HISTORY_HOW:
        if "fresh-processes-same-hashseed" in rejected_hows:
            return "per-process-entropy"
        return "process-global-state" if "second-run-in-warm-process" in rejected_hows else "process-history"
    seq = rejected_hows - {"workers-1-vs-3"}
    if seq:     # the single-worker runs of this configuration and phase already disagree with each other: same source, not the worker count
        return attribute(dict(m, how=sorted(seq)[0]), rejected_hows)
    return "worker-count"


def describe(m: dict, logs: list, u: dict, line: int, why: str) -> tuple[str, str]:
    dg = m["dg"]
    a, b = logs[u["a"] - 1]["lines"], logs[u["b"] - 1]["lines"]
    op = "-"
    detail = ""
    if why == "bag":
        keys = sorted({x["op"] for x in a} | {x["op"] for x in b})
        op = dg.name("op", keys[line - 1]) if line <= len(keys) else "-"
        ka = [x for x in a if dg.name("op", x["op"]) == op]
        kb = [x for x in b if dg.name("op", x["op"]) == op]
        detail = "%d vs %d requests to it" % (len(ka), len(kb))
    elif why == "failures":
        fa, fb = set(logs[u["a"] - 1]["fails"]), set(logs[u["b"] - 1]["fails"])
        detail = "only in %s: %s; only in %s: %s" % (m["a"], [dg.name("f", x) for x in sorted(fa - fb)][:2], m["b"], [dg.name("f", x) for x in sorted(fb - fa)][:2])
    elif why == "length":
        longer = a if len(a) > len(b) else b
        op = dg.name("op", longer[line - 1]["op"])
        detail = "%d vs %d requests" % (len(a), len(b))
    else:
        op = dg.name("op", a[line - 1]["op"])
        table = {"operation": "op", "method": "m", "url": "u", "headers": "h", "body": "b"}[why]
        va, vb = dg.name(table, a[line - 1][table]), dg.name(table, b[line - 1][table])
        if table == "h":
            va, vb = sorted(set(va) - set(vb)), sorted(set(vb) - set(va))
        detail = "%r vs %r" % (va if not isinstance(va, bytes) else va[:120], vb if not isinstance(vb, bytes) else vb[:120])
    return op, detail[:400]


def evaluate(ctx: Ctx, out: Outcome, results: list[dict], tag: str = "") -> dict:
    stats = {"units": 0, "accepted": 0, "states": 0, "generated": 0, "tlc_s": 0.0, "lines": 0, "constrained": 0, "vacuous": False, "diff_units": 0,
             "diff_differ": 0, "history_units": 0, "history_units_traffic": 0, "twin_differs": 0}
    samples = []
    for c0 in range(0, len(results), CONFIGS_PER_TLC):
        chunk = results[c0:c0 + CONFIGS_PER_TLC]
        logs, units, meta = build_units(chunk)
        rejected, accepted, states, generated, vacuous, secs = validate(ctx, logs, units, "%s-%d" % (tag, c0))
        stats["units"] += len(units)
        stats["accepted"] += accepted
        stats["states"] += states
        stats["generated"] += generated
        stats["tlc_s"] += secs
        stats["lines"] += sum(len(l["lines"]) for l in logs)
        stats["constrained"] += sum(1 for u in units if u["same"] and (logs[u["a"] - 1]["lines"] or logs[u["b"] - 1]["lines"]))
        diff = [u for u in units if not u["same"]]
        stats["diff_units"] += len(diff)
        stats["diff_differ"] += sum(1 for u in diff if logs[u["a"] - 1]["lines"] != logs[u["b"] - 1]["lines"])
        stats["vacuous"] = stats["vacuous"] or (vacuous and len(chunk) >= 4)
        for i, u in enumerate(units):
            if u["how"] != HISTORY_HOW:
                continue
            stats["history_units"] += 1
            stats["history_units_traffic"] += bool(logs[u["a"] - 1]["lines"] or logs[u["b"] - 1]["lines"])
            # vacuity guard: the twin tested earlier in that process really is another schema (its traffic differs from the schema's own)
            wire = lambda run_: [(r.method, r.target, r.body) for r in run_["phases"].get(u["ph"], [])]  # noqa: E731
            twin_run = meta[i]["runs"].get("%s.%d" % (meta[i]["b"], u["hist"].index("twin")))
            stats["twin_differs"] += bool(twin_run is not None and wire(twin_run) != wire(meta[i]["runs"]["A"]))
        for i, u in enumerate(units):
            if python_verdict(logs, u) != (i not in rejected):
                raise tlc.TLCFailure("TLC and the driver disagree on unit %d (%s %s %s)" % (i, meta[i]["cfg"]["id"], u["ph"], u["how"]))
        for i, (line, why) in sorted(rejected.items()):
            m, u = meta[i], units[i]
            hows = {meta[j]["how"] for j in rejected if meta[j]["cfg"]["id"] == m["cfg"]["id"] and meta[j]["ph"] == m["ph"]}
            source = attribute(m, hows)
            op, detail = describe(m, logs, u, line, why)
            cfg = m["cfg"]
            out.violations.append(Violation(
                "C13:%s:%s" % (m["ph"], source),
                "%s phase, %s: runs %s and %s (%s) diverge at %s, first divergent field: %s (%s); schema=%s modes=%s seed=%d" % (
                    m["ph"], op, m["a"], m["b"], m["how"], "request #%d" % line if why != "bag" else "operation #%d" % line, why, detail,
                    cfg["schema"], "+".join(cfg["modes"]), -999 if cfg["seed"] is None else cfg["seed"]),
                {"cfg": cfg, "phase": m["ph"], "how": m["how"], "field": why, "operation": op}))
        if not samples and units:
            u = units[0]
            samples.append({"configuration": {k: v for k, v in meta[0]["cfg"].items()}, "phase": u["ph"], "comparison": u["how"],
                            "first_lines_a": logs[u["a"] - 1]["lines"][:3], "first_lines_b": logs[u["b"] - 1]["lines"][:3]})
    stats["samples"] = samples
    return stats


def digest_model() -> dict:
    """spec/ReproDigest.tla: per-operation digest slots satisfy StreamIsOwn, a shared slot is refuted (vacuity guard of the forced schedule)."""
    per = tlc.require_ok(tlc.run_tlc("ReproDigest", "ReproDigest_perop.cfg", workers=1, timeout=300), "ReproDigest per-operation")
    shared = tlc.require_ok(tlc.run_tlc("ReproDigest", "ReproDigest_shared.cfg", workers=1, timeout=300), "ReproDigest shared")
    if per.violated or "StreamIsOwn" not in shared.violated:
        raise tlc.TLCFailure("ReproDigest: expected StreamIsOwn to hold per operation and to be refuted for a shared slot: %s / %s" % (
            per.violated, shared.violated))
    steps = [l.split("<", 1)[1].split(" line", 1)[0] for l in shared.counterexample if l.startswith("State") and "<" in l and "Initial" not in l]
    return {"states_per_operation": per.distinct, "states_shared": shared.distinct, "refuting_schedule": steps}


def run(ctx: Ctx) -> Outcome:
    out = Outcome()
    model = digest_model()
    hmodel = histories_model()
    cfgs = configurations(ctx, hmodel["family"])
    t1 = time.time()
    with ThreadPoolExecutor(max_workers=12 if ctx.quick else 8) as ex:
        results = list(ex.map(run_config, [(c, ctx.work) for c in cfgs]))
    t_run = time.time() - t1
    st = evaluate(ctx, out, results)
    if st["vacuous"] or (st["diff_units"] and not st["diff_differ"]):
        raise tlc.TLCFailure("vacuous harness: no pair of runs with different seeds differs (%d compared)" % st["diff_units"])
    if st["history_units"] and not st["twin_differs"]:
        raise tlc.TLCFailure("vacuous harness: no twin schema sent traffic that differs from the schema's own (%d history units)" % st["history_units"])
    # seed -1: the stateful suite that is re-run after a failure is seeded with 0 - make sure that path was really taken
    rollover = sum(1 for r in results if r["cfg"]["seed"] == -1 and "stateful" in r["cfg"]["phases"]
                   and any(json.loads(f)[0] == "STATEFUL_TESTING" for f in r["runs"]["A"]["failures"]))
    if not rollover:
        raise tlc.TLCFailure("no configuration with seed -1 had a failing first stateful suite: the re-seeding with 0 was not exercised")
    requests_total = sum(len(rs) for r in results for run_ in r["runs"].values() for rs in run_["phases"].values())
    outside = sum(run_["outside"] for r in results for run_ in r["runs"].values())
    out.coverage = {
        "states": st["states"] + model["states_per_operation"] + model["states_shared"] + hmodel["states_content_keys"] + hmodel["states_label_keys"],
        "transitions": st["generated"],
        "digest_model(ReproDigest.tla)": model,
        "history_model(ReproHistory.tla)": hmodel,
        "process_histories_with_a_twin_run": sum(len(c["histories"]) for c in cfgs),
        "history_units": st["history_units"], "history_units_with_traffic": st["history_units_traffic"],
        "twin_runs_with_traffic_that_differs_from_the_schema's": st["twin_differs"],
        "configurations_derandomised_without_seed": sum(1 for c in cfgs if c.get("deterministic")),
        "traces_validated_against_impl": st["units"],
        "samples": st["samples"],
        "evaluations": requests_total,
        "distinct_nontrivial": st["constrained"],
        "rule": "%d configurations (schema of the built-in family x phase subset x generation modes x seed derived from VERIF_SEED), each run 6 times "
                "(A, B fresh subprocesses with different PYTHONHASHSEED; A1, A2 in one warm process; W3 = 3 workers; D = another seed, in half of the quick configurations) "
                "plus, in every second configuration, one process per history of ReproHistory.tla's family with a twin (twin schema first, then the schema: Hk vs A); one unit per "
                "(comparison, phase); non-trivial = constrained unit (same seed) with traffic" % len(cfgs),
        "exhaustive": False,
        "why_not_exhaustive": "the space seeds x schemas x configurations cannot be enumerated by TLC; Repro.tla is a trace specification, every "
                              "recorded pair of logs is validated against it",
        "constants": {"configurations": len(cfgs), "max_examples": cfgs[0]["max_examples"], "stateful_step_count": cfgs[0]["steps"],
                      "schemas": sorted({c["schema"] for c in cfgs}), "comparisons": [p[5] for p in PAIRS]},
        "units_accepted": st["accepted"], "units_rejected": st["units"] - st["accepted"], "requests_compared(lines)": st["lines"],
        "different_seed_units": st["diff_units"], "different_seed_units_that_differ": st["diff_differ"],
        "seeds_0_and_minus_1": {"configurations_with_seed_0": sum(1 for c in cfgs if c["seed"] == 0),
                                "configurations_with_seed_-1": sum(1 for c in cfgs if c["seed"] == -1),
                                "stateful_suite_re-run_with_seed_0_after_a_failure": rollover},
        "configurations_with_user_supplied_unexpected_methods": sum(1 for c in cfgs if c.get("unexpected_methods")),
        "configurations_by_front_door": {f: sum(1 for c in cfgs if c.get("front", "engine") == f) for f in ("engine", "cli")},
        "configurations_with(unique_inputs,continue_on_failure,max_failures)": [sum(1 for c in cfgs if c.get(k)) for k in
                                                                                 ("unique_inputs", "continue_on_failure", "max_failures")],
        "requests_outside_phases": outside, "skipped_outside_fragment": 0,
        "requests_per_phase": {ph: sum(len(run_["phases"].get(ph, [])) for r in results for run_ in r["runs"].values()) for ph in PH.values()},
        "config_wall_s": [round(r["wall"], 1) for r in results],
        "engine_runs_s": round(t_run, 1), "tlc_s": round(st["tlc_s"], 1),
    }
    out.assumptions = [
        "the server log of the scripted loopback API is what was sent; phases are cut by marker requests the child sends on PhaseStarted/PhaseFinished",
        "digest = (operation by path template, method, raw request target, all headers except X-Schemathesis-TestCaseId and Host, body); Host is the "
        "harness's own per-run server address",
        "the API script is a pure function of (method, target, body): deterministic and stateless",
        "harness.compat.enable_links() is applied in every child (Hypothesis 6.168 renamed the hook schemathesis overrides; without the shim no link is "
        "followed in the stateful phase)",
        "Hypothesis' local-constants feature is neutralised in every child (c13_child.neutralise_local_constants: no module counts as local, "
        "as for a CLI user without local hook modules): with it the data drawn for a fixed seed depends on which not-installed modules "
        "(here: the editable install of schemathesis itself and the harness) are imported at generation time, and its module scan is racy "
        "between worker threads - both observed while building this check, both outside schemathesis",
        "every child process has its own working directory, i.e. its own empty Hypothesis storage directory (processes that share one race on the "
        "`.hypothesis/constants` cache files of Hypothesis' local-constants feature - a property of Hypothesis, observed while building this check)",
        "with a failure limit (max_failures) a run is cut short when the consumer thread has counted the limit while the worker may already "
        "have started the next operation: single-worker logs of such configurations must agree on the common prefix and may differ by at "
        "most one trailing in-flight request (Repro.tla `limited`); the reported failures must be equal. Observed on /repo: that request is "
        "sent in ~half of the runs under load, its failure is never reported and its operation is counted as skipped",
        "multi-worker runs of derandomised configurations are executed under the schedule ReproDigest.tla's counterexample names: a harness-side "
        "rendezvous right after the engine's `setup_hypothesis_database_key` makes every worker finish preparing its operation before any "
        "of them starts its test (a legal interleaving; no engine state is touched; it times out when fewer workers are left)",
        "Hypothesis health checks and deadlines are off and the example database is disabled in every run (timing must not influence traffic)",
    ]
    return out


def replay(ctx: Ctx, data: dict) -> Outcome:
    out = Outcome()
    res = run_config((dict(data["cfg"]), ctx.work))
    o2 = Outcome()
    evaluate(ctx, o2, [res], "-replay")
    out.violations = [v for v in o2.violations if v.replay["phase"] == data["phase"] and v.replay["how"] == data["how"]][:3]
    return out


def selftest(ctx: Ctx) -> bool:
    """Binding: one recorded pair of logs is corrupted in one field / one failure / one bag element -> TLC must reject exactly those."""
    def ln(op, m, u, h, b):
        return {"op": op, "m": m, "u": u, "h": h, "b": b}

    base = [ln(1, 1, 1, 1, 1), ln(1, 1, 2, 1, 1), ln(2, 2, 3, 1, 2), ln(2, 2, 3, 1, 2)]
    logs = [
        {"lines": base, "fails": [1, 2]},                                                   # 1
        {"lines": list(base), "fails": [2, 1]},                                             # 2 same
        {"lines": base[:2] + [ln(2, 2, 3, 1, 3)] + base[3:], "fails": [1, 2]},              # 3 body differs at 3
        {"lines": base, "fails": [1]},                                                      # 4 failure missing
        {"lines": [base[2], base[0], base[3], base[1]], "fails": []},                       # 5 permutation (same bags)
        {"lines": [base[2], base[0], base[1], base[1]], "fails": []},                       # 6 bag of op 2 differs... op1 has 3
        {"lines": base[:3], "fails": [1, 2]},                                               # 7 shorter
        {"lines": base[:2], "fails": [1, 2]},                                               # 8 shorter by two
    ]

    def unit(a, b, same=True, wa=1, wb=1, ph="fuzzing"):
        return {"a": a, "b": b, "ph": ph, "same": same, "wa": wa, "wb": wb, "stateless": True, "limited": False, "how": "selftest", "hist": []}

    units = [unit(1, 2), unit(1, 3), unit(1, 4), unit(1, 5, wb=3), unit(1, 6, wb=3), unit(1, 7), unit(1, 3, same=False),
             unit(1, 6, wb=3, ph="stateful"), unit(1, 5),
             dict(unit(1, 7), limited=True),        # a failure limit: one trailing in-flight request may be missing - accepted
             dict(unit(1, 8), limited=True),        # ... but not two
             dict(unit(1, 3), limited=True),        # ... and never a difference inside the common prefix
             dict(unit(1, 2), hist=["twin"]),       # another schema was tested earlier in the process of run b: same clause - accepted
             dict(unit(1, 3), hist=["twin"])]       # ... and a difference after such a history is rejected like any other
    rejected, accepted, _, _, vacuous, _ = validate(ctx, logs, units, "-selftest")
    expect = {1: (3, "body"), 2: (5, "failures"), 4: (1, "bag"), 5: (4, "length"), 8: (1, "operation"), 10: (3, "length"), 11: (3, "body"), 13: (3, "body")}
    if rejected != expect or vacuous:
        print("selftest: TLC rejected", rejected, "expected", expect, "vacuous", vacuous)
    # a data set whose different-seed units are all equal must be flagged as vacuous
    _, _, _, _, vac2, _ = validate(ctx, logs, [unit(1, 2, same=False), unit(1, 2)], "-selftest2")
    return rejected == expect and not vacuous and vac2


def main(argv=None) -> int:
    return common.main("C13", run, replay, selftest, argv)
