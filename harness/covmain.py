"""Entry point used by tools/cov_audit.sh: `python -m coverage run -m harness.covmain <module> [args]` == `./check <ID> [args]`."""
import importlib
import sys

if __name__ == "__main__":
    mod = importlib.import_module("harness." + sys.argv[1])
    sys.exit(mod.main(sys.argv[2:]))
