"""C08 - every documented operation is offered with its effective inputs, or reported; all lookup routes agree; nothing
depends on access order, serialisation (JSON / YAML) or file layout.

spec/OpCache.tla enumerates (document descriptor x serialisation x layout x access history) with the expected outcome of
every operation (TLC).  Each element is concretised into real files in a temp dir, loaded through the real loader
(`schemathesis.openapi.from_path`), the history is replayed on the fresh schema (get_all_operations / schema[path][method] /
get_operation_by_id / get_operation_by_reference), every returned operation is projected to
(path, method, parameters as generation sees them, parameter containers, body alternatives, response keys, YAML-sensitive
scalars) and compared; the observations are judged by spec/OpCacheJudge.tla.
"""
from __future__ import annotations

import json
import os
import posixpath
import random
import re
import tempfile
import time

from . import common, tlc
from .common import Ctx, Outcome, Violation

TARGET = {"M": ("/m/{id}", "post", "opM"), "O": ("/m/{id}", "get", "opO"), "Z": ("/z", "post", "opZ")}
W_PATH = {"/f/~1": "/f//", "/f/~10": "/f//0"}  # what decoding "~0" before "~1" turns Z's pointer token into


def target(d: dict, t: str) -> tuple:
    """(path, method, operationId) of operation t in document d."""
    if t == "Z":
        return (d.get("zpath", "/z"), "post", "opZ")
    if t == "W":
        return (W_PATH[d["zpath"]], "post", "opW")
    return TARGET[t]
KEYS = {"K1": ("p", "query"), "K2": ("p", "header"), "K3": ("q", "query")}
# logical file -> where its entries live when everything is in one document
SINGLE_PREFIX = {"shared/params": "components/parameters", "shared/more": "components/parameters",
                 "shared/bodies": "components/requestBodies", "shared/schemas": "components/schemas",
                 "shared/sec": "components/x-sec", "items/m": "x-items/m", "items/missing": "x-items/missing"}
SINGLE_PREFIX_20 = dict(SINGLE_PREFIX, **{"shared/params": "parameters", "shared/more": "parameters", "shared/bodies": "parameters",
                                            "shared/schemas": "definitions"})
NUM_KEYS = ("1.0", "1.10", "1e3", ".5", "null", "~")  # OpCache.tla: FloatLike \cup NullLike
UNQUOTED_VALUES = {"2020-01-01"}  # date-like scalar deliberately written plain in YAML


# --------------------------------------------------------------------------------------------------
# spec -> code: concretise a descriptor into files
# --------------------------------------------------------------------------------------------------
class _Builder:
    def __init__(self, d: dict, lay: str, ext: str):
        self.d, self.lay, self.ext = d, lay, ext
        self.v2 = d.get("ver", "3.0") == "2.0"
        self.prefix = SINGLE_PREFIX_20 if self.v2 else SINGLE_PREFIX
        self.files: dict[str, dict] = {"api": {}}
        if lay == "multi":
            for f in ("shared/params", "shared/more", "shared/bodies", "shared/schemas", "shared/sec"):
                self.files[f] = {}

    def ref(self, frm: str, to: str, name: str | None) -> str:
        """Reference from logical file `frm` to entry `name` (None = the whole file) of logical file `to`."""
        if self.lay == "single":
            return "#/" + self.prefix[to] + ("/" + name if name else "")
        frag = "#/" + name if name else ""
        if frm == to:
            return frag
        rel = posixpath.relpath(to, posixpath.dirname(frm) or ".")
        return rel + "." + self.ext + frag

    def put(self, to: str, name: str, value: dict) -> None:
        if self.lay == "single":
            node = self.files["api"]
            for part in self.prefix[to].split("/"):
                node = node.setdefault(part, {})
            node[name] = value
        else:
            self.files[to][name] = value

    def param(self, frm: str, comp: str, definition: dict, depth: int) -> dict:
        if depth == 0:
            return definition
        if depth == 1:
            self.put("shared/params", comp, definition)
            return {"$ref": self.ref(frm, "shared/params", comp)}
        self.put("shared/more", comp, definition)
        self.put("shared/params", comp + "_alias", {"$ref": self.ref("shared/params", "shared/more", comp)})
        return {"$ref": self.ref(frm, "shared/params", comp + "_alias")}

    def build(self) -> dict[str, dict]:
        d = self.d
        item_file = "items/m" if (d["pathRef"] and self.lay == "multi") else "api"
        v2 = self.v2
        comp_params = "#/parameters/" if v2 else "#/components/parameters/"
        pdef = lambda n, l, r, g: ({"name": n, "in": l, "required": r, "type": "string", "maxLength": g} if v2 else
                                   {"name": n, "in": l, "required": r, "schema": {"type": "string", "maxLength": g}})
        # path-level parameters
        shared = [self.param(item_file, "P_id", pdef("id", "path", True, 3), d["pdepth"])]
        for k in ("K1", "K2"):
            if d["pl" + k]:
                shared.append(self.param(item_file, "P_" + k, pdef(*KEYS[k], d["orient"] == "pT", 1), d["pdepth"]))
        cross = d.get("cross", "none")
        for n, l, g in {"fwd": [("c", "query", 6)], "mirror": [("c", "header", 6), ("d", "query", 8)]}.get(cross, []):
            shared.append(self.param(item_file, "P_%s_%s" % (n, l), pdef(n, l, d["orient"] == "pT", g), d["pdepth"]))
        # M
        m: dict = {"operationId": "opM"}
        own = [self.param(item_file, "O_" + k, pdef(*KEYS[k], d["orient"] == "oT", 2), d["odepth"])
               for k in ("K1", "K2", "K3") if d["ol" + k]]
        for n, l, g in {"fwd": [("c", "header", 7), ("d", "query", 9)], "mirror": [("c", "query", 7)]}.get(cross, []):
            own.append(self.param(item_file, "O_%s_%s" % (n, l), pdef(n, l, d["orient"] == "oT", g), d["odepth"]))
        if d.get("mbroken"):
            # a definition in the shared file whose own nested reference dangles
            flt = ({"name": "flt", "in": "query", "type": "array", "items": {"$ref": "#/Missing"}} if v2 else
                   {"name": "flt", "in": "query", "schema": {"$ref": "#/Missing"}})
            self.put("shared/params", "Filter", flt)
            own.append({"$ref": self.ref(item_file, "shared/params", "Filter")})
            if self.lay == "multi":  # the shared file has its OWN definition under the pointer text the root uses for O and Z
                other = {"Lim": pdef("lim", "query", True, 13)}
                self.files["shared/params"].update({"parameters": other} if v2 else {"components": {"parameters": other}})
        if own:
            m["parameters"] = own
        if d["body"] == "form":
            if v2:
                m["parameters"] = own + [{"name": "f1", "in": "formData", "required": True, "type": "string", "maxLength": 6},
                                         {"name": "f2", "in": "formData", "required": False, "type": "string"}]
            else:
                m["requestBody"] = {"required": True, "content": {"application/x-www-form-urlencoded": {"schema": {
                    "maxProperties": 6, "properties": {"f1": {"type": "string", "maxLength": 6}, "f2": {"type": "string"}}, "required": ["f1"]}}}}
        elif d["body"] != "none":
            props = {"on": {"type": "string"}, "no": {"type": "string"},
                     "v": {"type": "string", "format": "date", "default": "2020-01-01"}}
            if d.get("numkeys"):  # key spelling: names a YAML 1.1 reader takes for floats / nulls, written plain as mapping keys
                props.update({k: {"type": "string"} for k in NUM_KEYS})
            if d["rec"]:
                node = {"type": "object", "maxProperties": 77,
                        "properties": dict(props, child={"$ref": self.ref("shared/schemas", "shared/schemas", "Node")})}
                self.put("shared/schemas", "Node", node)
                body_file = "shared/bodies" if d["body"] == "ref" else item_file
                if self.lay == "single":
                    body_file = "api"
                jschema: dict = {"$ref": self.ref(body_file, "shared/schemas", "Node")}
            else:
                jschema = {"type": "object", "maxProperties": 5, "properties": props}
            if v2:
                # Swagger 2.0: one body parameter, offered under every media type of `consumes`
                bparam: dict = {"name": "body", "in": "body", "schema": jschema}
                if d["body"] != "one":
                    bparam["required"] = True
                    m["consumes"] = ["application/json", "text/plain"] + (["application/xml"] if d["body"] == "ref" else [])
                if d["body"] == "ref":
                    self.put("shared/bodies", "B", bparam)
                    bparam = {"$ref": self.ref(item_file, "shared/bodies", "B")}
                m["parameters"] = own + [bparam]
            else:
                content = {"application/json": {"schema": jschema}}
                if d["body"] in ("two", "ref"):
                    content["text/plain"] = {"schema": {"type": "string", "maxLength": 7}}
                if d["body"] == "ref":
                    content["application/xml"] = {"schema": {"type": "string", "maxLength": 8}}
                    content["multipart/form-data"] = {"schema": {"maxProperties": 9, "properties": {"f": {"type": "string"}}}}
                body: dict = {"content": content}
                if d["body"] != "one":
                    body["required"] = True
                if d["body"] == "ref":
                    self.put("shared/bodies", "B", body)
                    body = {"$ref": self.ref(item_file, "shared/bodies", "B")}
                m["requestBody"] = body
        if d["sec"] == "off":
            m["security"] = []
        m["responses"] = {"200": {"description": "ok"}, "404": {"description": "nf"}, "default": {"description": "x"}}
        o = {"operationId": "opO", "responses": {"200": {"description": "ok"}}}
        if d.get("oNoId"):
            del o["operationId"]
        if d.get("mbroken"):
            o["parameters"] = [{"$ref": comp_params + "Lim"}]
        collide = d.get("collide", False)
        lim = lambda r, g: pdef("lim", "query", r, g)
        if collide:
            # the SAME pointer text in two documents (multi-file); one document cannot hold two definitions under one pointer
            own_doc = d["pathRef"] and self.lay == "multi"
            shared.append({"$ref": comp_params + ("Lim" if own_doc else "Lim_item")})
        item = {"parameters": shared, "post": m, "get": o}
        # Z
        zparams: list = [pdef("q", "query", False, 4)]
        if collide or d.get("mbroken"):
            zparams.append({"$ref": comp_params + "Lim"})
        if d.get("qcontent"):
            zparams[0] = {"name": "q", "in": "query", "required": False,
                          "content": {"application/json": {"schema": {"type": "string", "maxLength": 4}}}}
        if d["bad"] == "paramref":
            zparams = [{"$ref": self.ref("api", "shared/params", "Missing")}]
        elif d["bad"] == "hdrname":
            zparams = [pdef("X-\u041a\u043b\u044e\u0447", "header", False, 4)]  # not a token: header names are ASCII
        elif d["bad"] == "noschema":
            zparams = [{"name": "q", "in": "query", "required": False}]  # 3.x: neither `schema` nor `content`
        elif d["bad"] == "noin":
            zparams = [{k: v for k, v in pdef("q", "query", False, 4).items() if k != "in"}]
        z_item: dict = {"post": {"operationId": "opZ", "parameters": zparams, "responses": {"200": {"description": "ok"}}}}
        if d["bad"] == "itemref":
            z_item = {"$ref": self.ref("api", "items/missing", None)}
        api = self.files["api"]
        root: dict = {"swagger": "2.0"} if v2 else {"openapi": "3.1.0" if d.get("ver") == "3.1" else "3.0.2"}
        root["info"] = {"title": "t", "version": "1"}
        zpath = d.get("zpath", "/z")
        if d["pathRef"]:
            if self.lay == "multi":
                if collide:  # the external document: the path item plus ITS OWN components under the same pointer text
                    own_lim = {"Lim": lim(d["orient"] == "pT", 13)}
                    self.files["items/m"] = {"item": item, **({"parameters": own_lim} if v2 else {"components": {"parameters": own_lim}})}
                else:
                    self.files["items/m"] = item
            else:
                api.setdefault("x-items", {})["m"] = item
            paths = {"/m/{id}": {"$ref": self.ref("api", "items/m", "item" if collide and self.lay == "multi" else None)}, zpath: z_item}
        else:
            paths = {"/m/{id}": item, zpath: z_item}
        if zpath in W_PATH:
            paths[W_PATH[zpath]] = {"post": {"operationId": "opW", "parameters": [pdef("w", "query", False, 11)],
                                             "responses": {"200": {"description": "ok"}}}}
        if collide or d.get("mbroken"):
            comp = api.setdefault("parameters", {}) if v2 else api.setdefault("components", {}).setdefault("parameters", {})
            comp["Lim"] = lim(False, 12)
            if collide and not (d["pathRef"] and self.lay == "multi"):
                comp["Lim_item"] = lim(d["orient"] == "pT", 13)
        root["paths"] = paths
        if d["sec"] != "none":
            scheme = {"qry": {"type": "apiKey", "name": "k", "in": "query"}, "clash": {"type": "apiKey", "name": "p", "in": "query"},
                      "basic": {"type": "basic"} if v2 else {"type": "http", "scheme": "basic"}}.get(
                d["sec"], {"type": "apiKey", "name": "X-Key", "in": "header"})
            if d["sec"] == "ref":
                self.put("shared/sec", "k", scheme)
                scheme = {"$ref": self.ref("api", "shared/sec", "k")}
            if v2:
                api["securityDefinitions"] = {"k": scheme}
            elif d["sec"] == "refall":
                self.put("shared/sec", "all", {"k": scheme})
                api.setdefault("components", {})["securitySchemes"] = {"$ref": self.ref("api", "shared/sec", "all")}
            else:
                api.setdefault("components", {}).setdefault("securitySchemes", {})["k"] = scheme
            root["security"] = [{"k": []}]
        for k, v in api.items():  # keep a conventional key order: openapi, info, paths, security, components, x-items
            if k not in root:
                root[k] = v
        self.files["api"] = root
        return self.files


_PLAIN = re.compile(r"^[A-Za-z0-9_/.\-{}$~*+][A-Za-z0-9_/.\-{}$~*+ ]*$")
_NONSTR = re.compile(r"^(?:[-+]?[0-9][0-9_,]*|[-+]?[0-9.][0-9_.eE+\-]*|~|null|Null|NULL|true|True|TRUE|false|False|FALSE|"
                     r"y|Y|yes|Yes|YES|n|N|no|No|NO|on|On|ON|off|Off|OFF|\d{4}-\d\d?-\d\d?.*|[-+]?\.(?:inf|Inf|INF)|\.(?:nan|NaN|NAN)|"
                     r"0x[0-9a-fA-F_]+|0o?[0-7_]+|[-+]?[0-9][0-9_]*(?::[0-5]?[0-9])+.*)$")


def _scalar(v, is_key: bool) -> str:
    if isinstance(v, bool):
        return "true" if v else "false"
    if isinstance(v, int):
        return str(v)
    assert isinstance(v, str)
    if not _PLAIN.match(v) or v[0] in "{*":
        return json.dumps(v)
    if is_key or v in UNQUOTED_VALUES:
        return v  # the designated ambiguity: 200 / on / no / 2020-01-01 are written plain
    if _NONSTR.match(v):
        return "'" + v + "'"
    return v


def to_yaml(obj, indent: int = 0) -> str:
    """Block-style YAML writer; mapping keys are always plain (so `200:`, `on:`, `no:` appear unquoted)."""
    pad = "  " * indent
    out = []
    if isinstance(obj, dict):
        if not obj:
            return pad + "{}\n"
        for k, v in obj.items():
            ks = _scalar(k, True)
            if isinstance(v, (dict, list)) and v:
                out.append("%s%s:\n%s" % (pad, ks, to_yaml(v, indent + 1)))
            elif isinstance(v, dict):
                out.append("%s%s: {}\n" % (pad, ks))
            elif isinstance(v, list):
                out.append("%s%s: []\n" % (pad, ks))
            else:
                out.append("%s%s: %s\n" % (pad, ks, _scalar(v, False)))
        return "".join(out)
    if isinstance(obj, list):
        for v in obj:
            if isinstance(v, (dict, list)) and v:
                body = to_yaml(v, indent + 1)
                out.append(pad + "- " + body[len(pad) + 2:])
            elif isinstance(v, dict):
                out.append(pad + "- {}\n")
            elif isinstance(v, list):
                out.append(pad + "- []\n")
            else:
                out.append("%s- %s\n" % (pad, _scalar(v, False)))
        return "".join(out)
    return pad + _scalar(obj, False) + "\n"


def doc_key(d: dict) -> str:
    return "-".join("%s%s" % (k, int(v) if isinstance(v, bool) else v) for k, v in sorted(d.items()))


_dirs: dict[tuple, str] = {}
_root: list[str] = []


def ensure_files(d: dict, ser: str, lay: str, base: str | None = None) -> str:
    """Write the files of (d, ser, lay) once per process; returns the main file's path."""
    key = (doc_key(d), ser, lay)
    if key in _dirs:
        return _dirs[key]
    if not _root:
        _root.append(base or tempfile.mkdtemp(prefix="verif-c08-docs-", dir=os.environ.get("VERIF_C08_DIR") or None))
    ext = "json" if ser == "json" else "yaml"
    top = os.path.join(_root[0], "%d" % os.getpid(), "%s.%s.%s" % (re.sub(r"[^A-Za-z0-9=.-]", "_", key[0].replace("~", "T")), ser, lay))
    files = _Builder(d, lay, ext).build()
    for name, content in files.items():
        path = os.path.join(top, name + "." + ext)
        os.makedirs(os.path.dirname(path), exist_ok=True)
        with open(path, "w") as fd:
            fd.write(json.dumps(content, indent=1) if ser == "json" else to_yaml(content))
    _dirs[key] = os.path.join(top, "api." + ext)
    return _dirs[key]


# --------------------------------------------------------------------------------------------------
# running the real code and projecting
# --------------------------------------------------------------------------------------------------
def _tag(schema) -> int:
    if not isinstance(schema, dict):
        return -1
    for k in ("maxLength", "maxProperties"):
        if isinstance(schema.get(k), int):
            return schema[k]
    f1 = (schema.get("properties") or {}).get("f1")  # the form payload: identified by its first field
    if isinstance(f1, dict) and isinstance(f1.get("maxLength"), int):
        return f1["maxLength"]
    if schema.get("format") == "_basic_auth":
        return 90
    return 0


def _ty(v) -> list:
    return [type(v).__name__, str(v)]


_EMPTY = {"params": [], "plist": [], "bodies": [], "resp": [], "props": [], "date": ["", ""], "ref": ["", ""]}


def project(op) -> dict:
    from schemathesis.specs.openapi.parameters import parameters_to_json_schema

    params, plist = [], []
    for loc, cont in (("path", op.path_parameters), ("query", op.query), ("header", op.headers), ("cookie", op.cookies)):
        s = parameters_to_json_schema(op, cont)  # what data generation is built from
        for n, v in s["properties"].items():
            params.append({"name": str(n), "loc": loc, "req": n in s["required"], "tag": _tag(v)})
        for p in cont:  # the container itself (get_parameter, serializers, coverage phase walk this)
            plist.append({"name": str(p.name), "loc": loc, "req": bool(p.is_required), "tag": _tag(s["properties"].get(p.name)) if len(
                [q for q in cont if q.name == p.name]) == 1 else _tag(p.as_json_schema(op))})
    bodies, props, date = [], [], ["", ""]
    for b in op.body:
        s = b.as_json_schema(op)
        bodies.append({"media": str(b.media_type), "req": bool(b.is_required), "tag": _tag(s)})
        if b.media_type == "application/json":
            pr = s.get("properties", {})
            props = [_ty(k) for k in pr if k != "child"]
            for k, v in pr.items():
                if str(k) == "v" and isinstance(v, dict) and "default" in v:
                    date = _ty(v["default"])
    resp = [_ty(k) for k in (op.definition.raw.get("responses") or {})]
    m = re.fullmatch(r"#/paths/([^/]*)/([^/]*)", str(op.operation_reference))  # the operation's own JSON reference
    return {"ok": True, "path": str(op.path), "method": str(op.method).lower(), "params": params, "plist": plist,
            "ref": [m.group(1), m.group(2)] if m else ["?", "?"],
            "bodies": bodies, "resp": resp, "props": props, "date": date}


def _err(exc: BaseException) -> dict:
    return dict(_EMPTY, ok=False, path=str(getattr(exc, "path", None) or ""), method=str(getattr(exc, "method", None) or "").lower(),
                exc=type(exc).__name__)


def _project_safe(op) -> dict:
    try:
        return project(op)
    except Exception as exc:  # an "offered" operation whose inputs cannot even be read is not an Ok outcome
        from schemathesis.core.errors import InvalidSchema

        if isinstance(exc, InvalidSchema) and exc.path:
            return dict(_err(exc), exc="deferred:InvalidSchema")  # reported as a schema error naming the path when the inputs are built
        return dict(_err(exc), path="", exc="projection:" + type(exc).__name__)


def access(schema, a: dict, d: dict | None = None) -> list[dict]:
    from schemathesis.core.result import Ok

    k = a["k"]
    path, method, op_id = target(d or {}, a["t"])
    try:
        if k == "iter":
            out = []
            for r in schema.get_all_operations():
                out.append(_project_safe(r.ok()) if isinstance(r, Ok) else _err(r.err()))
            return out
        if k == "path":
            return [_project_safe(schema[path][method.upper()])]
        if k == "id":
            return [_project_safe(schema.get_operation_by_id(op_id))]
        return [_project_safe(schema.get_operation_by_reference("#/paths/%s/%s" % (path.replace("~", "~0").replace("/", "~1"), method)))]
    except Exception as exc:
        return [_err(exc)]


def observe(d: dict, ser: str, lay: str, h: list[dict]) -> list[dict]:
    import schemathesis

    if lay == "stream":  # the other front door: an open file, no location, content sniffed (JSON first, then YAML)
        with open(ensure_files(d, ser, "single")) as fd:
            schema = schemathesis.openapi.from_file(fd)
    else:
        schema = schemathesis.openapi.from_path(ensure_files(d, ser, lay))
    if not d.get("secgen", True):
        from schemathesis.generation import GenerationConfig

        schema.configure(generation=GenerationConfig(with_security_parameters=False))
    depth0 = len(schema.resolver._scopes_stack)
    obs = []
    for a in h:
        items = access(schema, a, d)
        obs.append({"items": items, "depth": len(schema.resolver._scopes_stack) - depth0})
    return obs


def _work(case: tuple) -> list[dict]:
    d, ser, lay, h = case
    return observe(d, ser, lay, h)


# --------------------------------------------------------------------------------------------------
# comparison (python side; TLC re-judges) and signatures
# --------------------------------------------------------------------------------------------------
def _pset(lst: list[dict]) -> set:
    return {(p["name"], p["loc"], p["req"], p["tag"]) for p in lst}


def _match(it: dict, e: dict, d: dict, t: str, via_iter: bool) -> list[str]:
    """Reasons why item `it` is not the expected outcome `e` of target t (empty = matches)."""
    if not e["ok"]:
        if it["ok"]:
            return ["outcome:error-not-reported"]
        if via_iter and it["path"] != e["path"]:
            return ["outcome:error-without-path"]
        return []
    if not it["ok"]:
        return ["outcome:spurious-error:" + it.get("exc", "?")]
    if it["path"] != e["path"] or it["method"] != e["method"]:
        return ["outcome:wrong-operation"]  # every other difference is a consequence
    why = []
    if it["ref"] != [e["esc"], e["method"]]:
        why.append("outcome:own-reference-differs")
    exp = _pset(e["params"])
    free = {(k["name"], k["loc"]) for k in e.get("free", [])}
    views = {}
    for view in ("params", "plist"):
        kept = [p for p in it[view] if (p["name"], p["loc"]) not in free]
        if any(sum(1 for p in it[view] if (p["name"], p["loc"]) == k) != 1 for k in free):
            why.append("param:security-clash:not-exactly-one")
        views[view] = kept
    gen = _param_diff(views["params"], exp, d, t, "params")
    lst = _param_diff(views["plist"], exp, d, t, "plist")
    if any(r.startswith("param-merge:same-name-same-location") for r in gen):
        # one defect, one reason: the container symptom of the same key is not reported separately
        lst = [r for r in lst if not r.startswith("param-merge:same-name-same-location")]
    why.extend(gen + lst)
    eb = {(b["media"], b["req"], b["tag"]) for b in e["bodies"]}
    gb = {(b["media"], b["req"], b["tag"]) for b in it["bodies"]}
    if gb != eb or len(it["bodies"]) != len(gb):
        why.append("body-alternatives")
    for field, expected in (("resp", set(e["resp"])), ("props", set(e["props"]))):
        got = it[field]
        if any(x[0] != "str" for x in got):
            why.append("key-not-string:" + field)
        elif {x[1] for x in got} != expected or len(got) != len(expected):
            why.append("keys-differ:" + field)
    if e["date"] and it["date"] != ["str", e["date"]]:
        why.append("scalar-not-string:" + it["date"][0])
    return why


_SEC_NAMES = ("X-Key", "k", "Authorization")


def _plain_class(d: dict, t: str, name: str) -> str:
    """A parameter of the `cross` shape shares its name with one and its location with another parameter of the other level."""
    return "name-and-location-shared-separately" if d.get("cross", "none") != "none" and t != "Z" and name in ("c", "d") else "plain"


def _param_diff(got: list[dict], exp: set, d: dict, t: str, view: str) -> list[str]:
    gset = _pset(got)
    if gset == exp and len(got) == len(gset):
        return []
    why = []
    exp_by_key = {(n, l): (r, g) for n, l, r, g in exp}
    seen: dict = {}
    for n, l, r, g in [(p["name"], p["loc"], p["req"], p["tag"]) for p in got]:
        key = (n, l)
        both = t == "M" and any(KEYS[k] == key and d["pl" + k] and d["ol" + k] for k in ("K1", "K2"))
        cls = "same-name-same-location" if both else "security" if n in _SEC_NAMES else _plain_class(d, t, n)
        if key in seen:
            why.append("param-merge:%s:both-definitions-kept" % cls if both else "param:%s:duplicate" % cls)
            continue
        seen[key] = True
        if key not in exp_by_key:
            why.append("param:%s:unexpected" % cls)
        elif exp_by_key[key] != (r, g):
            er, eg = exp_by_key[key]
            if both and g == 1:
                why.append("param-merge:same-name-same-location:path-level-wins")
            elif g == eg and r != er:
                why.append("param-merge:same-name-same-location:required-leaks" if both else "param:%s:required-differs" % cls)
            else:
                why.append("param:%s:other-definition" % cls)
    for key in exp_by_key:
        if key not in seen:
            why.append("param:%s:missing" % ("security" if key[0] in _SEC_NAMES else _plain_class(d, t, key[0])))
    return why or ["param:differs"]


def _about(it: dict, t: str, d: dict) -> bool:
    path, method, _ = target(d, t)
    return it["path"] == path and it["method"] in (method, "")


def judge_access(d: dict, a: dict, judged: bool, exp: dict, o: dict) -> list[str]:
    """All reasons why the observation `o` of access `a` violates the property (python side)."""
    why = []
    if o["depth"] != 0:
        why.append("scope-depth")
    if not judged:
        return why
    items = o["items"]
    if a["k"] == "id" and a["t"] == "O" and d.get("oNoId"):
        return why + ([] if len(items) == 1 and not items[0]["ok"] else ["outcome:unknown-id-found"])
    if a["k"] != "iter":
        if len(items) != 1:
            return why + ["outcome:lookup-arity"]
        return why + _match(items[0], exp[a["t"]], d, a["t"], False)
    for t in sorted(exp):
        about = [it for it in items if _about(it, t, d)]
        if not about:
            why.append("outcome:dropped-operation" if exp[t]["ok"] else
                       "outcome:error-not-reported" if any(it["ok"] and it["path"] == target(d, t)[0] for it in items)
                       else "outcome:error-without-path")
        elif len(about) > 1:
            why.append("outcome:duplicate-outcome")
        else:
            why.extend(_match(about[0], exp[t], d, t, True))
    if any(not any(_about(it, t, d) for t in exp) for it in items) and "outcome:error-without-path" not in why:
        why.append("outcome:stray-outcome")
    return why


def case_failures(case: dict, obs: list[dict]) -> dict[int, list[str]]:
    exp = case["exp"]
    out = {}
    for j, (a, o) in enumerate(zip(case["h"], obs), 1):
        why = judge_access(case["d"], a, case["judged"][j - 1], exp, o)
        if why:
            out[j] = sorted(set(why))
    return out


ROUTE = {"iter": "iterate", "path": "path-method", "id": "operationId", "ref": "reference"}
BASE = {"plK1": True, "plK2": False, "olK1": True, "olK2": False, "olK3": False, "orient": "pT", "pdepth": 1, "odepth": 0,
        "pathRef": False, "body": "two", "rec": False, "cross": "none", "zpath": "/z", "collide": False, "ver": "3.0", "qcontent": False, "secgen": True, "oNoId": False, "mbroken": False, "numkeys": False, "sec": "hdr", "bad": "none"}


def _rel(a: tuple, b: tuple) -> str:
    """How the target of an earlier access `b` relates to the failing access `a`."""
    if b[0] == "iter":
        return "iterate"
    if a[0] == "iter":
        return ROUTE[b[0]]
    rel = "same" if a[1] == b[1] else "sibling" if {a[1], b[1]} <= {"M", "O"} else "other-path"
    return "%s(%s)" % (ROUTE[b[0]], rel)


# --------------------------------------------------------------------------------------------------
def _judge_record(case: dict, obs: list[dict]) -> dict:
    return {"d": case["d"], "h": case["h"], "judged": case["judged"],
            "obs": [{"depth": o["depth"], "items": [{k: v for k, v in it.items() if k != "exc"} for it in o["items"]]} for o in obs]}


def _tlc_judge(ctx: Ctx, records: list[dict], name: str = "obs.json"):
    f = ctx.path(name)
    tlc.write_json(f, records)
    res = tlc.require_ok(tlc.run_tlc("OpCacheJudge", "OpCacheJudge.cfg", env={"OBS_FILE": f}, timeout=2400), "OpCacheJudge")
    return res, {(p[1], p[2]) for p in res.prints if isinstance(p, list) and p and p[0] == "DISAGREE"}


_META: dict[int, dict] = {}  # document id -> {"d", "exp", "w"}; filled before forking


def _full(c: tuple) -> dict:
    m = _META[c[0]]
    return {"d": m["d"], "ser": c[1], "lay": c[2], "h": [{"k": k, "t": t} for k, t in c[3]], "judged": list(c[4]), "exp": m["exp"]}


def _work_fail(c: tuple) -> dict:
    """Pass 1: replay, compare, return only the failures (small)."""
    fc = _full(c)
    return case_failures(fc, observe(fc["d"], fc["ser"], fc["lay"], fc["h"]))


def _work_obs(c: tuple) -> list[dict]:
    """Pass 2: replay again and return the full observation (for the TLA+ judge)."""
    fc = _full(c)
    return observe(fc["d"], fc["ser"], fc["lay"], fc["h"])


def run(ctx: Ctx) -> Outcome:
    out = Outcome()
    rng = random.Random(ctx.seed)
    cfg = "OpCache_quick.cfg" if ctx.quick else "OpCache_thorough.cfg"
    cases: list[tuple] = []
    _META.clear()

    def on_case(tag: str, c: dict) -> None:
        if "exp" in c:  # printed once per document
            if c["id"] in _META:
                raise tlc.TLCFailure("document id %d exported twice" % c["id"])
            _META[c["id"]] = {"d": c["d"], "exp": c["exp"], "w": c["w"]}
        cases.append((c["id"], c["ser"], c["lay"], tuple((a["k"], a["t"]) for a in c["h"]), tuple(c["judged"])))

    res = tlc.require_ok(tlc.run_tlc("OpCache", cfg, workers=16, timeout=3000, on_json=on_case, want_prints=False), "OpCache enumeration")
    for inv in res.violated:
        out.violations.append(Violation("C08:spec:" + inv, "design invariant %s violated in OpCache.tla" % inv,
                                        {"kind": "spec", "invariant": inv, "trace": res.counterexample[:60]}))
    index = {c[:4]: i for i, c in enumerate(cases)}
    consts = dict(re.findall(r"CONSTANT (\w+) = (\w+)", open(os.path.join(common.SPEC, cfg)).read()))
    max_dev, diag = int(consts["MaxDev"]), consts["Diag"] == "TRUE"
    n_init = sum((2 if diag and m["w"] == max_dev else 4) + (2 if m["w"] <= 1 else 0) for m in _META.values())
    if not res.violated and (not cases or len(index) != len(cases) or len(cases) != res.distinct - n_init
                             or any(c[0] not in _META for c in cases)):
        raise tlc.TLCFailure("OpCache export incomplete: %d lines (%d distinct) for %d states, %d documents" % (
            len(cases), len(index), res.distinct, len(_META)))
    by_desc = {doc_key(m["d"]): i for i, m in _META.items()}
    t1 = time.time()
    _root.append(ctx.path("docs"))
    for m in _META.values():  # write every file once, before forking
        for ser in ("json", "yaml"):
            for lay in ("single", "multi"):
                ensure_files(m["d"], ser, lay)
    fails = common.pmap(_work_fail, cases)
    t_replay = time.time() - t1
    failing = {i: f for i, f in enumerate(fails) if f}
    nontrivial = sum(1 for c in cases if len(set(c[3])) >= 2)
    unjudged = sum(1 for c in cases for j in c[4] if not j)

    # code -> spec: the failing observations (capped) and a random sample of passing ones are re-observed and judged by TLC
    cap = 3000 if ctx.quick else 20000
    chosen = common.sample(rng, sorted(failing), cap) + common.sample(rng, [i for i in range(len(cases)) if i not in failing], 2 * cap)
    t2 = time.time()
    obs2 = common.pmap(_work_obs, [cases[i] for i in chosen])
    unstable = [i for i, o in zip(chosen, obs2) if case_failures(_full(cases[i]), o) != failing.get(i, {})]
    if unstable:
        raise tlc.TLCFailure("re-observation of %d cases gave a different verdict (non-deterministic replay), e.g. %s" % (
            len(unstable), cases[unstable[0]][:4]))
    jres, tlc_dis = _tlc_judge(ctx, [_judge_record(_full(cases[i]), o) for i, o in zip(chosen, obs2)])
    t_judge = time.time() - t2
    py_dis = {(n, j) for n, i in enumerate(chosen, 1) for j in failing.get(i, {})}
    if tlc_dis != py_dis:
        raise tlc.TLCFailure("judge (TLC) and driver disagree on %d (observation, access) pairs - machinery inconsistency: %s" % (
            len(tlc_dis ^ py_dis), sorted(tlc_dis ^ py_dis)[:5]))
    obs_of = dict(zip(chosen, obs2))

    # minimal failing inputs: a failure that persists when one deviating document feature is reset to the base value, when the
    # document is written as JSON / as one file instead, or when an access is removed from the history, is subsumed by that smaller case
    def fails_at(doc_id: int, ser: str, lay: str, h: tuple, j: int, why: str):
        i = index.get((doc_id, ser, lay, h))
        if i is None:
            return None  # not in the family
        return why in failing.get(i, {}).get(j, [])

    emitted: dict[str, int] = {}
    subsumed = 0
    for i in sorted(failing):
        doc_id, ser, lay, h, _ = cases[i]
        d = _META[doc_id]["d"]
        for j, whys in sorted(failing[i].items()):
            for why in whys:
                a = h[j - 1]
                smaller = []
                if j < len(h):
                    smaller.append((doc_id, ser, lay, h[:j], j))
                if j > 1:
                    smaller.append((doc_id, ser, lay, (a,), 1))
                    smaller.extend((doc_id, ser, lay, h[:k] + h[k + 1:], j - 1) for k in range(j - 1))
                if ser == "yaml":
                    smaller.append((doc_id, "json", lay, h, j))
                if lay in ("multi", "stream"):
                    smaller.append((doc_id, ser, "single", h, j))
                for f, v in d.items():
                    if v != BASE[f]:
                        sib = by_desc.get(doc_key(dict(d, **{f: BASE[f]})))
                        if sib is not None:
                            smaller.append((sib, ser, lay, h, j))
                if any(fails_at(*x, why) for x in smaller):
                    subsumed += 1
                    continue
                feats = ["%s=%s" % (f, v) for f, v in sorted(d.items()) if v != BASE[f]]
                if ser == "yaml":
                    feats.append("yaml")
                if lay == "multi":
                    feats.append("multi-file")
                if lay == "stream":
                    feats.append("from-file-object")
                sig = "C08:" + why
                others = [r for r in ("iter", "path", "id", "ref") if r != a[0]]
                route_matters = j > 1 or any(fails_at(doc_id, ser, lay, ((r, a[1]),), 1, why) is False for r in others)
                if route_matters:
                    sig += ":via-" + ROUTE[a[0]]
                if feats:
                    sig += ":" + ",".join(feats)
                if j > 1:
                    sig += ":after-" + "+".join(sorted({_rel(a, b) for b in h[: j - 1]}))
                emitted[sig] = emitted.get(sig, 0) + 1
                if emitted[sig] > 3:
                    continue
                fc = _full(cases[i])
                o = obs_of.get(i) or observe(fc["d"], ser, lay, fc["h"])
                out.violations.append(Violation(sig, "%s at access %d (%s %s) of history [%s] on document '%s' written as %s/%s-file: got %s" % (
                    why, j, ROUTE[a[0]], a[1], " ".join("%s:%s" % x for x in h), _doc_short(d), ser, lay,
                    _short_items(o[j - 1]["items"])), {"case": fc, "access": j, "reason": why, "signature": sig}))
    samples = []
    for i in common.sample(rng, [i for i in chosen if len(cases[i][3]) >= 2], 3):
        fc = _full(cases[i])
        samples.append({"doc": fc["d"], "ser": fc["ser"], "layout": fc["lay"], "history": ["%s:%s" % x for x in cases[i][3]],
                        "expected_M": fc["exp"]["M"], "observed_last": obs_of[i][-1]})
    out.coverage = {
        "states": res.distinct, "transitions": res.generated,
        "traces_validated_against_impl": len(chosen),
        "samples": samples,
        "evaluations": len(cases),
        "distinct_nontrivial": nontrivial,
        "documents": len(_META),
        "skipped_outside_fragment": unjudged,
        "rule": "every (document, serialisation, layout, access history) reachable in OpCache.tla under %s: documents within "
                "MaxDev feature deviations of the base document, histories over {iterate, path+method, operationId, reference} x "
                "{M, O, Z} up to MaxLen - (number of deviations); each replayed on a freshly loaded schema; "
                "non-trivial = history with at least two different accesses (the cache/scope interaction the property is about); "
                "skipped = accesses by reference into a path item behind $ref (made, not judged)" % cfg,
        "exhaustive": True,
        "constants": {"cfg": cfg},
        "failing_cases": len(failing), "failures_subsumed_by_smaller_case": subsumed, "minimal_failing_signatures": emitted,
        "tlc_enumeration_s": round(res.wall_s, 1), "replay_s": round(t_replay, 1), "reobserve_and_judge_s": round(t_judge, 1),
        "judge_states": jres.distinct,
    }
    out.assumptions = [
        "the generation-relevant view of an operation is parameters_to_json_schema(container) per location plus the containers themselves, "
        "body alternatives via as_json_schema, response keys of definition.raw",
        "a JSON reference '#/paths/<path>/<method>' into a path item that is itself a $ref is ambiguous in the standard: made but not judged",
        "lookups of a malformed operation must fail (any exception); only get_all_operations must name the path",
    ]
    return out


def _doc_short(d: dict) -> str:
    return "base" + "".join(" %s=%s" % (k, v) for k, v in sorted(d.items()) if BASE[k] != v)


def _short_items(items: list[dict]) -> str:
    out = []
    for it in items:
        if it["ok"]:
            out.append("Ok(%s %s %s)" % (it["method"], it["path"], sorted("%s/%s/%s/%s" % (p["name"], p["loc"], "R" if p["req"] else "o", p["tag"]) for p in it["params"])))
        else:
            out.append("Err(%s %s %s)" % (it.get("exc", ""), it["path"], it["method"]))
    return "; ".join(out)[:400]


def replay(ctx: Ctx, data: dict) -> Outcome:
    out = Outcome()
    if data.get("kind") == "spec":
        return out
    _root.append(ctx.path("docs"))
    c = data["case"]
    obs = observe(c["d"], c["ser"], c["lay"], c["h"])
    f = case_failures(c, obs)
    for j, whys in sorted(f.items()):
        for why in whys:
            sig = data["signature"] if (j == data.get("access") and why == data.get("reason")) else "C08:" + why
            out.violations.append(Violation(sig, "%s at access %d of %s: %s" % (
                why, j, " ".join("%s:%s" % (a["k"], a["t"]) for a in c["h"]), _short_items(obs[j - 1]["items"])), data))
    return out


def selftest(ctx: Ctx) -> bool:
    """Binding: (1) the YAML written here really is ambiguous for a standard YAML 1.1 loader; (2) a real observation is accepted by
    the TLA+ judge and each single corruption of it is rejected at the corrupted access."""
    import yaml

    _root.append(ctx.path("docs"))
    d = {"plK1": True, "plK2": False, "olK1": True, "olK2": False, "olK3": False, "orient": "pT", "pdepth": 1, "odepth": 0,
         "pathRef": False, "body": "two", "rec": False, "cross": "none", "zpath": "/z", "collide": False, "ver": "3.0", "qcontent": False, "secgen": True, "oNoId": False, "mbroken": False,
         "numkeys": False, "sec": "hdr", "bad": "paramref"}
    main = ensure_files(d, "yaml", "single")
    std = yaml.safe_load(open(main))
    post = std["paths"]["/m/{id}"]["post"]
    props = post["requestBody"]["content"]["application/json"]["schema"]["properties"]
    ok_yaml = 200 in post["responses"] and True in props and False in props and type(props["v"]["default"]).__name__ == "date"
    nk = dict(d, bad="none", numkeys=True)
    std_nk = yaml.safe_load(open(ensure_files(nk, "yaml", "single")))
    nk_props = std_nk["paths"]["/m/{id}"]["post"]["requestBody"]["content"]["application/json"]["schema"]["properties"]
    ok_yaml = ok_yaml and {1.0, 1.1, 0.5, None} <= set(nk_props) and not any(k in nk_props for k in NUM_KEYS if k != "1e3")
    # ("1e3" is a float only for the YAML 1.2-style float resolver that schemathesis' own loader installs, not for plain PyYAML)
    nk_json = json.load(open(ensure_files(nk, "json", "single")))
    ok_yaml = ok_yaml and set(NUM_KEYS) <= set(nk_json["paths"]["/m/{id}"]["post"]["requestBody"]["content"]["application/json"]["schema"]["properties"])
    files_json = json.load(open(ensure_files(d, "json", "single")))
    ok_yaml = ok_yaml and "200" in files_json["paths"]["/m/{id}"]["post"]["responses"]
    lines: list[dict] = []
    tlc.require_ok(tlc.run_tlc("OpCache", "OpCache_selftest.cfg", workers=16, timeout=600, want_prints=False,
                               on_json=lambda tag, c: lines.append(c)), "OpCache enumeration (selftest)")
    first = [c for c in lines if c.get("d") == d]
    want = [c for c in lines if first and c["id"] == first[0]["id"] and c["ser"] == "yaml" and c["lay"] == "single"
            and [(a["k"], a["t"]) for a in c["h"]] == [("id", "M"), ("iter", "M")]]
    if len(first) != 1 or len(want) != 1:
        print("selftest: the chosen case is not in the exported family")
        return False
    case = dict(want[0], d=d, exp=first[0]["exp"])
    good = observe(d, "yaml", "single", case["h"])
    import copy

    def corrupt(fn):
        o = copy.deepcopy(good)
        fn(o)
        return o

    def drop_err(o):
        o[1]["items"] = [it for it in o[1]["items"] if it["ok"]]

    def flip_tag(o):
        next(p for p in o[0]["items"][0]["params"] if p["name"] == "id")["tag"] = 1

    def int_key(o):
        next(it for it in o[1]["items"] if it["ok"] and it["method"] == "post")["resp"][0] = ["int", "200"]

    def depth(o):
        o[0]["depth"] = 1

    def unnamed(o):
        next(it for it in o[1]["items"] if not it["ok"])["path"] = ""

    variants = [good, corrupt(drop_err), corrupt(flip_tag), corrupt(int_key), corrupt(depth), corrupt(unnamed)]
    _, dis = _tlc_judge(ctx, [_judge_record(case, o) for o in variants], "selftest.json")
    py = [sorted(case_failures(case, o)) for o in variants]
    expected = {(2, 2), (3, 1), (4, 2), (5, 1), (6, 2)}
    # the unchanged tree may legitimately disagree on `good` (known defect); the corruptions must be caught where they were made
    base_dis = {(n, j) for n, j in dis if n == 1}
    shifted = {(n, j) for n, j in dis if n > 1} - {(n, j) for n in range(2, 7) for _, j in base_dis}
    ok = expected <= dis and shifted <= expected and all((n, j) in dis for n, js in enumerate(py, 1) for j in js)
    if not ok_yaml:
        print("selftest: YAML writer does not produce the ambiguous plain scalars")
    if not ok:
        print("selftest: judge verdicts", sorted(dis), "python", py)
    return ok and ok_yaml


def main(argv=None) -> int:
    return common.main("C08", run, replay, selftest, argv)
