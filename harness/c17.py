"""C17 - every example of the API document is sent, verbatim, in the examples phase.

spec/Examples.tla enumerates example-placement descriptors (operation = parameters + request bodies, each with a schema and
the examples attached at the parameter / media-type object or inside the schema - including schemas in which `anyOf` and
`oneOf` stand side by side, placements "anyOf+oneOf" / "property-anyOf+oneOf": `_walk` follows a branch step by its own
keyword, so both lists are written into the same schema object).  Each descriptor becomes a real OpenAPI
2.0 / 3.0 operation and is observed in two ways:
  (i)  fast path, every descriptor: the real `add_examples` (which calls `operation.get_strategies_from_examples()` and
       `generate_one`) on a dummy test; the attached explicit examples are the Cases the phase would send;
  (ii) wire path, a sample: the real engine with phases=[examples] against the loopback server; the SERVER LOG, decoded back
       into query / header / cookie / path / body parts, is what was sent; the event stream gives skipped / error.
All observations are judged by TLC (spec/ExamplesJudge.tla: Examples!Complaints).
"""
from __future__ import annotations

import json
import random
import re
import time
from urllib.parse import parse_qsl, unquote

from . import common, tlc
from .common import Ctx, Outcome, Violation
from .encode import cps, decode_schema, decode_value, encode_value, uncps

_st: dict = {}
CONTAINERS = (("path", "path_parameters"), ("query", "query"), ("header", "headers"), ("cookie", "cookies"))
BATCH = 24  # operations per engine run on the wire path
CONFIGURED_HEADERS = {"X-Cfg": "1"}  # cfg = "header": an unrelated header the run is configured with (-H / network.headers)


# ------------------------------------------------------------------------------------------ spec -> code
def _walk(schema: dict, at: list) -> dict:
    node = schema
    for step in at:
        if step["k"] == "prop":
            node = node["properties"][uncps(step["name"])]
        elif step["k"] == "item":
            node = node["items"]
        else:
            node = node[step["kw"]][step["i"] - 1]
    return node


_ext: dict = {"server": None, "values": []}


def _external_url(value) -> str:
    """URL on a process-local loopback server that answers with the JSON text of `value` (for `externalValue` examples)."""
    import os

    if _ext["server"] is None or _ext.get("pid") != os.getpid():
        from .server import LoopbackServer

        def behaviour(rec):
            try:
                return 200, [("Content-Type", "application/json")], json.dumps(_ext["values"][int(rec.path.rsplit("/", 1)[1])]).encode()
            except Exception:
                return 404, [("Content-Type", "text/plain")], b"no such example"

        _ext.update(server=LoopbackServer(behaviour).start(), pid=os.getpid(), values=[])
    _ext["values"].append(value)
    return "%s/ex/%d" % (_ext["server"].base_url, len(_ext["values"]) - 1)


def _attach(holder: dict, schema: dict, exs: list, shared: dict, prefix: str) -> None:
    """Write the examples of one parameter / media type into the document the way their form says."""
    comps = shared["examples"]
    for e in exs:
        vals = [decode_value(v) for v in e["vals"]]
        if e["level"] == "schema":
            node = _walk(schema, e["at"])
            if e["form"] == "example":
                node["example"] = vals[0]
            else:  # examples-list
                node["examples"] = list(vals)
        elif e["form"] in ("example", "x-example"):
            holder[e["form"]] = vals[0]
        elif e["form"] in ("examples", "x-examples"):
            holder[e["form"]] = {"e%d" % (i + 1): {"value": v} for i, v in enumerate(vals)}
        elif e["form"] == "examples-external":
            holder["examples"] = {"e%d" % (i + 1): {"externalValue": _external_url(v)} for i, v in enumerate(vals)}
        elif e["form"] == "examples-ref":
            holder["examples"] = {}
            for i, v in enumerate(vals):
                key = "%s_e%d" % (prefix, i + 1)
                comps[key] = {"value": v}
                holder["examples"]["e%d" % (i + 1)] = {"$ref": "#/components/examples/" + key}
        else:
            raise ValueError("unknown example form %r" % e["form"])


def build_operation(op: dict, idx: int, shared: dict) -> tuple[str, str, dict]:
    """-> (path, method, path item).  `op.flags` decide how the same inputs are written ($ref'd objects, path-level parameters)."""
    dialect = op["dialect"]
    is2 = dialect == "2.0"
    flags = op.get("flags") or {}
    path = "/d%d" % idx
    params = []

    def param_entry(obj: dict, key: str) -> dict:
        if flags.get("refParam") or (is2 and flags.get("refBody") and obj["in"] == "body"):
            shared["parameters"][key] = obj
            return {"$ref": ("#/parameters/" if is2 else "#/components/parameters/") + key}
        return obj

    for p in op["params"]:
        name = uncps(p["name"])
        if p["loc"] == "path":
            path += "/{%s}" % name
        schema = decode_schema(p["schema"], dialect)
        obj: dict = {"name": name, "in": p["loc"], "required": bool(p["required"])}
        if p.get("style"):
            obj["style"], obj["explode"] = p["style"], True
        _attach(obj, schema, p["ex"], shared, "d%d_%s" % (idx, name))
        if is2:
            obj.update(schema)
        elif p.get("viaContent"):
            obj["content"] = {"application/json": {"schema": schema}}
        else:
            obj["schema"] = schema
        params.append(param_entry(obj, "d%d_%s" % (idx, name)))
    responses: dict = {"200": {"description": "ok"}}
    if flags.get("resp") and not is2 and op["params"]:
        # a 2xx response example with a field named like the first parameter (and an `id`): a source of INFERRED values
        responses["200"]["content"] = {"application/json": {"example": {uncps(op["params"][0]["name"]): 999, "id": 998}}}
    definition: dict = {"responses": responses}
    if op["bodies"]:
        if is2:
            b = op["bodies"][0]
            schema = decode_schema(b["schema"], dialect)
            obj = {"name": "payload", "in": "body", "required": bool(b["required"])}
            _attach(obj, schema, b["ex"], shared, "d%d_body" % idx)
            obj["schema"] = schema
            params.append(param_entry(obj, "d%d_payload" % idx))
            definition["consumes"] = [uncps(x["mt"]) for x in op["bodies"]]
        else:
            content = {}
            for n, b in enumerate(op["bodies"]):
                schema = decode_schema(b["schema"], dialect)
                media: dict = {}
                _attach(media, schema, b["ex"], shared, "d%d_body%d" % (idx, n))
                if not b["place"].endswith("-noschema"):
                    media["schema"] = schema
                content[uncps(b["mt"])] = media
            body = {"required": any(b["required"] for b in op["bodies"]), "content": content}
            if flags.get("refBody"):
                shared["requestBodies"]["d%d_body" % idx] = body
                body = {"$ref": "#/components/requestBodies/d%d_body" % idx}
            definition["requestBody"] = body
    has_form_fields = any(p["loc"] == "formData" for p in op["params"])
    if has_form_fields:
        definition["consumes"] = ["application/x-www-form-urlencoded"]
    method = "post" if op["bodies"] or has_form_fields else "get"
    item: dict = {method: definition}
    if params:
        if flags.get("pathLevel"):
            item["parameters"] = params
        else:
            definition["parameters"] = params
    return path, method, item


def build_document(ops: list[dict], first_idx: int = 1) -> tuple[dict, list[tuple[str, str]]]:
    dialect = ops[0]["dialect"]
    shared: dict = {"examples": {}, "parameters": {}, "requestBodies": {}}
    paths: dict = {}
    where = []
    for n, op in enumerate(ops):
        path, method, item = build_operation(op, first_idx + n, shared)
        paths[path] = item
        where.append((path, method.upper()))
    if dialect == "2.0":
        doc = {"swagger": "2.0", "info": {"title": "t", "version": "1"}, "paths": paths}
        if shared["parameters"]:
            doc["parameters"] = shared["parameters"]
    else:
        doc = {"openapi": "3.1.0" if dialect == "3.1" else "3.0.2", "info": {"title": "t", "version": "1"}, "paths": paths}
        comps = {k: v for k, v in shared.items() if v}
        if comps:
            doc["components"] = comps
    return doc, where


# ------------------------------------------------------------------------------------------ observation: fast path
def _setup() -> dict:
    if not _st:
        import schemathesis
        from schemathesis.core import NOT_SET
        from schemathesis.generation import GenerationConfig
        from schemathesis.generation.hypothesis import builder

        _st.update(from_dict=schemathesis.openapi.from_dict, NOT_SET=NOT_SET, builder=builder, GenerationConfig=GenerationConfig)
    return _st


_DEEP = re.compile(r"^([^\[\]]+)\[([^\[\]]+)\]$")


def _group_deep_object(pairs: list[tuple[str, object]]) -> list[tuple[str, object]]:
    """`p[a]=1&p[c]=x` (style deepObject) is the object parameter p = {a: 1, c: x}."""
    out: list = []
    objs: dict = {}
    for name, value in pairs:
        m = _DEEP.match(name)
        if m:
            if m.group(1) not in objs:
                objs[m.group(1)] = {}
                out.append((m.group(1), objs[m.group(1)]))
            objs[m.group(1)][m.group(2)] = value
        else:
            out.append((name, value))
    return out


def _case_parts(case, not_set) -> list[dict]:
    parts = []
    for kind, attr in CONTAINERS:
        container = getattr(case, attr)
        if container:
            pairs = [(str(k), v) for k, v in dict(container).items()]
            for name, value in (_group_deep_object(pairs) if kind == "query" else pairs):
                parts.append({"kind": kind, "name": cps(name), "v": encode_value(value)})
    if case.body is not not_set and not type(case.body).__name__ == "NotSet":
        body = case.body
        if isinstance(body, bytes):  # an `externalValue` example is kept as the bytes that were fetched
            try:
                body = json.loads(body.decode("utf-8"))
            except Exception:
                pass
        parts.append({"kind": "body", "name": cps(case.media_type or ""), "v": encode_value(body)})
    return parts


def observe_fast(op: dict) -> dict:
    """The Cases `add_examples` attaches for this operation (what the examples phase will send) + skipped / error."""
    st = _setup()
    doc, where = build_document([op])
    try:
        schema = st["from_dict"](doc)
        operation = schema[where[0][0]][where[0][1]]

        def test(case):  # pragma: no cover - never called
            pass

        b = st["builder"]
        extra = {"headers": dict(CONFIGURED_HEADERS)} if op.get("cfg") == "header" else {}  # = engine's get_strategy_kwargs
        wrapped = b.add_examples(test, operation, hooks=None, auth_storage=None, generation_config=st["GenerationConfig"](), **extra)
        examples = getattr(wrapped, "hypothesis_explicit_examples", [])
        cases = [e.kwargs["case"] for e in examples]
        error = (b.UnsatisfiableExampleMark.is_set(test) or b.NonSerializableMark.get(test) is not None
                 or b.InvalidRegexMark.get(test) is not None or bool(b.InvalidHeadersExampleMark.get(test)))
        status = "error" if error else ("skipped" if not cases else "ok")
        sent = [{"parts": _case_parts(c, st["NOT_SET"])} for c in cases]
    except Exception as exc:
        status, sent = "crash:" + type(exc).__name__, []
    return {"mode": "case", "status": status, "sent": sent}


# ------------------------------------------------------------------------------------------ observation: wire path
def _wire_parts(op: dict, base: str, rec) -> list[dict]:
    parts = []
    segs = rec.path[len(base):].strip("/").split("/") if len(rec.path) > len(base) else []
    path_params = [p for p in op["params"] if p["loc"] == "path"]
    for p, seg in zip(path_params, segs):
        parts.append({"kind": "path", "name": p["name"], "v": encode_value(unquote(seg))})
    for k, v in _group_deep_object(parse_qsl(rec.query, keep_blank_values=True)):
        parts.append({"kind": "query", "name": cps(k), "v": encode_value(v)})
    for p in op["params"]:
        if p["loc"] == "header":
            v = rec.header(uncps(p["name"]))
            if v is not None:
                parts.append({"kind": "header", "name": p["name"], "v": encode_value(v)})
    cookie = rec.header("Cookie")
    if cookie:
        for item in cookie.split(";"):
            k, _, v = item.strip().partition("=")
            parts.append({"kind": "cookie", "name": cps(k), "v": encode_value(v)})
    if rec.body:
        mt = (rec.header("Content-Type") or "").split(";")[0].strip()
        try:
            if mt.lower() == "application/x-www-form-urlencoded":
                value = encode_value(dict(parse_qsl(rec.body.decode("utf-8"), keep_blank_values=True)))
            else:
                value = encode_value(json.loads(rec.body.decode("utf-8")))
        except Exception:
            value = {"t": "opaque", "why": "not JSON"}
        parts.append({"kind": "body", "name": cps(mt), "v": value})
    return parts


def observe_wire(ops: list[dict]) -> list[dict]:
    """Run the real engine (examples phase only) for a batch of operations of one dialect; one observation per operation."""
    import hypothesis
    import schemathesis
    from schemathesis.engine import from_schema
    from schemathesis.engine.config import EngineConfig, ExecutionConfig, NetworkConfig
    from schemathesis.engine.phases import PhaseName

    from .server import LoopbackServer

    network = NetworkConfig(headers=dict(CONFIGURED_HEADERS)) if ops[0].get("cfg") == "header" else NetworkConfig()

    doc, where = build_document(ops)
    status = {("%s %s" % (m, p)): "none" for p, m in where}
    try:
        with LoopbackServer() as server:
            schema = schemathesis.openapi.from_dict(doc).configure(base_url=server.base_url)
            settings = hypothesis.settings(max_examples=1, deadline=None, database=None, derandomize=True,
                                           suppress_health_check=list(hypothesis.HealthCheck))
            config = EngineConfig(execution=ExecutionConfig(phases=[PhaseName.EXAMPLES], hypothesis_settings=settings,
                                                            workers_num=1, seed=1), network=network)
            for ev in from_schema(schema, config=config).execute():
                name = type(ev).__name__
                if name == "NonFatalError" and ev.label in status:
                    status[ev.label] = "error"
                elif name == "ScenarioFinished" and ev.label in status and status[ev.label] != "error":
                    status[ev.label] = {"skip": "skipped", "error": "error"}.get(ev.status.value, "ok")
            log = list(server.log)
    except Exception as exc:
        return [{"mode": "wire", "status": "crash:" + type(exc).__name__, "sent": []} for _ in ops]
    out = []
    for n, (op, (path, method)) in enumerate(zip(ops, where), 1):
        base = "/d%d" % n
        mine = [r for r in log if r.path == base or r.path.startswith(base + "/")]
        out.append({"mode": "wire", "status": status["%s %s" % (method, path)],
                    "sent": [{"parts": _wire_parts(op, base, r)} for r in mine]})
    return out


# ------------------------------------------------------------------------------------------ mirror of the judge (without fill validity)
def all_examples(op: dict) -> list[dict]:
    out = []

    def of(kind, name, exs, place):
        for e in exs:
            for v in e["vals"]:
                out.append({"kind": kind, "name": name, "path": [s for s in e["at"] if s["k"] != "branch"], "v": v,
                            "place": place, "form": e["form"], "pool": sum(len(x["vals"]) for x in exs)})

    for p in op["params"]:
        of(p["loc"], p["name"], p["ex"], p["place"])
    for b in op["bodies"]:
        of("body", [42] if op["dialect"] == "2.0" else b["mt"], b["ex"], b["place"])
    return out


def _eq(a: dict, b: dict) -> bool:
    if a["t"] != b["t"]:
        return False
    if a["t"] == "obj":
        da, db = dict(zip(map(tuple, a["k"]), a["v"])), dict(zip(map(tuple, b["k"]), b["v"]))
        return da.keys() == db.keys() and all(_eq(da[k], db[k]) for k in da)
    if a["t"] == "arr":
        return len(a["v"]) == len(b["v"]) and all(_eq(x, y) for x, y in zip(a["v"], b["v"]))
    return a == b


def _sent_text(v: dict):
    return v["v"] if v["t"] == "str" else cps(str(v["v"])) if v["t"] == "int" else cps("true" if v["v"] else "false") if v["t"] == "bool" else None


def _at(v: dict, path: list, e: dict, kind: str, mode: str) -> bool:
    if not path:
        def leaf(a: dict, b: dict) -> bool:
            as_text = b["t"] == "str" and b["v"] == _sent_text(a)
            return as_text if mode == "wire" else (_eq(a, b) or as_text)

        if kind == "body":
            return _eq(e, v)
        if kind == "form" and e["t"] == "obj":
            return (v["t"] == "obj" and len(e["k"]) == len(v["k"]) and len({tuple(k) for k in v["k"]}) == len(v["k"])
                    and all(k in v["k"] and leaf(x, v["v"][v["k"].index(k)]) for k, x in zip(e["k"], e["v"])))
        return leaf(e, v)
    s = path[0]
    if s["k"] == "prop":
        if v["t"] != "obj" or s["name"] not in v["k"]:
            return False
        return _at(v["v"][v["k"].index(s["name"])], path[1:], e, kind, mode)
    return v["t"] == "arr" and any(_at(x, path[1:], e, kind, mode) for x in v["v"])


def _match(p: dict, kind: str, name: list) -> bool:
    return p["kind"] == kind and (name == [42] or uncps(p["name"]).lower() == uncps(name).lower())


def _bad(e: dict) -> bool:
    return e["kind"] in ("header", "cookie") and e["v"]["t"] == "str" and any(c < 32 or c == 127 or c > 255 for c in e["v"]["v"])


def _falsy(v: dict) -> bool:
    return v["t"] in ("int", "bool", "str", "arr", "obj") and not v.get("v")


KNOWN_MT = ("application/json", "text/json", "application/x-www-form-urlencoded")


def _known_mt(name: list) -> bool:
    return uncps(name).lower() in KNOWN_MT


def _unfillable(op: dict) -> bool:
    def unsat(s: dict) -> bool:
        return s.get("sk") == "schema" and "minimum" in s and "maximum" in s and s["minimum"] > s["maximum"]

    return any(p["required"] and not p["ex"] and unsat(p["schema"]) for p in op["params"]) or (
        any(b["required"] for b in op["bodies"]) and all(not _known_mt(b["mt"]) and not b["ex"] for b in op["bodies"]))


def demanded(op: dict) -> list[dict]:
    """Mirror of Examples!Demanded."""
    every = all_examples(op)
    if _unfillable(op):
        return []
    bad = [(e["kind"], e["name"]) for e in every if _bad(e)]
    if bad:
        return [e for e in every if not _bad(e) and (e["kind"], e["name"]) in bad]
    if any(not _known_mt(b["mt"]) for b in op["bodies"]):
        return [e for e in every if e["kind"] == "body" and e["name"] != [42] and _known_mt(e["name"])]
    return every


def _occurs_in(e: dict, p: dict, mode: str) -> bool:
    if e["kind"] == "formData":
        return p["kind"] == "body" and _at(p["v"], [{"k": "prop", "name": e["name"]}] + e["path"], e["v"], "form", mode)
    return (_match(p, e["kind"], e["name"])
            and _at(p["v"], e["path"], e["v"], "form" if e["kind"] == "body" and uncps(p["name"]).lower() == KNOWN_MT[2] else e["kind"], mode))


def dropped(op: dict, obs: dict) -> list[dict]:
    return [e for e in (demanded(op) if obs["status"] == "error" else all_examples(op))
            if not any(_occurs_in(e, p, obs["mode"]) for r in obs["sent"] for p in r["parts"])]


def _dropped_old(op: dict, obs: dict) -> list[dict]:
    return [e for e in (demanded(op) if obs["status"] == "error" else all_examples(op))
            if not any(_match(p, e["kind"], e["name"])
                       and _at(p["v"], e["path"], e["v"], "form" if e["kind"] == "body" and uncps(p["name"]).lower() == KNOWN_MT[2] else e["kind"], obs["mode"])
                       for r in obs["sent"] for p in r["parts"])]


def complaints_without_fill(op: dict, obs: dict, unsendable: bool) -> set[str]:
    if obs["status"] not in ("ok", "error", "skipped"):
        return {"crash"}
    if not all_examples(op):
        return ({"sent-without-examples"} if obs["sent"] else set()) | ({"not-reported-skipped"} if obs["status"] != "skipped" else set())
    if obs["status"] == "error" and not unsendable:
        return {"error-for-sendable-examples"}
    out = set()
    if dropped(op, obs):
        out.add("dropped")
    for r in obs["sent"]:
        def has(p: dict) -> bool:
            if p["loc"] == "formData":
                return any(x["kind"] == "body" and x["v"]["t"] == "obj" and p["name"] in x["v"]["k"] for x in r["parts"])
            return any(_match(x, p["loc"], p["name"]) for x in r["parts"])

        if any(p["required"] and not has(p) for p in op["params"]):
            out.add("missing-required")
        if any(b["required"] for b in op["bodies"]) and not any(x["kind"] == "body" for x in r["parts"]):
            out.add("missing-required")
    if obs["status"] == "skipped":
        out.add("skipped-with-examples")
    return out


def undecided_beside_unsendable(op: dict, obs: dict) -> int:
    """Examples of OTHER parts that were not sent next to an unsendable example (not demanded, counted)."""
    if obs["status"] != "error":
        return 0
    want = demanded(op)
    rest = [e for e in all_examples(op) if not _bad(e) and e not in want]
    probe = dict(obs, status="ok")
    missing = dropped(op, probe)
    return sum(1 for e in rest if e in missing)


def signature(op: dict, obs: dict, complaint: str, any_arith: set | None = None) -> str:
    """placement kind x combination arithmetic of the dropped example (Appendix E); other complaints: the slice.
    `any_arith`: placement keys whose example is dropped even when it is the only pool - the arithmetic is then not a feature."""
    if complaint == "dropped":
        d = dropped(op, obs)
        if d:
            e = d[0]
            pools = [sum(len(x["vals"]) for x in p["ex"]) for p in op["params"]] + [sum(len(x["vals"]) for x in b["ex"]) for b in op["bodies"]]
            others = sum(1 for n in pools if n) - 1
            arith = "alone" if others == 0 else ("smaller-pool" if e["pool"] < max(pools) else "largest-pool")
            if any(_bad(x) for x in all_examples(op)):
                arith = "beside-unsendable"
            elif any(not _known_mt(b["mt"]) for b in op["bodies"]):
                arith = "beside-unserializable"
            elif op.get("cfg", "none") != "none":
                arith = "configured-" + op["cfg"]
            elif obs["mode"] == "wire" and all(x["v"]["t"] == "bool" for x in d):
                arith = "boolean-on-the-wire"
            elif op["slice"] == "twins":
                arith = "twin-of-another-example"
            elif all(_falsy(x["v"]) for x in d):
                arith = "falsy-value"
            key = "%s/%s:%s" % (e["place"], e["form"], "body" if e["kind"] == "body" else "parameter")
            dia = "swagger2" if op["dialect"] == "2.0" else "openapi3"
            if any_arith is not None and (key, dia) in any_arith:
                arith = "any"
            elif any_arith is None and arith == "alone":
                arith = "any"
            return "C17:dropped:%s:%s:%s" % (key, arith, dia)
    places = "+".join(sorted({b["place"] for b in op["bodies"]} if op["bodies"] else {p["place"] for p in op["params"]}))
    if any(p.get("viaContent") for p in op["params"]):
        places += "+content-parameter"
    return "C17:%s:%s:%s" % (complaint, places or op["slice"], "swagger2" if op["dialect"] == "2.0" else "openapi3")


def _short(op: dict) -> str:
    ps = ", ".join("%s %s%s [%s x%d]" % (p["loc"], uncps(p["name"]), "*" if p["required"] else "", p["place"],
                                          sum(len(x["vals"]) for x in p["ex"])) for p in op["params"])
    bs = ", ".join("%s%s [%s x%d]" % (uncps(b["mt"]), "*" if b["required"] else "", b["place"], sum(len(x["vals"]) for x in b["ex"]))
                   for b in op["bodies"])
    return "OpenAPI %s params{%s} bodies{%s}%s" % (op["dialect"], ps, bs, " configured-header" if op.get("cfg") == "header" else "")


def _readable(obs: dict) -> list:
    return [{"%s:%s" % (p["kind"], uncps(p["name"])): decode_value(p["v"]) if p["v"]["t"] != "opaque" else "?" for p in r["parts"]}
            for r in obs["sent"]]


# ------------------------------------------------------------------------------------------ run
def _wire_batch(ops: list[dict]) -> list[dict]:
    return observe_wire(ops)


def judge(ctx: Ctx, records: list[tuple[dict, dict]], name: str = "obs.json"):
    f = ctx.path(name)
    tlc.write_json(f, [dict(obs, op=op) for op, obs in records])
    res = tlc.require_ok(tlc.run_tlc("ExamplesJudge", "ExamplesJudge.cfg", env={"OBS_FILE": f}, timeout=2400, workers=common.NPROC), "judge")
    if res.violated:
        raise tlc.TLCFailure("judge: design invariant %s violated on recorded input" % res.violated)
    by_obs: dict[int, set] = {}
    for p in res.prints:
        if isinstance(p, list) and p and p[0] == "COMPLAINT":
            by_obs.setdefault(p[1], set()).add(p[2])
    return res, by_obs


def run(ctx: Ctx) -> Outcome:
    out = Outcome()
    rng = random.Random(ctx.seed)
    cfg = "Examples_quick.cfg" if ctx.quick else "Examples_thorough.cfg"
    cases: list[dict] = []
    res = tlc.require_ok(tlc.run_tlc("Examples", cfg, workers=1, timeout=3000, on_json=lambda t, d: cases.append(d), want_prints=False),
                         "Examples enumeration")
    if res.distinct != len(cases):
        raise tlc.TLCFailure("export incomplete: %d states, %d lines" % (res.distinct, len(cases)))
    for inv in res.violated:
        out.violations.append(Violation("C17:spec:" + inv, "design invariant %s violated in Examples.tla" % inv,
                                        {"kind": "spec", "invariant": inv, "trace": res.counterexample[:60]}))
    ops = [c["op"] for c in cases]
    t1 = time.time()
    fast = common.pmap(observe_fast, ops)
    t_fast = time.time() - t1
    # wire path: a sample stratified by slice, batched per dialect into engine runs
    per_slice: dict[str, list[int]] = {}
    for i, op in enumerate(ops):
        per_slice.setdefault(op["slice"], []).append(i)
    quota = 24 if ctx.quick else 240
    picked = sorted(i for idxs in per_slice.values() for i in common.sample(rng, idxs, quota))
    batches: list[list[int]] = []
    for key in sorted({(ops[i]["dialect"], ops[i].get("cfg", "none")) for i in picked}):  # one document / one configuration per run
        idxs = [i for i in picked if (ops[i]["dialect"], ops[i].get("cfg", "none")) == key]
        batches.extend(idxs[k:k + BATCH] for k in range(0, len(idxs), BATCH))
    t1 = time.time()
    wire_results = _parallel_small(batches, ops)
    t_wire = time.time() - t1
    records: list[tuple[int, dict]] = [(i, o) for i, o in enumerate(fast)]
    for b, obs_list in zip(batches, wire_results):
        records.extend(zip(b, obs_list))

    jres, by_obs = judge(ctx, [(ops[i], o) for i, o in records])
    mismatch = []
    for j, (i, o) in enumerate(records, 1):
        mine = complaints_without_fill(ops[i], o, cases[i]["errorJustified"])
        theirs = by_obs.get(j, set()) - {"invalid-fill"}
        if mine != theirs:
            mismatch.append((j, sorted(mine), sorted(theirs)))
    if mismatch:
        raise tlc.TLCFailure("judge (TLC) and exporter disagree on %d observations - machinery inconsistency: %s" % (len(mismatch), mismatch[:5]))
    any_arith = set()
    for j, (i, o) in enumerate(records, 1):
        if "dropped" in by_obs.get(j, ()):
            sig = signature(ops[i], o, "dropped").split(":")
            if sig[-2] == "any":
                any_arith.add((":".join(sig[2:-2]), sig[-1]))
    for j, (i, o) in enumerate(records, 1):
        found = by_obs.get(j, set())
        if "dropped" in found:
            found = found - {"skipped-with-examples"}  # nothing extracted at all: the same finding, seen from the report side
        for c in sorted(found):
            d = dropped(ops[i], o) if c == "dropped" else []
            out.violations.append(Violation(
                signature(ops[i], o, c, any_arith),
                "%s (%s path, status=%s): %s%s; sent %s" % (
                    c, o["mode"], o["status"], _short(ops[i]),
                    " dropped " + json.dumps([{"%s:%s%s" % (e["kind"], uncps(e["name"]), "".join("/" + (uncps(s["name"]) if s["k"] == "prop" else "*") for s in e["path"])): decode_value(e["v"])} for e in d[:3]]) if d else "",
                    json.dumps(_readable(o))[:300]),
                {"op": ops[i], "mode": o["mode"], "unsendable": cases[i]["unsendable"], "document": build_document([ops[i]])[0]},
            ))
    nontrivial = sum(1 for c in cases if c["n"] > 0)
    n_examples = sum(c["n"] for c in cases)
    n_sent = sum(len(o["sent"]) for _, o in records)
    picks = common.sample(rng, [k for k in range(len(records)) if records[k][1]["sent"]], 4)
    out.coverage = {
        "states": res.distinct, "transitions": res.generated,
        "traces_validated_against_impl": len(records),
        "samples": [{"operation": _short(ops[records[k][0]]), "mode": records[k][1]["mode"], "status": records[k][1]["status"],
                     "sent": _readable(records[k][1])[:4]} for k in picks],
        "evaluations": len(records),
        "distinct_nontrivial": nontrivial,
        "descriptors": len(cases), "examples_in_documents": n_examples, "requests_or_cases_judged": n_sent,
        "wire_path_operations": len(picked), "engine_runs": len(batches),
        "rule": "every operation descriptor reachable in Examples.tla under %s, each observed through add_examples (all) and through the "
                "engine + loopback server log (a per-slice sample of %d); non-trivial = the document carries at least one example" % (cfg, quota),
        "exhaustive": True,
        "skipped_outside_fragment": {"examples_of_other_parts_not_demanded_beside_an_unsendable_example":
                                     sum(undecided_beside_unsendable(ops[i], o) for i, o in records)},
        "constants": {"cfg": cfg, "slices": {k: len(v) for k, v in sorted(per_slice.items())}},
        "complaints": sum(len(v) for v in by_obs.values()),
        "tlc_enumeration_s": round(res.wall_s, 1), "fast_path_s": round(t_fast, 1), "wire_path_s": round(t_wire, 1),
        "tlc_judge_s": round(jres.wall_s, 1), "judge_states": jres.distinct,
    }
    out.assumptions = [
        "fast path: the explicit examples attached by add_examples are exactly what the examples phase sends, and an operation with none "
        "is reported as skipped (validated on the wire-path sample, where the server log and the event stream are the ground truth)",
        "wire path: query / header / cookie / path texts are decoded with urllib (parse_qsl, unquote) and bodies with json.loads",
        "all examples of the family are schema-valid scalars (integer, string) or small JSON objects; one header example with a newline "
        "stands for 'cannot be sent over HTTP'",
        "fill validity is decided by OasSchema (only a definite 'F' is a complaint)",
    ]
    return out


def _parallel_small(batches: list[list[int]], ops: list[dict]) -> list[list[dict]]:
    """Few engine runs: one forked process each (pmap falls back to serial below 32 items)."""
    import multiprocessing as mp

    if not batches:
        return []
    with mp.get_context("fork").Pool(min(common.NPROC, len(batches))) as pool:
        return pool.map(_wire_batch, [[ops[i] for i in b] for b in batches], chunksize=1)


def replay(ctx: Ctx, data: dict) -> Outcome:
    out = Outcome()
    if data.get("kind") == "spec":
        return out
    op = data["op"]
    obs = observe_fast(op) if data["mode"] == "case" else observe_wire([op])[0]
    _, by_obs = judge(ctx, [(op, obs)])
    for c in sorted(by_obs.get(1, ())):
        out.violations.append(Violation(signature(op, obs, c), "%s: %s; sent %s" % (c, _short(op), json.dumps(_readable(obs))[:300]), data))
    return out


def selftest(ctx: Ctx) -> bool:
    """Binding: a faithful observation is accepted; dropping one sent request, altering a value, removing a required part
    and claiming 'ok' for an operation without examples are each rejected."""
    cases: list[dict] = []
    tlc.require_ok(tlc.run_tlc("Examples", "Examples_quick.cfg", workers=1, timeout=600, on_json=lambda t, d: cases.append(d), want_prints=False),
                   "enumeration")
    op = next(c["op"] for c in cases if c["op"]["slice"] == "three-params"
              and [sum(len(x["vals"]) for x in p["ex"]) for p in c["op"]["params"]] == [3, 2, 0])
    good = observe_fast(op)
    if good["status"] != "ok" or len(good["sent"]) < 3:
        print("selftest: unexpected observation", good["status"], len(good["sent"]))
        return False
    dropped_one = dict(good, sent=good["sent"][:-1])
    altered = json.loads(json.dumps(good))
    for part in altered["sent"][0]["parts"]:
        if part["kind"] == "query" and part["v"]["t"] == "int":
            part["v"]["v"] += 1000
    no_required = json.loads(json.dumps(good))
    no_required["sent"][0]["parts"] = [p for p in no_required["sent"][0]["parts"] if p["kind"] != "header"]
    empty_op = next(c["op"] for c in cases if c["n"] == 0 and c["op"]["slice"] == "locations")
    lying = {"mode": "case", "status": "ok", "sent": []}
    _, by_obs = judge(ctx, [(op, good), (op, dropped_one), (op, altered), (op, no_required), (empty_op, lying)])
    got = {k: sorted(v) for k, v in by_obs.items()}
    ok = got == {2: ["dropped"], 3: ["dropped"], 4: ["missing-required"], 5: ["not-reported-skipped"]}
    if not ok:
        print("selftest: judge printed", got)
    return ok


def main(argv=None) -> int:
    return common.main("C17", run, replay, selftest, argv)
