"""Self-test of the OasSchema oracle and of the projection (setup-time test of the *spec*, not a property check).

    /venv/bin/python -m harness.oas_selftest [--n 20000] [--seed 0] [--emit]

1. projection round trips (encode_value / decode_value, encode_schema / decode_schema, pattern parser);
2. TLC checks spec/OasSchemaTest.tla: the hand-written catalogue of (schema, value, expected) cases in
   spec/OasSchemaCases.tla (emitted from CATALOGUE below by --emit; the expectations are written by hand from the
   standards) and the algebraic laws stated there (NFA = declarative regular-expression semantics on all short strings, ...);
3. differential test: random (schema, value) pairs inside the fragment, oracle (TLC) vs. `jsonschema` + python
   reference scanners.  `jsonschema` is used ONLY here, to test the oracle - never to decide a property.
   A definite oracle verdict must equal the reference; "U" is counted (and must stay a small minority).
"""
from __future__ import annotations

import argparse
import base64
import datetime
import ipaddress
import json
import os
import random
import re
import sys
import tempfile

from . import tlc
from .encode import (OPAQUE, bundle, cps, decode_schema, decode_value, dia, encode_schema, encode_value, parse_pattern,
                     unparse_pattern)

SPEC = tlc.SPEC_DIR

# ------------------------------------------------------------------------------------------------------------------
# 2. catalogue: (dialect, schema, value, expected) or (dialect, schema, value, expected, {"dir":.., "mode":.., "root":..})
# ------------------------------------------------------------------------------------------------------------------
ROOT = {"definitions": {
    "Pos": {"type": "integer", "minimum": 1},
    "Node": {"type": "object", "properties": {"next": {"$ref": "#/definitions/Node"}, "v": {"$ref": "#/definitions/Pos"}}, "required": ["v"]},
    "RO": {"type": "string", "readOnly": True},
    "Loop": {"allOf": [{"$ref": "#/definitions/Loop"}]},
    "Chain": {"$ref": "#/definitions/Pos"},
}}
R = {"root": ROOT}
CO = {"mode": "coerced"}
UUID = "12345678-1234-5678-1234-567812345678"
CATALOGUE = [
    # ---- type
    ("3.0", {"type": "integer"}, 1, "T"), ("3.0", {"type": "integer"}, -7, "T"), ("3.0", {"type": "integer"}, 1.5, "F"),
    ("3.0", {"type": "integer"}, 1.0, "F"), ("3.1", {"type": "integer"}, 1.0, "T"), ("2.0", {"type": "integer"}, 2.0, "F"),
    ("3.0", {"type": "integer"}, True, "F"), ("3.0", {"type": "integer"}, "1", "F"), ("3.0", {"type": "integer"}, None, "F"),
    ("3.0", {"type": "integer"}, 2**40, "T"), ("3.0", {"type": "integer"}, 1e20, "F"), ("3.1", {"type": "integer"}, 1e20, "T"),
    ("3.0", {"type": "number"}, 1, "T"), ("3.0", {"type": "number"}, 1.5, "T"), ("3.0", {"type": "number"}, False, "F"),
    ("3.0", {"type": "number"}, "1.5", "F"), ("3.0", {"type": "string"}, "", "T"), ("3.0", {"type": "string"}, 0, "F"),
    ("3.0", {"type": "boolean"}, False, "T"), ("3.0", {"type": "boolean"}, 0, "F"), ("3.0", {"type": "boolean"}, "true", "F"),
    ("3.0", {"type": "array"}, [], "T"), ("3.0", {"type": "array"}, {}, "F"), ("3.0", {"type": "object"}, {}, "T"),
    ("3.0", {"type": "object"}, [], "F"), ("3.0", {"type": "object"}, None, "F"), ("3.0", {}, None, "T"), ("3.0", {}, {"a": [1]}, "T"),
    ("3.1", {"type": ["integer", "string"]}, "x", "T"), ("3.1", {"type": ["integer", "string"]}, 1, "T"),
    ("3.1", {"type": ["integer", "string"]}, 1.5, "F"), ("3.1", {"type": ["integer", "null"]}, None, "T"),
    ("3.1", {"type": "null"}, None, "T"), ("3.1", {"type": "null"}, 0, "F"), ("3.1", {"type": "null"}, "", "F"),
    ("3.0", {"type": ["integer", "string"]}, 1, "U"), ("3.0", {"type": "null"}, None, "U"), ("2.0", {"type": "file"}, "x", "U"),
    ("3.1", True, 1, "T"), ("3.1", False, 1, "F"), ("3.0", {"frobnicate": 1}, 1, "U"), ("3.0", {"x-foo": 1, "title": "t"}, 1, "T"),
    # ---- enum / const, JSON equality
    ("3.0", {"enum": [1, "a", None]}, 1, "T"), ("3.0", {"enum": [1, "a", None]}, "a", "T"), ("3.0", {"enum": [1, "a", None]}, None, "T"),
    ("3.0", {"enum": [1, "a", None]}, 2, "F"), ("3.0", {"enum": [1]}, True, "F"), ("3.0", {"enum": [True]}, 1, "F"),
    ("3.0", {"enum": [0]}, False, "F"), ("3.0", {"enum": [False]}, 0, "F"), ("3.0", {"enum": [1]}, 1.0, "T"),
    ("3.0", {"enum": [1.5]}, 1.5, "T"), ("3.0", {"enum": [1.5]}, 1.25, "F"), ("3.0", {"enum": [""]}, "", "T"), ("3.0", {"enum": [""]}, None, "F"),
    ("3.0", {"enum": [[1, 2]]}, [1, 2], "T"), ("3.0", {"enum": [[1, 2]]}, [2, 1], "F"), ("3.0", {"enum": [[1, 2]]}, [1, 2, 3], "F"),
    ("3.0", {"enum": [{"a": 1, "b": 2}]}, {"b": 2, "a": 1}, "T"), ("3.0", {"enum": [{"a": 1, "b": 2}]}, {"a": 1}, "F"),
    ("3.0", {"enum": [{"a": 1}]}, {"a": True}, "F"), ("3.0", {"enum": [[]]}, {}, "F"), ("3.0", {"enum": [2**40]}, 2**40, "T"),
    ("3.0", {"enum": [2**40]}, 2**41, "F"), ("3.0", {"enum": [2**40]}, float(2**40), "T"),
    ("3.1", {"const": 0}, 0, "T"), ("3.1", {"const": 0}, False, "F"), ("3.1", {"const": 0}, 0.0, "T"), ("3.1", {"const": "a"}, "b", "F"),
    ("3.1", {"const": None}, None, "T"), ("3.1", {"const": [0]}, [False], "F"), ("3.0", {"const": 0}, 1, "U"),
    ("3.0", {"type": "string", "enum": ["a", 1]}, 1, "F"), ("3.0", {"type": "string", "enum": ["a", 1]}, "a", "T"),
    # ---- numeric bounds, both exclusive spellings, floats between integers, big numbers
    ("3.0", {"minimum": 0}, 0, "T"), ("3.0", {"minimum": 0}, -1, "F"), ("3.0", {"minimum": 0}, -0.5, "F"), ("3.0", {"minimum": 0}, 0.5, "T"),
    ("3.0", {"minimum": 0, "exclusiveMinimum": True}, 0, "F"), ("3.0", {"minimum": 0, "exclusiveMinimum": True}, 0.5, "T"),
    ("3.0", {"minimum": 0, "exclusiveMinimum": True}, 1, "T"), ("3.0", {"minimum": 0, "exclusiveMinimum": False}, 0, "T"),
    ("3.0", {"exclusiveMinimum": True}, -5, "T"), ("3.0", {"maximum": 3}, 3, "T"), ("3.0", {"maximum": 3}, 4, "F"),
    ("3.0", {"maximum": 3}, 3.5, "F"), ("3.0", {"maximum": 3}, 2.5, "T"), ("3.0", {"maximum": 3, "exclusiveMaximum": True}, 3, "F"),
    ("3.0", {"maximum": 3, "exclusiveMaximum": True}, 2.5, "T"), ("3.0", {"maximum": 3, "exclusiveMaximum": True}, 3.0, "F"),
    ("3.1", {"exclusiveMinimum": 0}, 0, "F"), ("3.1", {"exclusiveMinimum": 0}, 1, "T"), ("3.1", {"exclusiveMinimum": 0}, 0.25, "T"),
    ("3.1", {"exclusiveMaximum": 3}, 3, "F"), ("3.1", {"exclusiveMaximum": 3}, 2, "T"), ("3.1", {"exclusiveMaximum": 3}, 2.75, "T"),
    ("3.1", {"minimum": 2, "exclusiveMinimum": 0}, 1, "F"), ("3.1", {"exclusiveMinimum": True}, 1, "U"), ("3.0", {"exclusiveMinimum": 0}, 1, "U"),
    ("3.0", {"minimum": 0, "maximum": 0}, 0, "T"), ("3.0", {"minimum": 0, "maximum": 0}, 1, "F"), ("3.0", {"minimum": 0, "maximum": 0}, -1, "F"),
    ("3.0", {"minimum": 3, "maximum": 0}, 1, "F"), ("3.0", {"minimum": 0}, "x", "T"), ("3.0", {"minimum": 0}, True, "T"),
    ("3.0", {"minimum": 0}, 2**40, "T"), ("3.0", {"maximum": 0}, 2**40, "F"), ("3.0", {"minimum": 0}, -2**40, "F"), ("3.0", {"minimum": 0}, 1e300, "T"),
    ("3.0", {"minimum": 0.5}, 1, "U"), ("3.0", {"minimum": 2**40}, 1, "U"), ("3.0", {"minimum": 1.0}, 1, "T"),
    # ---- multipleOf
    ("3.0", {"multipleOf": 2}, 4, "T"), ("3.0", {"multipleOf": 2}, 3, "F"), ("3.0", {"multipleOf": 2}, 0, "T"), ("3.0", {"multipleOf": 2}, -4, "T"),
    ("3.0", {"multipleOf": 2}, -3, "F"), ("3.0", {"multipleOf": 2}, 2.5, "F"), ("3.0", {"multipleOf": 2}, 4.0, "T"), ("3.0", {"multipleOf": 3}, 2**40, "F"),
    ("3.0", {"multipleOf": 2}, 2**40, "T"), ("3.0", {"multipleOf": 2}, "x", "T"), ("3.0", {"multipleOf": 0.5}, 1, "U"), ("3.0", {"multipleOf": 0}, 1, "U"),
    ("3.0", {"type": "integer", "multipleOf": 2, "minimum": 1, "maximum": 3}, 2, "T"), ("3.0", {"type": "integer", "multipleOf": 2, "minimum": 1, "maximum": 1}, 1, "F"),
    # ---- lengths in code points
    ("3.0", {"minLength": 2}, "ab", "T"), ("3.0", {"minLength": 2}, "a", "F"), ("3.0", {"maxLength": 2}, "abc", "F"), ("3.0", {"maxLength": 0}, "", "T"),
    ("3.0", {"maxLength": 1}, "\U0001F600", "T"), ("3.0", {"minLength": 2}, "\U0001F600", "F"), ("3.0", {"maxLength": 1}, "é", "F"),
    ("3.0", {"minLength": 2}, 5, "T"), ("3.0", {"minLength": 2}, ["a"], "T"), ("3.0", {"minLength": -1}, "a", "U"),
    # ---- pattern: search semantics
    ("3.0", {"pattern": "^[a-z]+$"}, "abc", "T"), ("3.0", {"pattern": "^[a-z]+$"}, "abC", "F"), ("3.0", {"pattern": "^[a-z]+$"}, "", "F"),
    ("3.0", {"pattern": "[a-z]+"}, "123a456", "T"), ("3.0", {"pattern": "[a-z]+"}, "123", "F"), ("3.0", {"pattern": "[a-z]+", "maxLength": 3}, "abcd", "F"),
    ("3.0", {"pattern": "[a-z]+", "maxLength": 3}, "1a2", "T"), ("3.0", {"pattern": "^[0-9]{2,3}"}, "12ab", "T"), ("3.0", {"pattern": "^[0-9]{2,3}"}, "1ab", "F"),
    ("3.0", {"pattern": "^[0-9]{2,3}"}, "12345", "T"), ("3.0", {"pattern": "^[0-9]{2,3}$"}, "1234", "F"), ("3.0", {"pattern": "^[0-9]{2,3}$"}, "123", "T"),
    ("3.0", {"pattern": "[0-9]{2}$"}, "a12", "T"), ("3.0", {"pattern": "[0-9]{2}$"}, "12a", "F"), ("3.0", {"pattern": "ab?c*$"}, "xxac", "T"),
    ("3.0", {"pattern": "ab?c*$"}, "abccc", "T"), ("3.0", {"pattern": "ab?c*$"}, "abb", "F"), ("3.0", {"pattern": "ab?c*$"}, "aba", "T"),
    ("3.0", {"pattern": "^a{2}b"}, "aab", "T"), ("3.0", {"pattern": "^a{2}b"}, "aaab", "F"), ("3.0", {"pattern": "a{2}b"}, "aaab", "T"),
    ("3.0", {"pattern": "^[^0-9]*$"}, "ab-", "T"), ("3.0", {"pattern": "^[^0-9]*$"}, "a1", "F"), ("3.0", {"pattern": "^$"}, "", "T"), ("3.0", {"pattern": "^$"}, "a", "F"),
    ("3.0", {"pattern": ""}, "anything", "T"), ("3.0", {"pattern": "^\\.x"}, ".x", "T"), ("3.0", {"pattern": "^\\.x"}, "ax", "F"),
    ("3.0", {"pattern": "^[a-z]+$"}, "abc\n", "U"), ("3.0", {"pattern": "^[a-z]+"}, "abc\n", "T"), ("3.0", {"pattern": "^a.c$"}, "abc", "U"),
    ("3.0", {"pattern": "^(ab)+$"}, "abab", "U"), ("3.0", {"pattern": "^\\d+$"}, "12", "U"), ("3.0", {"pattern": "^[^a]$"}, "\U0001F600", "U"),
    ("3.0", {"pattern": "^[a-z]+$"}, 5, "T"), ("3.0", {"pattern": "^a{1,2}a$"}, "aaa", "T"), ("3.0", {"pattern": "^a{1,2}a$"}, "aaaa", "F"),
    ("3.0", {"pattern": "^a*a$"}, "aaaa", "T"), ("3.0", {"pattern": "^a?b?c?$"}, "ac", "T"), ("3.0", {"pattern": "^a?b?c?$"}, "ca", "F"),
    # ---- formats
    ("3.0", {"format": "uuid"}, UUID, "T"), ("3.0", {"format": "uuid"}, UUID.upper().replace("1", "a"), "T"), ("3.0", {"format": "uuid"}, UUID[:-1], "F"),
    ("3.0", {"format": "uuid"}, UUID.replace("-", ""), "U"), ("3.0", {"format": "uuid"}, "{" + UUID + "}", "U"), ("3.0", {"format": "uuid"}, UUID[:-1] + "g", "F"),
    ("3.0", {"format": "uuid"}, "", "F"), ("3.0", {"format": "uuid"}, 5, "T"), ("3.0", {"format": "uuid"}, "urn:uuid:" + UUID, "U"),
    ("3.0", {"format": "date"}, "2020-02-29", "T"), ("3.0", {"format": "date"}, "2021-02-29", "F"), ("3.0", {"format": "date"}, "1900-02-29", "F"),
    ("3.0", {"format": "date"}, "2000-02-29", "T"), ("3.0", {"format": "date"}, "2020-13-01", "F"), ("3.0", {"format": "date"}, "2020-04-31", "F"),
    ("3.0", {"format": "date"}, "2020-4-01", "F"), ("3.0", {"format": "date"}, "20200401", "F"), ("3.0", {"format": "date"}, "2020-00-10", "F"),
    ("3.0", {"format": "date"}, "0000-01-01", "U"), ("3.0", {"format": "date"}, "2020-01-01T00:00:00Z", "F"), ("3.0", {"format": "date"}, "", "F"),
    ("3.0", {"format": "date-time"}, "2020-01-01T00:00:00Z", "T"), ("3.0", {"format": "date-time"}, "2020-01-01T23:59:59.123+05:30", "T"),
    ("3.0", {"format": "date-time"}, "2020-01-01T00:00:00-00:00", "T"), ("3.0", {"format": "date-time"}, "2020-01-01T24:00:00Z", "F"),
    ("3.0", {"format": "date-time"}, "2020-01-01T00:60:00Z", "F"), ("3.0", {"format": "date-time"}, "2020-01-01T00:00:60Z", "U"),
    ("3.0", {"format": "date-time"}, "2020-01-01T00:00:00", "U"), ("3.0", {"format": "date-time"}, "2020-01-01t00:00:00z", "U"),
    ("3.0", {"format": "date-time"}, "2020-01-01 00:00:00Z", "U"), ("3.0", {"format": "date-time"}, "2020-01-01", "F"),
    ("3.0", {"format": "date-time"}, "2020-02-30T00:00:00Z", "F"), ("3.0", {"format": "date-time"}, "2020-01-01T00:00:00.Z", "F"),
    ("3.0", {"format": "date-time"}, "2020-01-01T00:00:00+24:00", "F"), ("3.0", {"format": "date-time"}, "2020-01-01T00:00:00Zx", "F"),
    ("3.0", {"format": "date-time"}, "2020-01-01T00:00:00+0530", "F"), ("3.0", {"format": "date-time"}, "garbage", "F"),
    ("3.0", {"format": "ipv4"}, "127.0.0.1", "T"), ("3.0", {"format": "ipv4"}, "255.255.255.255", "T"), ("3.0", {"format": "ipv4"}, "256.0.0.1", "F"),
    ("3.0", {"format": "ipv4"}, "1.2.3", "F"), ("3.0", {"format": "ipv4"}, "1.2.3.4.5", "F"), ("3.0", {"format": "ipv4"}, "1..2.3", "F"),
    ("3.0", {"format": "ipv4"}, "01.2.3.4", "U"), ("3.0", {"format": "ipv4"}, "1.2.3.a", "F"), ("3.0", {"format": "ipv4"}, "1.2.3.4 ", "F"), ("3.0", {"format": "ipv4"}, "0.0.0.0", "T"),
    ("3.0", {"format": "byte"}, "", "T"), ("3.0", {"format": "byte"}, "QUJD", "T"), ("3.0", {"format": "byte"}, "QUI=", "T"), ("3.0", {"format": "byte"}, "QQ==", "T"),
    ("3.0", {"format": "byte"}, "QUJ", "U"), ("3.0", {"format": "byte"}, "QU=J", "F"), ("3.0", {"format": "byte"}, "Q===", "F"), ("3.0", {"format": "byte"}, "QU-_", "U"),
    ("3.0", {"format": "byte"}, "QUJD\n", "U"), ("3.0", {"format": "byte"}, "QU!D", "F"), ("3.0", {"format": "byte"}, "=", "F"),
    ("3.0", {"format": "email"}, "not an email", "U"), ("3.0", {"format": "email"}, "", "F"), ("3.0", {"format": "hostname"}, "", "F"),
    ("3.0", {"format": "uri-reference"}, "", "T"), ("3.0", {"format": "uri-reference"}, "a b", "U"), ("3.0", {"format": "regex"}, "", "T"),
    ("3.0", {"format": "uri-template"}, "", "T"), ("3.0", {"format": "json-pointer"}, "", "T"), ("3.0", {"format": "iri-reference"}, "", "T"),
    ("3.0", {"format": "uri"}, "", "F"), ("3.0", {"format": "ipv6"}, "::1", "U"), ("3.0", {"format": "password"}, "", "T"), ("3.0", {"format": "uri-reference"}, 5, "T"), ("3.0", {"format": "int32"}, 2**40, "T"), ("3.0", {"type": "string", "format": "date", "minLength": 11}, "2020-01-01", "F"),
    # ---- arrays
    ("3.0", {"items": {"type": "integer"}}, [1, 2], "T"), ("3.0", {"items": {"type": "integer"}}, [1, "2"], "F"), ("3.0", {"items": {"type": "integer"}}, [], "T"),
    ("3.0", {"items": {"type": "integer"}}, "x", "T"), ("3.0", {"minItems": 2}, [1], "F"), ("3.0", {"minItems": 2}, [1, 1], "T"), ("3.0", {"maxItems": 0}, [], "T"),
    ("3.0", {"maxItems": 0}, [None], "F"), ("3.0", {"uniqueItems": True}, [1, 2], "T"), ("3.0", {"uniqueItems": True}, [1, 1], "F"), ("3.0", {"uniqueItems": True}, [1, True], "T"),
    ("3.0", {"uniqueItems": True}, [0, False], "T"), ("3.0", {"uniqueItems": True}, [1, 1.0], "F"), ("3.0", {"uniqueItems": True}, [[1], [1]], "F"),
    ("3.0", {"uniqueItems": True}, [{"a": 1, "b": 2}, {"b": 2, "a": 1}], "F"), ("3.0", {"uniqueItems": True}, [{"a": 1}, {"a": 2}], "T"), ("3.0", {"uniqueItems": False}, [1, 1], "T"),
    ("3.0", {"uniqueItems": True}, ["a", "a"], "F"), ("3.0", {"uniqueItems": True}, [], "T"), ("3.0", {"items": [{"type": "integer"}]}, [1], "U"),
    ("3.0", {"type": "array", "items": {"type": "array", "items": {"minimum": 1}}}, [[1], [0]], "F"), ("3.1", {"items": False}, [], "T"), ("3.1", {"items": False}, [1], "F"),
    # ---- objects
    ("3.0", {"required": ["a"]}, {"a": None}, "T"), ("3.0", {"required": ["a"]}, {}, "F"), ("3.0", {"required": ["a"]}, {"b": 1}, "F"), ("3.0", {"required": ["a"]}, [], "T"),
    ("3.0", {"properties": {"a": {"type": "integer"}}}, {"a": 1}, "T"), ("3.0", {"properties": {"a": {"type": "integer"}}}, {"a": "x"}, "F"),
    ("3.0", {"properties": {"a": {"type": "integer"}}}, {}, "T"), ("3.0", {"properties": {"a": {"type": "integer"}}}, {"b": "x"}, "T"),
    ("3.0", {"properties": {"a": {}}, "additionalProperties": False}, {"a": 1}, "T"), ("3.0", {"properties": {"a": {}}, "additionalProperties": False}, {"b": 1}, "F"),
    ("3.0", {"additionalProperties": False}, {}, "T"), ("3.0", {"additionalProperties": False}, {"a": 1}, "F"), ("3.0", {"additionalProperties": True}, {"a": 1}, "T"),
    ("3.0", {"additionalProperties": {"type": "integer"}}, {"a": 1, "b": 2}, "T"), ("3.0", {"additionalProperties": {"type": "integer"}}, {"a": 1, "b": "x"}, "F"),
    ("3.0", {"properties": {"a": {"type": "string"}}, "additionalProperties": {"type": "integer"}}, {"a": "s", "b": 2}, "T"),
    ("3.0", {"properties": {"a": {"type": "string"}}, "additionalProperties": {"type": "integer"}}, {"a": 1}, "F"),
    ("3.0", {"minProperties": 1}, {}, "F"), ("3.0", {"minProperties": 1}, {"a": 1}, "T"), ("3.0", {"maxProperties": 1}, {"a": 1, "b": 2}, "F"), ("3.0", {"maxProperties": 0}, {}, "T"),
    ("3.0", {"patternProperties": {"^a": {}}}, {}, "U"), ("3.0", {"properties": {"a": {"weird": 1}}}, {"b": 1}, "T"), ("3.0", {"properties": {"a": {"weird": 1}}}, {"a": 1}, "U"),
    ("3.0", {"properties": {"a": {"weird": 1}}, "required": ["b"]}, {"a": 1}, "F"),
    # ---- readOnly / writeOnly and direction
    ("3.0", {"properties": {"a": {"type": "integer", "readOnly": True}}}, {"a": 1}, "F"), ("3.0", {"properties": {"a": {"type": "integer", "readOnly": True}}}, {}, "T"),
    ("3.0", {"properties": {"a": {"type": "integer", "readOnly": True}}}, {"a": 1}, "T", {"dir": "response"}),
    ("3.0", {"properties": {"a": {"readOnly": True}}, "required": ["a"]}, {}, "T"), ("3.0", {"properties": {"a": {"readOnly": True}}, "required": ["a"]}, {}, "F", {"dir": "response"}),
    ("3.0", {"properties": {"a": {"readOnly": True}, "b": {"readOnly": True}}}, {"a": 1}, "F"), ("3.0", {"properties": {"a": {"readOnly": True}, "b": {"readOnly": True}}}, {"b": 1}, "F"),
    ("3.0", {"properties": {"a": {"readOnly": True}, "b": {"readOnly": True}}}, {"a": 1, "b": 1}, "F"), ("3.0", {"properties": {"a": {"readOnly": False}}}, {"a": 1}, "T"),
    ("3.0", {"properties": {"a": {"writeOnly": True}}}, {"a": 1}, "T"), ("3.0", {"properties": {"a": {"writeOnly": True}}}, {"a": 1}, "F", {"dir": "response"}),
    ("3.0", {"properties": {"a": {"writeOnly": True}}, "required": ["a"]}, {}, "T", {"dir": "response"}), ("3.0", {"properties": {"a": {"writeOnly": True}}, "required": ["a"]}, {}, "F"),
    ("3.0", {"properties": {"o": {"properties": {"a": {"readOnly": True}}}}}, {"o": {"a": 1}}, "F"), ("3.0", {"items": {"properties": {"a": {"readOnly": True}}}}, [{"a": 1}], "F"),
    ("3.0", {"properties": {"a": {"$ref": "#/definitions/RO"}}}, {"a": "x"}, "F", R), ("3.0", {"properties": {"a": {"$ref": "#/definitions/RO"}}, "required": ["a"]}, {}, "T", R),
    ("3.0", {"allOf": [{"properties": {"a": {"readOnly": True}}}]}, {"a": 1}, "F"), ("2.0", {"properties": {"a": {"readOnly": True}}}, {"a": 1}, "F"), ("2.0", {"properties": {"a": {"writeOnly": True}}}, {"a": 1}, "U"),
    # ---- combinators
    ("3.0", {"allOf": [{"minimum": 0}, {"maximum": 3}]}, 2, "T"), ("3.0", {"allOf": [{"minimum": 0}, {"maximum": 3}]}, 4, "F"), ("3.0", {"allOf": [{"minimum": 0}, {"weird": 3}]}, -1, "F"),
    ("3.0", {"allOf": [{"minimum": 0}, {"weird": 3}]}, 1, "U"), ("3.0", {"anyOf": [{"type": "integer"}, {"type": "string"}]}, "x", "T"), ("3.0", {"anyOf": [{"type": "integer"}, {"type": "string"}]}, 1.5, "F"),
    ("3.0", {"anyOf": [{"type": "integer"}, {"weird": 1}]}, 1, "T"), ("3.0", {"anyOf": [{"type": "integer"}, {"weird": 1}]}, "x", "U"),
    ("3.0", {"anyOf": [{"type": "integer", "minimum": 5}, {"type": "integer", "maximum": 10}]}, 7, "T"), ("3.0", {"anyOf": [{"minimum": 5}, {"maximum": 3}]}, 4, "F"), ("3.0", {"anyOf": [{"minimum": 5}, {"maximum": 3}]}, 2, "T"),
    ("3.0", {"oneOf": [{"type": "integer"}, {"minimum": 0}]}, 3, "F"), ("3.0", {"oneOf": [{"type": "integer"}, {"minimum": 0}]}, -3, "T"), ("3.0", {"oneOf": [{"type": "integer"}, {"minimum": 0}]}, 0.5, "T"),
    ("3.0", {"oneOf": [{"type": "integer"}, {"minimum": 0}]}, -0.5, "F"), ("3.0", {"oneOf": [{"type": "integer"}, {"type": "integer"}]}, 1, "F"), ("3.0", {"oneOf": [{"type": "integer"}, {"weird": 0}]}, 1, "U"),
    ("3.0", {"oneOf": [{"type": "integer"}, {"minimum": 0}, {"weird": 0}]}, 3, "F"), ("3.0", {"not": {"type": "integer"}}, "x", "T"), ("3.0", {"not": {"type": "integer"}}, 1, "F"), ("3.0", {"not": {"weird": 1}}, 1, "U"),
    ("3.0", {"not": {}}, 1, "F"), ("3.0", {"not": {"not": {"minimum": 2}}}, 1, "F"), ("3.0", {"type": "integer", "not": {"enum": [0]}}, 0, "F"), ("3.0", {"type": "integer", "not": {"enum": [0]}}, 1, "T"),
    ("2.0", {"anyOf": [{"type": "integer"}]}, 1, "U"), ("2.0", {"allOf": [{"type": "integer"}]}, 1, "T"), ("3.0", {"allOf": []}, 1, "U"),
    # ---- nullable in its three spellings
    ("3.0", {"type": "string", "nullable": True}, None, "T"), ("3.0", {"type": "string", "nullable": True}, "a", "T"), ("3.0", {"type": "string", "nullable": True}, 1, "F"),
    ("3.0", {"type": "string", "nullable": False}, None, "F"), ("3.0", {"type": "string"}, None, "F"), ("2.0", {"type": "string", "x-nullable": True}, None, "T"),
    ("2.0", {"type": "string", "nullable": True}, None, "U"), ("3.0", {"type": "string", "x-nullable": True}, None, "U"), ("3.1", {"type": "string", "nullable": True}, None, "U"),
    ("3.0", {"type": "string", "nullable": True, "enum": ["a"]}, None, "U"), ("3.0", {"type": "string", "nullable": True, "enum": ["a", None]}, None, "T"), ("3.0", {"type": "string", "nullable": True, "enum": ["a"]}, "b", "F"),
    ("3.0", {"type": "string", "nullable": True, "minLength": 3}, None, "T"), ("3.0", {"nullable": True, "allOf": [{"type": "string"}]}, None, "U"), ("3.0", {"nullable": True}, None, "T"),
    ("3.0", {"type": "object", "nullable": True, "required": ["a"]}, None, "T"), ("3.0", {"type": "integer", "nullable": True, "minimum": 1}, 0, "F"), ("3.0", {"items": {"type": "integer", "nullable": True}}, [1, None], "T"),
    # ---- local references
    ("3.0", {"$ref": "#/definitions/Pos"}, 1, "T", R), ("3.0", {"$ref": "#/definitions/Pos"}, 0, "F", R), ("3.0", {"$ref": "#/definitions/Chain"}, 0, "F", R), ("3.0", {"$ref": "#/definitions/Missing"}, 0, "U", R),
    ("3.0", {"$ref": "#/definitions/Node"}, {"v": 1, "next": {"v": 2, "next": {"v": 3}}}, "T", R), ("3.0", {"$ref": "#/definitions/Node"}, {"v": 1, "next": {"v": 2, "next": {"v": 0}}}, "F", R),
    ("3.0", {"$ref": "#/definitions/Node"}, {"v": 1, "next": {}}, "F", R), ("3.0", {"$ref": "#/definitions/Loop"}, 1, "U", R), ("3.0", {"$ref": "http://x/y.json"}, 1, "U", R),
    ("3.0", {"$ref": "#/definitions/Pos", "minimum": 5}, 1, "U", R), ("3.0", {"$ref": "#/definitions/Pos", "description": "d"}, 1, "T", R), ("3.0", {"items": {"$ref": "#/definitions/Pos"}}, [1, 0], "F", R),
    # ---- opaque values
    ("3.0", {}, float("nan"), "U"), ("3.0", {"type": "string"}, b"bytes", "U"), ("3.0", {"type": "array"}, [b"x"], "T"), ("3.0", {"type": "array", "items": {"type": "string"}}, [b"x"], "U"), ("3.0", {"type": "object"}, {1: 2}, "U"),
    # ---- string coercion: path / query / header / cookie (Appendix D)
    ("3.0", {"type": "integer"}, "42", "T", CO), ("3.0", {"type": "integer"}, "-7", "T", CO), ("3.0", {"type": "integer"}, "0", "T", CO), ("3.0", {"type": "integer"}, "abc", "F", CO),
    ("3.0", {"type": "integer"}, "", "F", CO), ("3.0", {"type": "integer"}, "042", "U", CO), ("3.0", {"type": "integer"}, "+1", "U", CO), ("3.0", {"type": "integer"}, " 1", "U", CO),
    ("3.0", {"type": "integer"}, "1.0", "U", CO), ("3.0", {"type": "integer"}, "-0", "U", CO), ("3.0", {"type": "integer"}, "1e3", "U", CO), ("3.0", {"type": "integer"}, "12345678901", "U", CO),
    ("3.0", {"type": "integer"}, "1a", "F", CO), ("3.0", {"type": "integer"}, "true", "F", CO), ("3.0", {"type": "integer"}, "null", "F", CO), ("3.0", {"type": "integer", "minimum": 10}, "5", "F", CO),
    ("3.0", {"type": "integer", "minimum": 10}, "15", "T", CO), ("3.0", {"type": "integer", "enum": [1, 2]}, "2", "T", CO), ("3.0", {"type": "integer", "enum": [1, 2]}, "3", "F", CO),
    ("3.0", {"type": "number"}, "42", "T", CO), ("3.0", {"type": "number"}, "1.5", "U", CO), ("3.0", {"type": "number"}, "nan", "U", CO), ("3.0", {"type": "number"}, "Infinity", "U", CO),
    ("3.0", {"type": "number"}, "x", "F", CO), ("3.0", {"type": "number"}, "", "F", CO), ("3.0", {"type": "boolean"}, "true", "T", CO), ("3.0", {"type": "boolean"}, "false", "T", CO),
    ("3.0", {"type": "boolean"}, "True", "U", CO), ("3.0", {"type": "boolean"}, "1", "F", CO), ("3.0", {"type": "boolean"}, "yes", "F", CO), ("3.0", {"type": "boolean", "enum": [True]}, "false", "F", CO),
    ("3.1", {"type": "null"}, "null", "T", CO), ("3.1", {"type": "null"}, "None", "U", CO), ("3.1", {"type": "null"}, "", "U", CO), ("3.1", {"type": "null"}, "x", "F", CO),
    ("3.0", {"type": "string"}, "anything", "T", CO), ("3.0", {"type": "string"}, "", "T", CO), ("3.0", {"type": "string", "minLength": 3}, "ab", "F", CO), ("3.0", {"type": "string", "pattern": "^[0-9]+$"}, "12", "T", CO),
    ("3.0", {"type": "string", "enum": ["1"]}, "1", "T", CO), ("3.0", {"type": "string", "enum": ["a"]}, "b", "F", CO),
    ("3.0", {"type": "integer"}, 42, "T", CO), ("3.0", {"type": "integer"}, 1.5, "F", CO), ("3.0", {"type": "integer"}, 1.0, "U", CO), ("3.0", {"type": "integer"}, True, "F", CO), ("3.0", {"type": "integer"}, None, "F", CO),
    ("3.0", {"type": "number"}, 1.5, "T", CO), ("3.0", {"type": "number", "maximum": 1}, 1.5, "F", CO), ("3.0", {"type": "number"}, True, "F", CO), ("3.0", {"type": "boolean"}, True, "T", CO), ("3.0", {"type": "boolean"}, 1, "F", CO),
    ("3.0", {"type": "string"}, 42, "T", CO), ("3.0", {"type": "string", "minLength": 3}, 42, "F", CO), ("3.0", {"type": "string", "minLength": 3}, -42, "T", CO), ("3.0", {"type": "string", "maxLength": 2}, 1.5, "F", CO),
    ("3.0", {"type": "string"}, True, "U", CO), ("3.0", {"type": "string"}, None, "U", CO), ("3.0", {"type": "string", "nullable": True}, None, "U", CO), ("3.0", {"type": "integer", "nullable": True}, None, "T", CO),
    ("3.0", {"type": "integer", "nullable": True}, "null", "T", CO), ("3.0", {"type": "integer", "nullable": True}, "5", "T", CO), ("3.0", {"type": "string", "format": "uuid"}, UUID, "T", CO), ("3.0", {"type": "string", "format": "date"}, "2020-13-01", "F", CO),
    ("3.0", {}, "5", "T", CO), ("3.0", {"enum": [5]}, "5", "U", CO), ("3.0", {"enum": ["5"]}, "5", "U", CO), ("3.0", {"enum": [5]}, "x", "F", CO), ("3.0", {"minimum": 10}, "5", "U", CO), ("3.0", {"minimum": 10}, "abc", "T", CO),
    ("3.0", {"not": {"type": "integer"}}, "5", "U", CO), ("3.0", {"not": {"type": "integer"}}, "x", "T", CO), ("3.1", {"type": ["integer", "string"]}, "5", "T", CO), ("3.1", {"type": ["integer", "string"], "minimum": 10}, "5", "U", CO),
    ("3.1", {"type": ["integer", "string"], "minimum": 10}, "x", "T", CO), ("3.1", {"type": ["integer", "boolean"]}, "x", "F", CO), ("3.0", {"$ref": "#/definitions/Pos"}, "0", "F", dict(R, **CO)), ("3.0", {"$ref": "#/definitions/Pos"}, "3", "T", dict(R, **CO)),
    ("3.0", {"type": "array", "items": {"type": "integer"}}, [1, 2], "T", CO), ("3.0", {"type": "array", "items": {"type": "integer"}}, ["1", "x"], "F", CO), ("3.0", {"type": "array", "items": {"type": "integer"}}, [], "U", CO),
    ("3.0", {"type": "array", "items": {"type": "string"}}, ["a,b"], "U", CO), ("3.0", {"type": "array", "items": {"type": "string"}, "minItems": 2}, ["a"], "F", CO), ("3.0", {"type": "array", "items": {"type": "string"}, "maxItems": 1}, ["a", "b"], "F", CO),
    ("3.0", {"type": "array", "items": {"type": "integer"}, "uniqueItems": True}, [1, 2], "U", CO), ("3.0", {"type": "array", "items": {"type": "integer"}, "uniqueItems": True}, [1, "x"], "F", CO), ("3.0", {"type": "integer"}, [1], "U", CO),
    ("3.0", {"type": "array"}, "5", "U", CO), ("3.0", {"type": "object"}, {"a": 1}, "U", CO), ("3.0", {"type": "array", "items": {"type": "integer"}}, [[1]], "U", CO), ("3.0", {"frob": 1}, "x", "U", CO),
]


def make_case(dialect, schema, value, expect="-", opts=None):
    opts = opts or {}
    b = bundle(schema, opts.get("root"), dialect)
    return {"defs": b["defs"], "schema": b["schema"], "value": encode_value(value, b["mults"]), "dir": opts.get("dir", "request"),
            "dia": dia(dialect), "mode": opts.get("mode", "valid"), "expect": expect}


_IDENT = re.compile(r"^[A-Za-z_][A-Za-z0-9_]*$")


def to_tla(x) -> str:
    if x is True:
        return "TRUE"
    if x is False:
        return "FALSE"
    if isinstance(x, int):
        return str(x)
    if isinstance(x, str):
        return json.dumps(x)
    if isinstance(x, list):
        return "<<" + ", ".join(to_tla(y) for y in x) + ">>"
    if isinstance(x, dict):
        if not x:
            return "<<>>"
        if all(_IDENT.match(k) for k in x):
            return "[" + ", ".join("%s |-> %s" % (k, to_tla(v)) for k, v in x.items()) + "]"
        return "(" + " @@ ".join("%s :> %s" % (json.dumps(k), to_tla(v)) for k, v in x.items()) + ")"
    raise TypeError(type(x))


def emit_cases() -> str:
    lines = ["--------------------------- MODULE OasSchemaCases ---------------------------",
             "(* GENERATED by `python -m harness.oas_selftest --emit` from the hand-written CATALOGUE (expected verdicts are",
             "   written from the standards, not computed).  One record per unit case of the oracle. *)",
             "EXTENDS Integers, Sequences, TLC", "Cases == <<"]
    cs = []
    for entry in CATALOGUE:
        c = make_case(*entry)
        src = json.dumps([entry[0], entry[1], repr(entry[2])], default=repr)[:150].replace("*)", "* )")
        cs.append("  (* %s *)\n  %s" % (src, to_tla(c)))
    lines.append(",\n".join(cs))
    lines += [">>", "============================================================================="]
    return "\n".join(lines) + "\n"


# ------------------------------------------------------------------------------------------------------------------
# 1. projection round trips
# ------------------------------------------------------------------------------------------------------------------
def projection_selftest() -> list[str]:
    bad = []
    vals = [None, True, False, 0, -1, 2**30, 2**30 + 1, -2**31, 2**64, 0.0, -0.0, 1.5, -2.5, 1e300, 1e-300, "", "a\x00\ud800\U0001F600",
            [], {}, [1, [2, {"a": None}]], {"k": {"": [True]}}, (1, 2)]
    for v in vals:
        e = encode_value(v, [2, 3])
        try:
            json.dumps(e, allow_nan=False)
        except Exception as exc:
            bad.append("not JSON-able: %r (%s)" % (v, exc))
        if "null" in json.dumps(e).replace('"null"', "") or re.search(r"\d\.\d", json.dumps(e).replace('"rep": "', "")) and False:
            bad.append("null/float leaked: %r" % (v,))
        d = decode_value(e)
        want = list(v) if isinstance(v, tuple) else v
        if d != want or (isinstance(want, float) and not isinstance(d, float)) or (type(want) is bool) != (type(d) is bool):
            bad.append("round trip: %r -> %r" % (v, d))
    for v in [float("nan"), float("inf"), b"x", {1: 2}, object(), {"a": {2, 3}}, 1 + 2j]:
        e = encode_value(v)
        if not (e.get("t") == "opaque" or (e.get("t") == "obj" and e["v"][0]["t"] == "opaque")):
            bad.append("not opaque: %r" % (v,))
    deep: list = []
    for _ in range(100):
        deep = [deep]
    if "opaque" not in json.dumps(encode_value(deep)):
        bad.append("deep nesting not cut")
    # floats / nulls must never reach TLC
    def leaks(e) -> bool:
        if e is None or isinstance(e, float):
            return True
        if isinstance(e, dict):
            return any(leaks(x) for x in e.values())
        if isinstance(e, list):
            return any(leaks(x) for x in e)
        return isinstance(e, int) and not isinstance(e, bool) and abs(e) > 2**31 - 1
    for v in vals:
        if leaks(encode_value(v, [2])):
            bad.append("null / float / big int leaked into the encoding of %r" % (v,))
    for p in ["^[a-z]+$", "[a-z]+", "^[0-9]{2,3}", "ab?c*$", "^\\.x[^a-c]{2,}$", "[a\\-z]", "a{3}", "^$", "", "[a-]x", "^\\$\\^"]:
        e = parse_pattern(p)
        if e["k"] != "cat" or parse_pattern(unparse_pattern(e)) != e:
            bad.append("pattern round trip: %r" % p)
    for p in ["(a)", "a|b", "\\d", ".", "a{2,1}", "a**", "a+?", "[z-a]", "[", "a{", "\\", 5, None, "a{99}"]:
        if parse_pattern(p)["k"] != "opaque":
            bad.append("pattern should be opaque: %r" % (p,))
    for d in ("2.0", "3.0", "3.1"):
        for entry in CATALOGUE:
            if entry[0] != d:
                continue
            e = encode_schema(entry[1], d)
            if leaks(e):
                bad.append("schema encoding leaks: %r" % (entry[1],))
            if '"opaque"' in json.dumps(e) or "ref" in json.dumps(e):
                continue
            if encode_schema(decode_schema(e, d), d) != e:
                bad.append("schema round trip (%s): %r -> %r" % (d, entry[1], decode_schema(e, d)))
    for odd in [None, 5, "x", [], {"type": 5}, {"type": []}, {"enum": []}, {"required": "a"}, {"properties": []}, {1: 2}, {"minimum": "1"},
                {"items": 5}, {"allOf": {}}, {"additionalProperties": 1}, {"format": 1}, {"readOnly": "yes"}, {"maxLength": True}]:
        if encode_schema(odd, "3.0").get("sk") != "opaque":
            bad.append("schema should be opaque: %r" % (odd,))
    return bad


# ------------------------------------------------------------------------------------------------------------------
# 3. differential test against jsonschema
# ------------------------------------------------------------------------------------------------------------------
PATS = ["^[a-z]+$", "[a-z]+", "^[0-9]{2,3}", "ab?c*$", "^[a-c]{2}$", "[0-9]$", "^a", "^[^a]+$", "b{2,}", "^a?b+c{1,2}$"]
FORMATS = ["uuid", "date", "date-time", "ipv4", "byte", "email", "uri-reference", "hostname", "regex", "int64"]
STR_POOL = ["", "a", "ab", "abc", "abcd", "1", "12", "123", "a1", "1a", "aab", "bb", "abcc", "ac", "b", "bbc", " ", "é", "A", "abbcc",
            UUID, UUID.upper(), UUID[:-2], "2020-02-29", "2021-02-29", "2020-12-31", "2020-1-01", "2020-01-01T10:20:30Z", "2020-01-01T10:20:30.5+01:00",
            "2020-01-01T25:00:00Z", "2020-06-31T00:00:00Z", "1.2.3.4", "1.2.3.256", "1.2.3", "300.1.1.1", "QUJD", "QUI=", "QQ==", "Q!==", "QQ=", "x@y.z"]


def ref_format(fmt: str, s: str):
    """python reference: True / False / None (reference itself not authoritative)."""
    try:
        if fmt == "date":
            if not re.fullmatch(r"[0-9]{4}-[0-9]{2}-[0-9]{2}", s):
                return False
            if s.startswith("0000"):
                return None
            datetime.date(int(s[:4]), int(s[5:7]), int(s[8:]))
            return True
        if fmt == "date-time":
            from rfc3339_validator import validate_rfc3339
            return bool(validate_rfc3339(s))
        if fmt == "uuid":
            return bool(re.fullmatch(r"[0-9a-fA-F]{8}(-[0-9a-fA-F]{4}){3}-[0-9a-fA-F]{12}", s))
        if fmt == "ipv4":
            ipaddress.IPv4Address(s)
            return bool(re.fullmatch(r"[0-9.]+", s))
        if fmt == "byte":
            if not re.fullmatch(r"[A-Za-z0-9+/=]*", s):
                return False
            base64.b64decode(s, validate=True)
            return True
        if fmt in EMPTY_OK:
            return True if s == "" else None
        if fmt in NON_EMPTY:
            return False if s == "" else None
    except ValueError:
        return False
    return True


EMPTY_OK = ("uri-reference", "iri-reference", "uri-template", "regex", "json-pointer")
NON_EMPTY = ("duration", "email", "hostname", "idn-email", "idn-hostname", "ipv6", "iri", "time", "uri", "relative-json-pointer")


def rnd_value(rng, d=0):
    r = rng.random()
    if r < .08:
        return None
    if r < .16:
        return rng.choice([True, False])
    if r < .34:
        return rng.randint(-2, 6)
    if r < .44:
        return rng.choice([0.5, 2.5, -1.5, 3.0, 0.0, 1e12, 2**40, -2**35, 4.0])
    if r < .70 or d > 1:
        return rng.choice(STR_POOL)
    if r < .85:
        return [rnd_value(rng, d + 1) for _ in range(rng.randint(0, 3))]
    return {rng.choice(["a", "b", "c"]): rnd_value(rng, d + 1) for _ in range(rng.randint(0, 3))}


def rnd_schema(rng, dialect, d=0):
    s: dict = {}
    r = rng.random()
    comb = ["allOf"] if dialect == "2.0" else ["allOf", "anyOf", "oneOf"]
    if d < 2 and r < .12:
        return {rng.choice(comb): [rnd_schema(rng, dialect, d + 1) for _ in range(rng.randint(1, 3))]}
    if d < 2 and r < .16 and dialect != "2.0":
        return {"not": rnd_schema(rng, dialect, d + 1)}
    if r < .21:
        return {"$ref": "#/definitions/" + rng.choice(["A", "B", "C"])}
    types = ["integer", "number", "string", "boolean", "array", "object"]
    if rng.random() < .85:
        if dialect == "3.1" and rng.random() < .3:
            s["type"] = rng.sample(types + ["null"], rng.randint(1, 3))
        else:
            s["type"] = rng.choice(types + (["null"] if dialect == "3.1" else []))
    if rng.random() < .15:
        s["enum"] = [rnd_value(rng, 1) for _ in range(rng.randint(1, 3))]
    if dialect == "3.1" and rng.random() < .06:
        s["const"] = rnd_value(rng, 1)
    t = s.get("type")
    ts = t if isinstance(t, list) else [t]
    if {"integer", "number"} & set(ts) or (t is None and rng.random() < .3):
        if dialect == "3.1":
            if rng.random() < .4:
                s[rng.choice(["minimum", "exclusiveMinimum"])] = rng.randint(-1, 3)
            if rng.random() < .4:
                s[rng.choice(["maximum", "exclusiveMaximum"])] = rng.randint(0, 5)
        else:
            if rng.random() < .5:
                s["minimum"] = rng.randint(-1, 3)
            if rng.random() < .5:
                s["maximum"] = rng.randint(0, 5)
            if rng.random() < .3:
                s["exclusiveMinimum"] = rng.random() < .8
            if rng.random() < .3:
                s["exclusiveMaximum"] = rng.random() < .8
        if rng.random() < .2:
            s["multipleOf"] = rng.randint(1, 3)
    if "string" in ts or (t is None and rng.random() < .3):
        if rng.random() < .4:
            s["minLength"] = rng.randint(0, 3)
        if rng.random() < .4:
            s["maxLength"] = rng.randint(0, 4)
        if rng.random() < .4:
            s["pattern"] = rng.choice(PATS)
        if rng.random() < .25:
            s["format"] = rng.choice(FORMATS)
    if "array" in ts and d < 2:
        if rng.random() < .6:
            s["items"] = rnd_schema(rng, dialect, d + 1)
        if rng.random() < .3:
            s["minItems"] = rng.randint(0, 2)
        if rng.random() < .3:
            s["maxItems"] = rng.randint(0, 3)
        if rng.random() < .3:
            s["uniqueItems"] = True
    if "object" in ts and d < 2:
        if rng.random() < .7:
            s["properties"] = {k: rnd_schema(rng, dialect, d + 1) for k in rng.sample(["a", "b", "c"], rng.randint(1, 2))}
            for k, ps in s["properties"].items():
                if rng.random() < .15 and "$ref" not in ps:
                    ps[rng.choice(["readOnly", "writeOnly"] if dialect != "2.0" else ["readOnly"])] = True
        if rng.random() < .5:
            s["required"] = rng.sample(["a", "b", "c"], rng.randint(1, 2))
        if rng.random() < .4:
            s["additionalProperties"] = rng.choice([False, True, rnd_schema(rng, dialect, d + 1)])
        if rng.random() < .2:
            s["minProperties"] = rng.randint(0, 2)
        if rng.random() < .2:
            s["maxProperties"] = rng.randint(0, 2)
    if rng.random() < .15 and "type" in s and not isinstance(s["type"], list):
        if dialect == "3.0":
            s["nullable"] = True
        elif dialect == "2.0":
            s["x-nullable"] = True
    return s


DEFS = {"A": {"type": "integer", "minimum": 1},
        "B": {"type": "object", "properties": {"a": {"$ref": "#/definitions/A"}, "n": {"$ref": "#/definitions/B"}}, "required": ["a"]},
        "C": {"type": "string", "readOnly": True}}


def to_reference(s, dialect, direction):
    """OpenAPI schema -> plain JSON Schema the way the *standard* reads it (nullable => anyOf null; readOnly/writeOnly by direction)."""
    if not isinstance(s, dict):
        return s
    if "$ref" in s:
        return {"$ref": s["$ref"]}
    forbidden = "readOnly" if direction == "request" else "writeOnly"
    o = {}
    for k, v in s.items():
        if k in ("nullable", "x-nullable", "readOnly", "writeOnly", "format"):
            continue
        if k in ("items", "not") or (k == "additionalProperties" and isinstance(v, dict)):
            o[k] = to_reference(v, dialect, direction)
        elif k in ("allOf", "anyOf", "oneOf"):
            o[k] = [to_reference(x, dialect, direction) for x in v]
        elif k == "properties":
            o[k] = {}
            for n, ps in v.items():
                tgt = DEFS[ps["$ref"].split("/")[-1]] if "$ref" in ps else ps
                if tgt.get(forbidden):
                    o[k][n] = {"not": {}}
                    if n in s.get("required", []):
                        o["required"] = [x for x in s["required"] if x != n]
                else:
                    o[k][n] = to_reference(ps, dialect, direction)
        elif k == "required":
            o.setdefault("required", list(v))
        else:
            o[k] = v
    if o.get("required") == []:
        del o["required"]
    if "format" in s:
        o["format"] = s["format"]
    if s.get("nullable") or s.get("x-nullable"):
        return {"anyOf": [o, {"type": "null"} if dialect == "3.1" else {"enum": [None]}]}
    return o


def differential(n: int, seed: int, work: str) -> tuple[int, int, int, list]:
    import jsonschema

    rng = random.Random(seed)
    checker = jsonschema.FormatChecker(formats=())
    unsure = object()
    for f in ("uuid", "date", "date-time", "ipv4", "byte") + EMPTY_OK + NON_EMPTY:
        def chk(x, f=f):
            if not isinstance(x, str):
                return True
            r = ref_format(f, x)
            if r is None:
                raise LookupError("reference unsure")
            return r
        checker.checks(f, raises=())(chk)
    cases, refs, srcs = [], [], []
    while len(cases) < n:
        dialect = rng.choice(["2.0", "3.0", "3.1"])
        direction = rng.choice(["request", "request", "response"])
        s = rnd_schema(rng, dialect)
        v = rnd_value(rng)
        root = {"definitions": DEFS}
        full = dict(to_reference(s, dialect, direction) if isinstance(s, dict) else s)
        full["definitions"] = {k: to_reference(x, dialect, direction) for k, x in DEFS.items()}
        cls = jsonschema.Draft202012Validator if dialect == "3.1" else jsonschema.Draft4Validator
        try:
            cls.check_schema(full)
            exp = cls(full, format_checker=checker).is_valid(v)
        except LookupError:
            continue
        except Exception:
            continue
        c = make_case(dialect, s, v, "T" if exp else "F", {"root": root, "dir": direction})
        cases.append(c)
        srcs.append((dialect, direction, s, v, exp))
    f = os.path.join(work, "diff.json")
    tlc.write_json(f, cases)
    res = tlc.require_ok(tlc.run_tlc("OasSchemaEval", "OasSchemaEval.cfg", env={"OBS_FILE": f}, timeout=1200), "differential eval")
    unknown = 0
    mismatches = []
    for p in res.prints:
        if isinstance(p, list) and p and p[0] == "R":
            if p[2] == "U":
                unknown += 1
            else:
                mismatches.append((p[2],) + srcs[p[1] - 1])
    return len(cases), unknown, res.distinct, mismatches


def main(argv=None) -> int:
    ap = argparse.ArgumentParser()
    ap.add_argument("--n", type=int, default=20000)
    ap.add_argument("--seed", type=int, default=int(os.environ.get("VERIF_SEED", "0") or 0))
    ap.add_argument("--emit", action="store_true", help="rewrite spec/OasSchemaCases.tla from CATALOGUE")
    args = ap.parse_args(argv)
    if args.emit:
        with open(os.path.join(SPEC, "OasSchemaCases.tla"), "w") as fd:
            fd.write(emit_cases())
        print("wrote OasSchemaCases.tla with %d cases" % len(CATALOGUE))
    rc = 0
    bad = projection_selftest()
    print("projection round trips: %s" % ("ok" if not bad else "FAILED"))
    for b in bad[:20]:
        print("  ", b)
        rc = 2
    if emit_cases() != open(os.path.join(SPEC, "OasSchemaCases.tla")).read():
        print("spec/OasSchemaCases.tla is stale (run with --emit)")
        rc = 2
    res = tlc.run_tlc("OasSchemaTest", "OasSchemaTest.cfg", timeout=900)
    fails = [p for p in res.prints if isinstance(p, list) and p and p[0] == "FAIL"]
    ok = res.ok and not res.violated and not fails
    print("OasSchemaTest (TLC): %s  cases=%d states=%d wall=%.1fs" % ("ok" if ok else "FAILED", len(CATALOGUE), res.distinct, res.wall_s))
    if not ok:
        rc = 2
        for p in fails[:30]:
            i = p[1]
            print("  case %d %r: oracle %s, expected %s" % (i, CATALOGUE[i - 1][:3], p[2], p[3]))
        if res.violated or not res.ok:
            print(res.error, res.violated)
            print("\n".join(res.raw.splitlines()[-25:]))
    work = tempfile.mkdtemp(prefix="verif-oas-")
    try:
        n, unknown, _, mism = differential(args.n, args.seed, work)
    finally:
        import shutil
        shutil.rmtree(work, ignore_errors=True)
    print("differential vs jsonschema: pairs=%d definite=%d unknown=%d (%.1f%%) mismatches=%d" % (
        n, n - unknown, unknown, 100.0 * unknown / max(1, n), len(mism)))
    for m in mism[:20]:
        print("   oracle=%s reference=%s dialect=%s dir=%s schema=%s value=%r" % (m[0], m[5], m[1], m[2], json.dumps(m[3]), m[4]))
    if mism or unknown > 0.25 * n:
        rc = 2
    print("oas_selftest", "ok" if rc == 0 else "FAILED")
    return rc


if __name__ == "__main__":
    sys.exit(main())
