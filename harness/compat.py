"""Harness-side compatibility shim (NOT a change to /repo).

On the installed Hypothesis (6.168) `RuleBasedStateMachine._add_result_to_targets` was replaced by
`_add_results_to_targets(targets, results)`. schemathesis 4.0.0a7 overrides only the old, singular name to route a step's output
into the bundle of the matching link, so on this Hypothesis the override is never called, every output lands in `catch_all`, the
per-link bundles stay empty and **no OpenAPI link is ever followed** in the stateful phase. None of the listed properties states
that links must be followed, so this is not reported as a finding; but every property that speaks about link-derived requests
(C10, C14, C07, C18-live) would be vacuous in live runs. `enable_links()` restores the routing the code intends by forwarding the
new method to the old override - it changes nothing else. Drivers that need link-derived traffic call it explicitly and say so in
their evidence (`assumptions`).
"""
from __future__ import annotations


def enable_links() -> bool:
    from hypothesis.stateful import RuleBasedStateMachine

    from schemathesis.generation.stateful.state_machine import APIStateMachine

    if not hasattr(RuleBasedStateMachine, "_add_results_to_targets"):
        return False  # old Hypothesis: the original override is live
    if getattr(APIStateMachine, "_verif_links_enabled", False):
        return True

    def _add_results_to_targets(self, targets, results):  # type: ignore[no-untyped-def]
        for result in results:
            if result is None:
                continue
            target = self._get_target_for_result(result)
            if target is not None:
                RuleBasedStateMachine._add_results_to_targets(self, (target,), [result])

    APIStateMachine._add_results_to_targets = _add_results_to_targets  # type: ignore[attr-defined]
    APIStateMachine._verif_links_enabled = True  # type: ignore[attr-defined]
    return True
