"""The one projection between python objects and the TLA+ encodings of spec/OasSchema.tla (DESIGN 3.1).

Total: no function here raises on odd input; whatever is not understood becomes an *opaque* node, which the oracle
answers with "U" (outside the fragment), never with a guess.

    encode_value(v, mults=())            python value  -> tagged record (JSON-able, no null / float / big int)
    decode_value(e)                      inverse on the non-opaque part (OPAQUE sentinel otherwise)
    encode_schema(s, dialect)            OpenAPI Schema Object (dict / bool) -> schema record; dialect "2.0" | "3.0" | "3.1"
    decode_schema(e, dialect)            schema record (e.g. one enumerated by TLC) -> OpenAPI Schema Object of that dialect
    encode_defs(root, dialect, refs)     resolve local "#/..." references (transitively) -> {ref string: schema record}
    bundle(schema, root, dialect)        {"schema": .., "defs": .., "mults": [..]}  ready for Valid(defs, schema, v, dir)
    parse_pattern(text) / unparse_pattern(p)   catalogue patterns <-> [k, as, ae, atoms]
    dia(dialect)                         "d4" | "2020"  (argument of ValidD)
    cps(text) / uncps(codepoints)
"""
from __future__ import annotations

import math
from typing import Any

MAXCLIP = 2**31 - 1
SMALL = 2**30
DIALECTS = ("2.0", "3.0", "3.1")


class _Opaque:
    def __repr__(self) -> str:
        return "OPAQUE"


OPAQUE = _Opaque()


def cps(s: str) -> list[int]:
    return [ord(c) for c in s]


def uncps(a: list[int]) -> str:
    return "".join(chr(c) for c in a)


def dia(dialect: str) -> str:
    return "2020" if dialect == "3.1" else "d4"


def opaque(why: str) -> dict:
    return {"t": "opaque", "why": str(why)[:40]}


def _clip(n: int) -> int:
    return max(-MAXCLIP, min(MAXCLIP, n))


# ------------------------------------------------------------------------------------------------ values
def encode_value(v: Any, mults: Any = (), _depth: int = 0) -> dict:
    try:
        return _enc_value(v, tuple(m for m in mults if isinstance(m, int) and not isinstance(m, bool) and m > 0), _depth)
    except Exception as exc:  # totality
        return opaque("error:" + type(exc).__name__)


def _enc_value(v: Any, mults: tuple, depth: int) -> dict:
    if depth > 24:
        return opaque("depth")
    if v is None:
        return {"t": "null"}
    if v is True or v is False:
        return {"t": "bool", "v": bool(v)}
    if type(v) is int:
        if abs(v) <= SMALL:
            return {"t": "int", "v": v}
        return {"t": "num", "isInt": True, "isFloat": False, "lo": _clip(v), "hi": _clip(v),
                "res": [[m, v % m] for m in mults], "rep": str(v), "txt": cps(str(v))}
    if type(v) is float:
        if math.isnan(v) or math.isinf(v):
            return opaque("non-finite")
        if v.is_integer():
            n = int(v)
            return {"t": "num", "isInt": True, "isFloat": True, "lo": _clip(n), "hi": _clip(n),
                    "res": [[m, n % m] for m in mults], "rep": str(n), "txt": cps(str(v))}
        return {"t": "num", "isInt": False, "isFloat": True, "lo": _clip(math.floor(v)), "hi": _clip(math.ceil(v)),
                "res": [], "rep": repr(v), "txt": cps(str(v))}
    if type(v) is str:
        return {"t": "str", "v": cps(v)}
    if type(v) in (list, tuple):
        return {"t": "arr", "v": [_enc_value(x, mults, depth + 1) for x in v]}
    if type(v) is dict:
        if not all(type(k) is str for k in v):
            return opaque("non-string key")
        return {"t": "obj", "k": [cps(k) for k in v], "v": [_enc_value(x, mults, depth + 1) for x in v.values()]}
    return opaque(type(v).__name__)


def decode_value(e: Any) -> Any:
    try:
        t = e["t"]
        if t == "null":
            return None
        if t == "bool":
            return bool(e["v"])
        if t == "int":
            return int(e["v"])
        if t == "num":
            if e.get("isFloat", True):
                return float(e["rep"])
            return int(e["rep"])
        if t == "str":
            return uncps(e["v"])
        if t == "arr":
            return [decode_value(x) for x in e["v"]]
        if t == "obj":
            return {uncps(k): decode_value(x) for k, x in zip(e["k"], e["v"])}
    except Exception:
        pass
    return OPAQUE


def has_opaque(e: Any) -> bool:
    if isinstance(e, dict):
        if e.get("t") == "opaque" or e.get("sk") == "opaque" or e.get("k") == "opaque":
            return True
        return any(has_opaque(x) for x in e.values())
    if isinstance(e, list):
        return any(has_opaque(x) for x in e)
    return False


# ------------------------------------------------------------------------------------------------ patterns
_SPECIAL = set(".^$*+?()[]{}|\\")
_ESC_LITERAL = set(".^$*+?()[]{}|\\/-")
MAXREP = 40


def parse_pattern(p: Any) -> dict:
    """Concatenation of quantified character classes / literals with optional ^ and $ anchors; everything else is opaque."""
    try:
        r = _parse_pattern(p)
    except Exception:
        r = None
    return r if r is not None else {"k": "opaque"}


def _parse_pattern(p: Any):
    if type(p) is not str or any(ord(c) > 0xFFFF or ord(c) < 32 for c in p):
        return None
    i, n = 0, len(p)
    a_s = a_e = False
    atoms: list[dict] = []
    if i < n and p[i] == "^":
        a_s = True
        i += 1
    while i < n:
        c = p[i]
        if c == "$" and i == n - 1:
            a_e = True
            i += 1
            break
        if c == "[":
            i += 1
            neg = False
            if i < n and p[i] == "^":
                neg = True
                i += 1
            items: list[int] = []
            first = True
            while True:
                if i >= n:
                    return None
                c = p[i]
                if c == "]" and not first:
                    i += 1
                    break
                first = False
                if c == "\\":
                    if i + 1 >= n or p[i + 1] not in _ESC_LITERAL:
                        return None
                    items.append(ord(p[i + 1]))
                    i += 2
                elif c in "[]":
                    return None
                else:
                    items.append(-1 if c == "-" else ord(c))
                    i += 1
            # fold "a - z" triples (a literal '-' is only accepted escaped, first or last)
            rng: list[list[int]] = []
            j = 0
            while j < len(items):
                if items[j] == -1:
                    if j == 0 or j == len(items) - 1:
                        rng.append([45, 45])
                        j += 1
                        continue
                    return None
                if j + 2 < len(items) and items[j + 1] == -1 and items[j + 2] != -1:
                    if items[j + 2] < items[j]:
                        return None
                    rng.append([items[j], items[j + 2]])
                    j += 3
                else:
                    rng.append([items[j], items[j]])
                    j += 1
            if not rng:
                return None
            atom = {"cls": rng, "neg": neg, "min": 1, "max": 1}
        elif c == "\\":
            if i + 1 >= n or p[i + 1] not in _ESC_LITERAL:
                return None
            atom = {"cls": [[ord(p[i + 1])] * 2], "neg": False, "min": 1, "max": 1}
            i += 2
        elif c in _SPECIAL:
            return None
        else:
            atom = {"cls": [[ord(c)] * 2], "neg": False, "min": 1, "max": 1}
            i += 1
        # quantifier
        if i < n and p[i] in "*+?":
            atom["min"], atom["max"] = {"*": (0, -1), "+": (1, -1), "?": (0, 1)}[p[i]]
            i += 1
        elif i < n and p[i] == "{":
            j = p.find("}", i)
            if j < 0:
                return None
            body = p[i + 1:j]
            lo, sep, hi = body.partition(",")
            if not lo.isascii() or not lo.isdigit() or (hi and (not hi.isascii() or not hi.isdigit())):
                return None
            atom["min"] = int(lo)
            atom["max"] = int(lo) if not sep else (int(hi) if hi else -1)
            if atom["min"] > MAXREP or atom["max"] > MAXREP or (atom["max"] != -1 and atom["max"] < atom["min"]):
                return None
            i = j + 1
        if i < n and p[i] in "*+?{":  # lazy / possessive / stacked quantifiers
            return None
        atoms.append(atom)
    if i != n or len(atoms) > 8:
        return None
    return {"k": "cat", "as": a_s, "ae": a_e, "atoms": atoms}


def unparse_pattern(e: dict) -> str:
    if e.get("k") != "cat":  # a pattern outside the catalogue, carried verbatim by the family (the oracle answers "U" for it)
        return uncps(e.get("src", []))
    def ch(c: int, in_class: bool) -> str:
        x = chr(c)
        if (in_class and x in "-]^\\[") or (not in_class and x in _SPECIAL):
            return "\\" + x
        return x

    out = "^" if e.get("as") else ""
    for a in e["atoms"]:
        cls = a["cls"]
        if not a.get("neg") and len(cls) == 1 and cls[0][0] == cls[0][1]:
            out += ch(cls[0][0], False)
        else:
            out += "[" + ("^" if a.get("neg") else "") + "".join(
                ch(lo, True) if lo == hi else ch(lo, True) + "-" + ch(hi, True) for lo, hi in cls) + "]"
        mn, mx = a["min"], a["max"]
        if (mn, mx) == (1, 1):
            pass
        elif (mn, mx) == (0, -1):
            out += "*"
        elif (mn, mx) == (1, -1):
            out += "+"
        elif (mn, mx) == (0, 1):
            out += "?"
        elif mx == -1:
            out += "{%d,}" % mn
        elif mn == mx:
            out += "{%d}" % mn
        else:
            out += "{%d,%d}" % (mn, mx)
    return out + ("$" if e.get("ae") else "")


# ------------------------------------------------------------------------------------------------ schemas
_ANNOTATIONS = {"title", "description", "default", "example", "examples", "deprecated", "externalDocs", "xml",
                "discriminator", "$comment", "$schema", "$id", "id", "definitions", "$defs", "contentMediaType",
                "contentEncoding"}
_TYPES = {"integer", "number", "string", "boolean", "array", "object"}
_NAT_KEYS = ("minLength", "maxLength", "minItems", "maxItems", "minProperties", "maxProperties")
_SUB_LISTS = ("allOf", "anyOf", "oneOf")
S_OPAQUE = {"sk": "opaque"}


def _as_int(x: Any):
    """Integer constants only (|c| <= 2^30); 3.0 is read as 3; anything else is outside the fragment."""
    if type(x) is int and abs(x) <= SMALL:
        return x
    if type(x) is float and x.is_integer() and abs(x) <= SMALL:
        return int(x)
    return None


def encode_schema(s: Any, dialect: str = "3.0", _depth: int = 0) -> dict:
    try:
        return _enc_schema(s, dialect, _depth)
    except Exception:
        return dict(S_OPAQUE)


def _enc_schema(s: Any, d: str, depth: int) -> dict:
    if depth > 16 or d not in DIALECTS:
        return dict(S_OPAQUE)
    if s is True or s is False:
        return {"sk": "true" if s else "false"} if d == "3.1" else dict(S_OPAQUE)
    if type(s) is not dict:
        return dict(S_OPAQUE)
    keys = {k for k in s if not (k in _ANNOTATIONS or (type(k) is str and k.startswith("x-") and k != "x-nullable"))}
    if not all(type(k) is str for k in keys):
        return dict(S_OPAQUE)
    out: dict = {"sk": "schema"}
    if "$ref" in keys:
        if keys != {"$ref"} or type(s["$ref"]) is not str or not s["$ref"].startswith("#/"):
            return dict(S_OPAQUE)
        out["ref"] = s["$ref"]
        return out
    sub = lambda x: _enc_schema(x, d, depth + 1)  # noqa: E731
    for k in sorted(keys):
        v = s[k]
        if k == "type":
            ts = [v] if type(v) is str else v if (type(v) is list and d == "3.1" and v) else None
            allowed = _TYPES | ({"null"} if d == "3.1" else set())
            if ts is None or not all(type(t) is str and t in allowed for t in ts) or len(set(ts)) != len(ts):
                return dict(S_OPAQUE)
            out["type"] = list(ts)
        elif k == "enum":
            if type(v) is not list or not v:
                return dict(S_OPAQUE)
            out["enum"] = [encode_value(x) for x in v]
        elif k == "const" and d == "3.1":
            out["const"] = encode_value(v)
        elif k in ("minimum", "maximum", "multipleOf"):
            c = _as_int(v)
            if c is None or (k == "multipleOf" and c <= 0):
                return dict(S_OPAQUE)
            out[k] = c
        elif k in ("exclusiveMinimum", "exclusiveMaximum"):
            short = "Min" if k.endswith("Minimum") else "Max"
            if d == "3.1":
                c = _as_int(v)
                if c is None:
                    return dict(S_OPAQUE)
                out["x" + short] = c
            else:
                if v is not True and v is not False:
                    return dict(S_OPAQUE)
                out["excl" + short] = v
        elif k in _NAT_KEYS:
            c = _as_int(v)
            if c is None or c < 0 or type(v) is bool:
                return dict(S_OPAQUE)
            out[k] = c
        elif k == "pattern":
            out["pattern"] = parse_pattern(v)
        elif k == "format":
            if type(v) is not str:
                return dict(S_OPAQUE)
            out["format"] = v
        elif k == "items":
            if type(v) is dict or (d == "3.1" and type(v) is bool):
                out["items"] = sub(v)
            else:
                return dict(S_OPAQUE)
        elif k in ("uniqueItems", "readOnly") or (k == "writeOnly" and d != "2.0"):
            if v is not True and v is not False:
                return dict(S_OPAQUE)
            out[k] = v
        elif (k == "nullable" and d == "3.0") or (k == "x-nullable" and d == "2.0"):
            if v is not True and v is not False:
                return dict(S_OPAQUE)
            out["nullable"] = v
        elif k == "properties":
            if type(v) is not dict or not all(type(n) is str for n in v):
                return dict(S_OPAQUE)
            out["props"] = {"k": [cps(n) for n in v], "v": [sub(x) for x in v.values()]}
        elif k == "required":
            if type(v) is not list or not all(type(n) is str for n in v):
                return dict(S_OPAQUE)
            out["required"] = [cps(n) for n in v]
        elif k == "additionalProperties":
            if v is True or v is False:
                out["addProps"] = {"sk": "true" if v else "false"}
            elif type(v) is dict:
                out["addProps"] = sub(v)
            else:
                return dict(S_OPAQUE)
        elif k == "allOf" or (k in ("anyOf", "oneOf") and d != "2.0"):
            if type(v) is not list or not v:
                return dict(S_OPAQUE)
            out[k] = [sub(x) for x in v]
        elif k == "not" and d != "2.0":
            out["not"] = sub(v)
        else:  # unknown keyword, or one that does not belong to this dialect
            return dict(S_OPAQUE)
    for b in ("exclMin", "exclMax", "uniqueItems", "readOnly", "writeOnly", "nullable"):
        if out.get(b) is False:
            del out[b]
    return out


def decode_schema(e: Any, dialect: str = "3.0") -> Any:
    """Schema record -> OpenAPI Schema Object written in `dialect` (nullable is spelled the dialect's way)."""
    sk = e.get("sk")
    if sk in ("true", "false"):
        return sk == "true"
    if sk != "schema":
        return {"x-verif-opaque": True, "unknownKeyword-verif": 1}
    if "ref" in e:
        return {"$ref": e["ref"]}
    sub = lambda x: decode_schema(x, dialect)  # noqa: E731
    o: dict = {}
    for k, v in e.items():
        if k == "sk":
            continue
        if k == "type":
            o["type"] = v[0] if len(v) == 1 else list(v)
        elif k == "enum":
            o["enum"] = [decode_value(x) for x in v]
        elif k == "const":
            o["const"] = decode_value(v)
        elif k in ("minimum", "maximum", "multipleOf", "format", "uniqueItems", "readOnly", "writeOnly") or k in _NAT_KEYS:
            o[k] = v
        elif k in ("exclMin", "exclMax"):  # draft-4 spelling; 3.1 spells the same constraint numerically
            base = "minimum" if k == "exclMin" else "maximum"
            if dialect == "3.1":
                if v and base in e:
                    o["exclusive" + base.capitalize()] = e[base]
            else:
                o["exclusive" + base.capitalize()] = v
        elif k in ("xMin", "xMax"):
            base = "minimum" if k == "xMin" else "maximum"
            if dialect == "3.1":
                o["exclusive" + base.capitalize()] = v
            elif base in e:
                return {"x-verif-opaque": True, "unknownKeyword-verif": 1}
            else:
                o[base] = v
                o["exclusive" + base.capitalize()] = True
        elif k == "pattern":
            o["pattern"] = unparse_pattern(v)
        elif k in ("items", "not"):
            o[k] = sub(v)
        elif k in ("example", "default"):       # author-provided values: annotations for the oracle, input for the generators
            o[k] = decode_value(v)
        elif k == "examples":
            o[k] = [decode_value(x) for x in v]
        elif k == "props":
            o["properties"] = {uncps(n): sub(x) for n, x in zip(v["k"], v["v"])}
        elif k == "required":
            o["required"] = [uncps(n) for n in v]
        elif k == "addProps":
            o["additionalProperties"] = sub(v)
        elif k in _SUB_LISTS:
            o[k] = [sub(x) for x in v]
    if dialect == "3.1":
        for base, k in (("minimum", "exclMin"), ("maximum", "exclMax")):
            if e.get(k) and base in o:
                del o[base]
    if e.get("nullable") is False:      # the default spelled out (3.1 has no such keyword)
        if dialect == "3.0":
            o["nullable"] = False
        elif dialect == "2.0":
            o["x-nullable"] = False
    if e.get("nullable"):
        if dialect == "3.0":
            o["nullable"] = True
        elif dialect == "2.0":
            o["x-nullable"] = True
        elif "type" in o:
            o["type"] = ([o["type"]] if isinstance(o["type"], str) else list(o["type"])) + ["null"]
    return o


# ------------------------------------------------------------------------------------------------ references
def _resolve_pointer(root: Any, ref: str) -> Any:
    cur = root
    for tok in ref[2:].split("/"):
        tok = tok.replace("~1", "/").replace("~0", "~")
        if isinstance(cur, dict) and tok in cur:
            cur = cur[tok]
        elif isinstance(cur, list) and tok.isdigit() and int(tok) < len(cur):
            cur = cur[int(tok)]
        else:
            raise KeyError(ref)
    return cur


def _refs(e: Any, guarded: bool, out: list) -> None:
    """(ref, guarded?) pairs; a reference is guarded when it sits below properties / items / additionalProperties."""
    if isinstance(e, dict):
        if e.get("sk") == "schema" and "ref" in e:
            out.append((e["ref"], guarded))
        for k, v in e.items():
            if k in ("enum", "const", "pattern"):
                continue
            _refs(v, guarded or k in ("props", "items", "addProps"), out)
    elif isinstance(e, list):
        for x in e:
            _refs(x, guarded, out)


def encode_defs(root: Any, dialect: str, start: Any) -> dict:
    defs: dict = {}
    todo = list(start)
    edges: dict = {}
    while todo:
        r = todo.pop()
        if r in defs:
            continue
        try:
            defs[r] = encode_schema(_resolve_pointer(root, r), dialect)
        except Exception:
            defs[r] = dict(S_OPAQUE)
        found: list = []
        _refs(defs[r], False, found)
        edges[r] = {x for x, g in found if not g}
        todo.extend(x for x, _ in found)
    # a reference cycle that never passes through a property / item cannot be unfolded by a bounded evaluator
    for r in list(defs):
        seen, stack = set(), list(edges.get(r, ()))
        while stack:
            x = stack.pop()
            if x == r:
                defs[r] = dict(S_OPAQUE)
                break
            if x not in seen:
                seen.add(x)
                stack.extend(edges.get(x, ()))
    defs["nodefs"] = dict(S_OPAQUE)  # TLC: a record needs at least one field
    return defs


def multiples(*encs: Any) -> list[int]:
    out: set = set()

    def walk(e: Any) -> None:
        if isinstance(e, dict):
            if e.get("sk") == "schema" and type(e.get("multipleOf")) is int:
                out.add(e["multipleOf"])
            for k, v in e.items():
                if k not in ("enum", "const", "pattern"):
                    walk(v)
        elif isinstance(e, list):
            for x in e:
                walk(x)

    for e in encs:
        walk(e)
    return sorted(out)


def bundle(schema: Any, root: Any = None, dialect: str = "3.0") -> dict:
    enc = encode_schema(schema, dialect)
    found: list = []
    _refs(enc, False, found)
    defs = encode_defs(root if root is not None else {}, dialect, [r for r, _ in found])
    return {"schema": enc, "defs": defs, "mults": multiples(enc, defs)}
