"""C02 - negative-mode test data really violates the schema and is labelled so.

Same descriptor family and drawing machinery as C01 (spec/GenData.tla family "c02", harness/c01.py), with
`generation_mode=NEGATIVE` under modes [negative] and [positive, negative]; SkipTest / Unsatisfiable are outcomes.
Every drawn case is judged by GenDataJudge (C02_Case: case negative, >= 1 part negative, each negative part present and
not conforming, each positive part conforming) and every per-descriptor outcome by C02_Outcome (negatable => cases,
nothing to negate => skipped; asserted only where negatability is unambiguous).

Group "exclusive-bound" (family c02 only): numeric request bodies with exclusiveMinimum / exclusiveMaximum switched on (draft-4 boolean
spelling in 2.0 / 3.0, numeric in 3.1).  Values inside the open interval conform under the operation's dialect and are reached only through
rare mutation choices, so the family marks these descriptors cfg.draws = "wide" and the driver takes 300 (quick) / 400 (thorough) draws each.
"""
from __future__ import annotations

from typing import Any

from . import common
from .c01 import kw_detail, part_detail, replay_property, run_property, selftest_cases
from .c03 import features, judge, primary
from .common import Ctx, Outcome


def _only_given(c: Any, part: str) -> bool:
    """The part consists only of keys the caller supplied explicitly (nothing in it was generated)."""
    if not c or part == "body" or c["parts"][part].get("t") != "obj":
        return False
    return all(k in c.get("given", {}).get(part, []) for k in c["parts"][part]["k"])


def signature(rule: str, detail: Any, desc: dict, c: Any = None) -> str:
    parts = part_detail(detail)
    cls = lambda names: "+".join(sorted({"body" if n == "body" else "param" for n in names})) or "-"  # noqa: E731
    if rule == "part-absent-but-labelled":
        return "C02:part-absent-but-labelled"
    if rule == "valid-labelled-negative":
        mislabelled = [t[0] for t in parts if t[1] == "T" and t[2] == "negative"]
        if mislabelled and all(_only_given(c, p_) for p_ in mislabelled):
            return "C02:valid-labelled-negative:only-explicit-values"
        # an exclusive bound on the mislabelled part's own schema is its own input class (the not-valid filter has to read it in the dialect)
        own = {"bodies": desc.get("bodies")} if mislabelled == ["body"] else {"params": [p for p in desc.get("params", []) if p["loc"] in mislabelled]}
        excl = sorted(f for f in features(dict(own, dialect=desc["dialect"])) if f.startswith("exclusive-"))
        return "C02:valid-labelled-negative:%s%s" % (cls(mislabelled), ":" + excl[0] if excl else "")
    if rule == "invalid-labelled-positive":
        kws = sorted({k for ks in kw_detail(detail).values() for k in ks})
        return "C02:invalid-labelled-positive:%s:{%s}:%s" % (cls(t[0] for t in parts if t[1] == "F" and t[2] == "positive"), ",".join(kws), primary(features(desc)))
    if rule in ("negatable-but-no-cases", "not-negatable-not-skipped"):
        # string-typed path parameters are where negative generation gives up: key the class by their type / format
        path = sorted({"string" + ("/" + p["schema"]["format"] if "format" in p["schema"] else "") + ("+constraints" if set(p["schema"]) - {"sk", "type", "format"} else "")
                       for p in desc.get("params", []) if p["loc"] == "path" and p["schema"].get("type") == ["string"]})
        if path:
            return "C02:%s:path:%s" % (rule, "+".join(path))
        return "C02:%s:%s" % (rule, primary(features(desc)))
    return "C02:%s" % rule


def run(ctx: Ctx) -> Outcome:
    n = 8 if ctx.quick else 15
    wide = 300 if ctx.quick else 400
    counter = [0]

    def jobs_for(d: dict) -> list[dict]:
        if (d.get("cfg") or {}).get("draws") == "wide":      # the family marks descriptors whose property hinges on rare mutation choices
            return [{"desc": d, "mode": "negative", "modes": ["negative"], "n": wide, "seed": ctx.seed}]
        jobs = [{"desc": d, "mode": "negative", "modes": ["negative"], "n": n, "seed": ctx.seed}]
        counter[0] += 1
        if counter[0] % 3 == 0:      # the second mode list for every 3rd descriptor (negative draws cost ~80 ms each)
            jobs.append({"desc": d, "mode": "negative", "modes": ["positive", "negative"], "n": n, "seed": ctx.seed})
        return jobs

    return run_property(ctx, "C02", "c02", jobs_for, str(n), signature,
                        "every operation descriptor reachable in GenData.tla family c02 (TLC-enumerated) x modes {[negative], [positive, negative]} x "
                        "%d seeded Hypothesis draws from as_strategy(NEGATIVE) (%d for the descriptors the family marks cfg.draws = wide: numeric bodies "
                        "with exclusive bounds, modes [negative]; mutation choices are drawn, not enumerated); every distinct drawn case "
                        "and every outcome (cases / skipped / unsat) is judged; non-trivial = some present part got a definite verdict" % (n, wide))


def replay(ctx: Ctx, data: dict) -> Outcome:
    return replay_property(ctx, "C02", data, signature)


def selftest(ctx: Ctx) -> bool:
    """Binding: corrupted labels / values must be rejected by the TLA+ judge with the right rule, faithful ones accepted."""
    op, case = selftest_cases()
    nothing = dict(op, params=[], bodies=[dict(op["bodies"][0], schema={"sk": "schema"})])
    obs = [case("C02", "negative", "ABCD", {"b": "x"}, qlabel="negative"),                       # 1 faithful: query violates
           case("C02", "negative", "abc", {"b": 5}, blabel="negative"),                          # 2 faithful: body violates
           case("C02", "positive", "ABCD", {"b": "x"}, qlabel="negative"),                       # 3 case label
           case("C02", "negative", "ABCD", {"b": "x"}),                                          # 4 no part labelled negative
           case("C02", "negative", "abc", {"b": "x"}, qlabel="negative"),                        # 5 valid part labelled negative
           case("C02", "negative", "ABCD", {"b": 5}, qlabel="negative"),                         # 6 invalid part labelled positive
           case("C02", "negative", "ABCD", {"b": "x"}, qlabel="negative", others="negative"),    # 7 absent parts labelled negative
           {"kind": "outcome", "prop": "C02", "opi": 1, "outcome": "skipped", "negOnly": True},  # 8 negatable but skipped
           {"kind": "outcome", "prop": "C02", "opi": 2, "outcome": "skipped", "negOnly": True},  # 9 fine: nothing to negate
           {"kind": "outcome", "prop": "C02", "opi": 2, "outcome": "cases", "negOnly": True}]    # 10 nothing to negate but cases
    dis, _, _ = judge(ctx, [], [op, nothing], obs, name="selftest.json")
    got = {i: dis[i][0] for i in dis}
    want = {3: ["case-not-labelled-negative"], 4: ["invalid-labelled-positive", "no-present-part-labelled-negative"], 5: ["valid-labelled-negative"],
            6: ["invalid-labelled-positive"], 7: ["part-absent-but-labelled"], 8: ["negatable-but-no-cases"], 10: ["not-negatable-not-skipped"]}
    if got != want:
        print("selftest: judge said", got, "expected", want)
    return got == want


def main(argv=None) -> int:
    return common.main("C02", run, replay, selftest, argv)
