"""Thin, total wrapper around TLC (tla2tools 1.8) used by every check.

* runs `java ... tlc2.TLC` with a private metadir (removed afterwards) and an outer timeout;
* parses the summary ("N states generated, M distinct states found"), invariant violations, errors and
  `PrintT` lines (bracket matched, so 16-worker interleaving is harmless as long as each PrintT is one line);
* never turns a machinery failure into a verdict: `TLCResult.ok` is False when TLC crashed / timed out / failed to parse.
"""
from __future__ import annotations

import json
import os
import re
import shutil
import subprocess
import tempfile
import time
from dataclasses import dataclass, field
from typing import Any

JAR = "/opt/veriftools/tla/tla2tools.jar:/opt/veriftools/tla/CommunityModules-deps.jar"
SPEC_DIR = os.path.join(os.path.dirname(os.path.dirname(os.path.abspath(__file__))), "spec")


class TLCFailure(RuntimeError):
    """Machinery failure (exit code 2 of a check), never a VIOLATION."""


@dataclass
class TLCResult:
    ok: bool
    generated: int = 0
    distinct: int = 0
    depth: int = 0
    violated: list[str] = field(default_factory=list)  # names of violated invariants / properties
    prints: list[Any] = field(default_factory=list)  # parsed PrintT values (python objects)
    coverage: dict[str, int] = field(default_factory=dict)  # action name -> times taken (when -coverage)
    raw: str = ""
    wall_s: float = 0.0
    error: str = ""
    counterexample: list[str] = field(default_factory=list)


# ---------------------------------------------------------------------------------------------------
# TLA+ value parser for what PrintT prints: ints, strings, booleans, tuples <<..>>, sets {..},
# records [a |-> 1, ...], functions (a :> 1 @@ b :> 2).
# ---------------------------------------------------------------------------------------------------
class _P:
    def __init__(self, s: str):
        self.s = s
        self.i = 0

    def ws(self) -> None:
        while self.i < len(self.s) and self.s[self.i] in " \t\r\n":
            self.i += 1

    def peek(self, n: int = 1) -> str:
        return self.s[self.i : self.i + n]

    def value(self) -> Any:
        self.ws()
        c = self.peek()
        if self.peek(2) == "<<":
            self.i += 2
            out = []
            self.ws()
            if self.peek(2) == ">>":
                self.i += 2
                return out
            while True:
                out.append(self.value())
                self.ws()
                if self.peek(2) == ">>":
                    self.i += 2
                    return out
                self._expect(",")
        if c == "{":
            self.i += 1
            out = []
            self.ws()
            if self.peek() == "}":
                self.i += 1
                return {"$set": out}
            while True:
                out.append(self.value())
                self.ws()
                if self.peek() == "}":
                    self.i += 1
                    return {"$set": out}
                self._expect(",")
        if c == "[":
            self.i += 1
            rec = {}
            while True:
                self.ws()
                m = re.compile(r"[A-Za-z_][A-Za-z0-9_]*").match(self.s, self.i)
                if not m:
                    raise ValueError("record field expected at %d" % self.i)
                self.i = m.end()
                self.ws()
                self._expect("|->")
                rec[m.group(0)] = self.value()
                self.ws()
                if self.peek() == "]":
                    self.i += 1
                    return rec
                self._expect(",")
        if c == "(":
            self.i += 1
            fn = []
            while True:
                k = self.value()
                self.ws()
                self._expect(":>")
                v = self.value()
                fn.append([k, v])
                self.ws()
                if self.peek() == ")":
                    self.i += 1
                    return {"$fn": fn}
                self._expect("@@")
        if c == '"':
            j = self.i + 1
            buf = []
            while self.s[j] != '"':
                if self.s[j] == "\\":
                    j += 1
                    buf.append({"n": "\n", "t": "\t", "r": "\r", "f": "\f"}.get(self.s[j], self.s[j]))
                else:
                    buf.append(self.s[j])
                j += 1
            self.i = j + 1
            return "".join(buf)
        m = re.compile(r"-?\d+").match(self.s, self.i)
        if m:
            self.i = m.end()
            return int(m.group(0))
        m = re.compile(r"[A-Za-z_][A-Za-z0-9_]*").match(self.s, self.i)
        if m:
            self.i = m.end()
            w = m.group(0)
            return True if w == "TRUE" else False if w == "FALSE" else {"$id": w}
        raise ValueError("unexpected %r at %d" % (self.s[self.i : self.i + 10], self.i))

    def _expect(self, tok: str) -> None:
        self.ws()
        if self.peek(len(tok)) != tok:
            raise ValueError("expected %r at %d: %r" % (tok, self.i, self.s[self.i : self.i + 20]))
        self.i += len(tok)


def _balanced(text: str) -> bool:
    depth = 0
    in_str = False
    i = 0
    while i < len(text):
        c = text[i]
        if in_str:
            if c == "\\":
                i += 1
            elif c == '"':
                in_str = False
        elif c == '"':
            in_str = True
        elif text.startswith("<<", i):
            depth += 1
            i += 1
        elif text.startswith(">>", i):
            depth -= 1
            i += 1
        elif c in "[{(":
            depth += 1
        elif c in "]})":
            depth -= 1
        i += 1
    return depth <= 0 and not in_str


def parse_value(text: str) -> Any:
    p = _P(text)
    v = p.value()
    p.ws()
    if p.i != len(p.s):
        raise ValueError("trailing text")
    return v


_JSONLINE = re.compile(r'^<<"(\w+)", (".*")>>\s*$')
_SUMMARY = re.compile(r"^(\d+) states generated, (\d+) distinct states found")
_DEPTH = re.compile(r"The depth of the complete state graph search is (\d+)")
_INV = re.compile(r"Error: Invariant (\S+) is violated")
_PROP = re.compile(r"Error: (?:Action property|Temporal propert(?:y|ies)) ?(.*?) ?(?:is|was|were) violated")
_COV = re.compile(r"^<(\w+) line \d+, col \d+ to line \d+, col \d+ of module (\w+)>: (\d+):(\d+)")


def _sweep_stale_metadirs() -> None:
    """TLC state directories of checks that were killed (OOM, timeout of an outer harness) are never cleaned by their owner:
    remove those whose owning process is gone (the pid is part of the directory name)."""
    base = tempfile.gettempdir()
    try:
        names = os.listdir(base)
    except OSError:
        return
    for name in names:
        m = re.match(r"verif-tlc-(\d+)-", name)
        if not m:
            continue
        if not os.path.exists("/proc/%s" % m.group(1)):
            shutil.rmtree(os.path.join(base, name), ignore_errors=True)


def run_tlc(
    module: str,
    cfg: str,
    *,
    spec_dir: str = SPEC_DIR,
    workers: int | str = 16,
    env: dict[str, str] | None = None,
    timeout: int = 600,
    simulate: str | None = None,
    depth: int | None = None,
    seed: int | None = None,
    coverage: bool = False,
    extra: list[str] | None = None,
    xss: str = "64m",
    heap: str | None = None,
    dfs_queue: bool = False,
    want_prints: bool = True,
    cwd: str | None = None,
    on_json: Any = None,
) -> TLCResult:
    """Run TLC on spec_dir/module.tla with spec_dir/cfg. Returns a TLCResult; raises nothing for TLC-level errors."""
    _sweep_stale_metadirs()
    meta = tempfile.mkdtemp(prefix="verif-tlc-%d-" % os.getpid())
    cmd = ["java", "-XX:+UseParallelGC", "-Xss" + xss, "-Djava.io.tmpdir=" + meta]   # TLC's own tlc-<n> temp dirs go away with the metadir
    if heap:
        cmd.append("-Xmx" + heap)
    if dfs_queue:
        cmd.append("-Dtlc2.tool.queue.IStateQueue=StateDeque")
    cmd += ["-cp", JAR, "tlc2.TLC", "-metadir", meta, "-noGenerateSpecTE", "-workers", str(workers)]
    cmd += ["-config", cfg]
    if simulate is not None:
        cmd += ["-simulate", simulate]
    if depth is not None:
        cmd += ["-depth", str(depth)]
    if seed is not None:
        cmd += ["-seed", str(seed)]
    if coverage:
        cmd += ["-coverage", "1"]
    cmd += extra or []
    cmd.append(module)
    e = dict(os.environ)
    e.pop("JAVA_TOOL_OPTIONS", None)
    e.update(env or {})
    t0 = time.time()
    res = TLCResult(ok=False)
    outf = os.path.join(meta, "stdout.txt")
    try:
        for attempt in range(3):
            with open(outf, "w") as fd:
                proc = subprocess.Popen(cmd, cwd=cwd or spec_dir, env=e, stdout=fd, stderr=subprocess.STDOUT)
                stalled = _wait_watching(proc, outf, timeout)
            rc = proc.returncode if proc.returncode is not None else -1
            if stalled == "timeout":
                res.error = "timeout after %ss" % timeout
                rc = -1
                break
            if stalled != "stalled":
                break
            # TLC 1.8 has (rarely) been seen to stop making progress with all workers idle ("0 s/min" for minutes, no CPU use):
            # a hung model checker is a machinery problem, never a verdict - kill it and start the same job again
            if attempt == 2:
                res.error = "TLC stalled three times (no progress, no CPU)"
                rc = -1
        kept: list[str] = []
        with open(outf, errors="replace") as fd:
            for line in fd:
                # fast path: <<"TAG", "json text">> lines produced by PrintT(<<tag, ToJson(x)>>)
                if on_json is not None and line.startswith('<<"'):
                    m = _JSONLINE.match(line)
                    if m:
                        try:
                            on_json(m.group(1), json.loads(json.loads(m.group(2))))
                            continue
                        except Exception:
                            pass
                kept.append(line.rstrip("\n"))
    finally:
        shutil.rmtree(meta, ignore_errors=True)
    out = "\n".join(kept)
    res.wall_s = time.time() - t0
    res.raw = out if len(out) < 2_000_000 else out[:1_000_000] + "\n...\n" + out[-1_000_000:]
    in_trace = False
    pending = None
    for line in kept:
        m = _SUMMARY.match(line)
        if m:
            res.generated, res.distinct = int(m.group(1)), int(m.group(2))
            continue
        m = _DEPTH.search(line)
        if m:
            res.depth = int(m.group(1))
            continue
        m = _INV.search(line)
        if m:
            res.violated.append(m.group(1))
            in_trace = True
            continue
        m = _PROP.search(line)
        if m:
            res.violated.append(m.group(1))
            in_trace = True
            continue
        m = _COV.match(line)
        if m:
            res.coverage[m.group(1)] = res.coverage.get(m.group(1), 0) + int(m.group(3))
            continue
        if in_trace:
            res.counterexample.append(line)
        if pending is not None:
            pending += " " + line.strip()
            if _balanced(pending):
                try:
                    res.prints.append(parse_value(pending))
                except Exception:
                    pass
                pending = None
            continue
        if want_prints and (line.startswith("<<") or line.startswith("[") or line.startswith('"')):
            if not _balanced(line):
                pending = line.strip()  # TLC pretty-prints long values over several lines
                continue
            try:
                res.prints.append(parse_value(line.strip()))
            except Exception:
                pass
    if rc == -1:
        return res
    fatal = [
        l for l in out.splitlines()
        if l.startswith("Error:") and not _INV.search(l) and not _PROP.search(l)
        and "The behavior up to this point" not in l and "The following behavior constitutes" not in l
    ]
    parse_fail = "Parsing or semantic analysis failed" in out or "***Parse Error***" in out
    finished = "Model checking completed" in out or "Finished in" in out or "states generated" in out
    if parse_fail or (fatal and not res.violated) or not finished:
        res.error = (fatal[0] if fatal else "TLC did not finish") + " | rc=%s" % rc
        # a deadlock report is a legitimate model-checking result
        if any("Deadlock reached" in l for l in fatal):
            res.violated.append("Deadlock")
            res.ok = True
            res.error = ""
        return res
    res.ok = True
    return res


def require_ok(res: TLCResult, what: str) -> TLCResult:
    if not res.ok:
        tail = "\n".join(res.raw.splitlines()[-40:])
        raise TLCFailure("%s: %s\n%s" % (what, res.error, tail))
    return res


def sany(module_path: str) -> tuple[bool, str]:
    proc = subprocess.run(
        ["java", "-cp", JAR, "tla2sany.SANY", os.path.basename(module_path)],
        cwd=os.path.dirname(module_path), stdout=subprocess.PIPE, stderr=subprocess.STDOUT, text=True,
    )
    ok = proc.returncode == 0 and "Semantic errors" not in proc.stdout and "***Parse Error***" not in proc.stdout \
        and "Fatal errors" not in proc.stdout and "Could not" not in proc.stdout
    return ok, proc.stdout


def write_json(path: str, obj: Any) -> None:
    with open(path, "w") as fd:
        json.dump(obj, fd, separators=(",", ":"))


_STALL = re.compile(r"^Progress\(\d+\).*\(0 s/min\)")


def _wait_watching(proc: "subprocess.Popen", outf: str, timeout: float | None) -> str:
    """Wait for TLC; returns "done", "timeout", or "stalled" (two consecutive progress reports without a single new state)."""
    t0 = time.time()
    cpu_hist: list[tuple[float, float]] = []

    def cpu_seconds() -> float:
        try:
            with open("/proc/%d/stat" % proc.pid) as fd:
                f = fd.read().rsplit(")", 1)[1].split()
            return (int(f[11]) + int(f[12])) / float(os.sysconf("SC_CLK_TCK"))
        except Exception:
            return -1.0

    while True:
        try:
            proc.wait(timeout=15)
            return "done"
        except subprocess.TimeoutExpired:
            pass
        cpu_hist.append((time.time(), cpu_seconds()))
        cpu_hist[:] = cpu_hist[-8:]
        if timeout is not None and time.time() - t0 > timeout:
            proc.kill()
            proc.wait()
            return "timeout"
        try:
            with open(outf, "rb") as fd:
                fd.seek(0, 2)
                size = fd.tell()
                fd.seek(max(0, size - 4000))
                tail = fd.read().decode(errors="replace").splitlines()
        except OSError:
            continue
        prog = [ln for ln in tail if ln.startswith("Progress(")]
        idle = len(cpu_hist) >= 6 and cpu_hist[-1][1] >= 0 and cpu_hist[-1][1] - cpu_hist[-6][1] < 2.0    # < 2 CPU-seconds in ~75 s
        if idle and len(prog) >= 2 and _STALL.match(prog[-1]) and _STALL.match(prog[-2]) and not any("Checking temporal" in ln for ln in tail[-3:]):
            proc.kill()
            proc.wait()
            return "stalled"


def run_many(jobs: list[dict], parallel: int = 6) -> list[TLCResult]:
    """Run several independent TLC jobs concurrently (each job = kwargs of run_tlc incl. module, cfg). Order preserved."""
    from concurrent.futures import ThreadPoolExecutor

    def one(job: dict) -> TLCResult:
        job = dict(job)
        module, cfg = job.pop("module"), job.pop("cfg")
        return run_tlc(module, cfg, **job)

    with ThreadPoolExecutor(max_workers=max(1, parallel)) as pool:
        return list(pool.map(one, jobs))
