"""C04 - response conformance verdicts agree with the documentation.

spec/Responses.tla enumerates (response definition, received response) pairs together with the expected failure kinds
(three-valued per kind).  Every pair is concretised into a real OpenAPI 2.0 / 3.0 document (`schemathesis.openapi.from_dict`),
a real `Case` and a hand-built `schemathesis.core.transport.Response`; `case.validate_response(response, checks=[the four
conformance checks])` is run and the raised `FailureGroup` projected to failure kinds.  All disagreements plus a random sample of
agreeing observations are re-judged by TLC (spec/ResponsesJudge.tla) from the recorded definition / response.
"""
from __future__ import annotations

import json
import random
import threading
import time

from . import common, tlc
from .common import Ctx, Outcome, Violation
from .encode import decode_schema, decode_value, uncps

KINDS = ["UndefinedStatusCode", "MissingContentType", "UndefinedContentType", "MalformedMediaType",
         "MissingHeaders", "HeaderSchema", "MalformedJson", "JsonSchemaError"]
_DEFS: list[dict] = []  # definition table of this run (inherited by forked workers)
_ops: dict = {}
_st: dict = {}


# ------------------------------------------------------------------------------------------ spec -> code
def build_document(D: dict) -> dict:
    """Exported definition descriptor -> OpenAPI document with one operation GET /r."""
    d = D["d"]
    dialect = d["dialect"]
    is2 = dialect == "2.0"
    comps = {ref.rsplit("/", 1)[1]: decode_schema(enc, dialect) for ref, enc in D["defs"].items() if ref != "nodefs"}
    mts = [uncps(m) for m in d["mts"]]
    responses: dict = {}
    shared_responses: dict = {}
    shared_headers: dict = {}
    for i, r in enumerate(d["resps"], 1):
        obj: dict = {"description": "documented response %d" % i}
        hdrs: dict = {}
        for h in r["headers"]:
            name = uncps(h["name"])
            if is2:
                ho = dict(decode_schema(h["schema"]["s"], dialect)) if h["schema"]["has"] else {"type": "string"}
                ho["description"] = "h"
            else:
                ho = {"description": "h", "required": bool(h["required"])}
                if h["schema"]["has"]:
                    ho["schema"] = decode_schema(h["schema"]["s"], dialect)
                if d["refHeader"]:
                    shared_headers["H" + name.replace("-", "")] = ho
                    ho = {"$ref": "#/components/headers/H" + name.replace("-", "")}
            hdrs[name] = ho
        if hdrs:
            obj["headers"] = hdrs
        if is2:
            if r["schemas"] and r["schemas"][0]["has"]:
                obj["schema"] = decode_schema(r["schemas"][0]["s"], dialect)
        elif mts:
            obj["content"] = {mt: ({"schema": decode_schema(sc["s"], dialect)} if sc["has"] else {})
                              for mt, sc in zip(mts, r["schemas"])}
        if d["refResp"]:
            shared_responses["R%d" % i] = obj
            obj = {"$ref": ("#/responses/R%d" if is2 else "#/components/responses/R%d") % i}
        responses[uncps(r["key"])] = obj
    op: dict = {"responses": responses}
    if is2:
        if mts:
            op["produces"] = mts
        doc = {"swagger": "2.0", "info": {"title": "t", "version": "1"}, "paths": {"/r": {"get": op}}, "definitions": comps}
        if shared_responses:
            doc["responses"] = shared_responses
    else:
        components: dict = {"schemas": comps}
        if shared_responses:
            components["responses"] = shared_responses
        if shared_headers:
            components["headers"] = shared_headers
        doc = {"openapi": "3.1.0" if dialect == "3.1" else "3.0.2", "info": {"title": "t", "version": "1"}, "paths": {"/r": {"get": op}}, "components": components}
    return doc


def build_response(resp: dict) -> tuple[int, dict, bytes]:
    headers: dict = {}
    if resp["ct"]["present"]:
        headers["Content-Type"] = [uncps(resp["ct"]["txt"])]
    for h in resp["hdrs"]:
        headers.setdefault(uncps(h["name"]), []).append(uncps(h["value"]))
    b = resp["body"]
    if b["kind"] == "json":
        body = json.dumps(decode_value(b["v"])).encode()
    elif b["kind"] == "malformed":
        body = uncps(b["txt"]).encode()
    else:
        body = b""
    return resp["status"], headers, body


def _setup() -> dict:
    if not _st:
        import requests
        import schemathesis
        from schemathesis.core.failures import Failure, FailureGroup
        from schemathesis.core.transport import Response
        from schemathesis.specs.openapi.checks import (
            content_type_conformance, response_headers_conformance, response_schema_conformance, status_code_conformance,
        )

        _st.update(
            from_dict=schemathesis.openapi.from_dict, Response=Response, FailureGroup=FailureGroup, Failure=Failure,
            req=requests.Request("GET", "http://127.0.0.1/r").prepare(),
            checks=[status_code_conformance, content_type_conformance, response_headers_conformance, response_schema_conformance],
        )
    return _st


def _kind(f) -> str:
    n = type(f).__name__
    if n == "JsonSchemaError" and "header" in (getattr(f, "title", "") or "").lower():
        return "HeaderSchema"
    return n


def observe(D: dict, resp: dict, cache_key=None) -> list[str]:
    """Run the four real conformance checks; the sorted list of reported failure kinds (a crash is `Crash:<exception>`)."""
    st = _setup()
    op = _ops.get(cache_key) if cache_key is not None else None
    if op is None:
        op = st["from_dict"](build_document(D))["/r"]["GET"]
        if cache_key is not None:
            if len(_ops) > 64:
                _ops.clear()
            _ops[cache_key] = op
    status, headers, body = build_response(resp)
    response = st["Response"](status_code=status, headers=headers, content=body, request=st["req"], elapsed=0.0, verify=False)
    case = op.Case()
    try:
        case.validate_response(response, checks=st["checks"])
        return []
    except st["FailureGroup"] as group:
        return sorted({_kind(f) for f in group.exceptions})
    except st["Failure"] as f:
        return [_kind(f)]
    except Exception as exc:  # the checks themselves failed: never an expected outcome
        return ["Crash:" + type(exc).__name__]


# ------------------------------------------------------------------------------------------ multi-file layout, concurrency
_gate = threading.local()
GATE_TIMEOUT = 10.0


def _install_gate() -> None:
    """`format: verif-gate` is a rendezvous point inside body validation (a no-op unless the thread has a role)."""
    import jsonschema

    if _st.get("gate"):
        return

    @jsonschema.Draft202012Validator.FORMAT_CHECKER.checks("verif-gate")
    def _verif_gate(value) -> bool:  # noqa: ANN001
        role = getattr(_gate, "role", None)
        if role is not None:
            k, inside, done = role
            inside[k].set()                       # I am in the middle of validating my body (my file's scope is pushed)
            if k + 1 < len(inside):
                inside[k + 1].wait(GATE_TIMEOUT)  # ... and stay there until the next thread is in the middle of its own
            if k > 0:
                done[k - 1].wait(GATE_TIMEOUT)    # the thread before me finishes (resolves its references) while I am inside
        return True

    _st["gate"] = True


def build_multifile(group: list[dict], directory: str) -> str:
    """One description split over files: main.json + one file per operation, each with its own `#/definitions/Item`."""
    import os

    dialect = group[0]["d"]["dialect"]
    is2 = dialect == "2.0"
    paths = {}
    for D in group:
        d = D["d"]
        f = _multi_name(d)
        schema = decode_schema(d["resps"][0]["schemas"][0]["s"], dialect)
        item = decode_schema(D["defs"]["#/definitions/Item"], dialect)
        ok = {"description": "OK", "schema": schema} if is2 else {"description": "OK", "content": {uncps(d["mts"][0]): {"schema": schema}}}
        for h in d["resps"][0]["headers"]:
            hs = decode_schema(h["schema"]["s"], dialect)
            # a Swagger 2.0 Header Object has no `schema`: the file-local reference is only written in the body schema there
            ok.setdefault("headers", {})[uncps(h["name"])] = {"type": "string"} if is2 else {"required": bool(h["required"]), "schema": hs}
        key = uncps(d["resps"][0]["key"])
        if d.get("layout") == "pathitem":
            op: dict = {"responses": {key: ok}}
            content = {"PathItem": {"get": op}, "definitions": {"Item": item}}
            paths["/" + f] = {"$ref": f + ".json#/PathItem"}
        else:
            op = {"responses": {key: {"$ref": f + ".json#/responses/Ok"}}}
            content = {"responses": {"Ok": ok}, "definitions": {"Item": item}}
            paths["/" + f] = {"get": op}
        if is2:
            op["produces"] = [uncps(m) for m in d["mts"]]
        with open(os.path.join(directory, f + ".json"), "w") as fd:
            json.dump(content, fd)
    head = {"swagger": "2.0"} if is2 else {"openapi": "3.1.0" if dialect == "3.1" else "3.0.2"}
    with open(os.path.join(directory, "main.json"), "w") as fd:
        # the root document has the same pointer with other content: a file-local reference must not end up here
        json.dump({**head, "info": {"title": "t", "version": "1"}, "paths": paths, "definitions": {"Item": {"type": "array"}}}, fd)
    return os.path.join(directory, "main.json")


def _multi_name(d: dict) -> str:
    return d["file"] + ("_pi" if d.get("layout") == "pathitem" else "")


def _validate(st: dict, op, resp: dict) -> list[str]:
    status, headers, body = build_response(resp)
    response = st["Response"](status_code=status, headers=headers, content=body, request=st["req"], elapsed=0.0, verify=False)
    try:
        op.Case().validate_response(response, checks=st["checks"])
        return []
    except st["FailureGroup"] as group:
        return sorted({_kind(f) for f in group.exceptions})
    except st["Failure"] as f:
        return [_kind(f)]
    except Exception as exc:
        return ["Crash:" + type(exc).__name__]


def observe_multifile(item: tuple[list[dict], list[list[dict]]]) -> list[tuple[int, int, str, list[str]]]:
    """group = the operations of one description (one file each); resps[i] = the responses enumerated for operation i.
    ONE loaded schema object; every pair is validated sequentially in both orders of the operations, then concurrently:
    2 and 3 threads are forced into the interleaving that ResponsesResolver.tla's refuted (shared) design goes wrong in -
    thread k pauses inside its body validation until thread k+1 is inside its own, then finishes first.
    -> (operation index, response index, phase, reported kinds)"""
    import itertools
    import shutil
    import tempfile

    group, resps = item
    st = _setup()
    _install_gate()
    import schemathesis

    directory = tempfile.mkdtemp(prefix="verif-c04-multi-")
    out: list = []
    try:
        schema = schemathesis.openapi.from_path(build_multifile(group, directory))
        ops = [schema["/" + _multi_name(D["d"])]["GET"] for D in group]
        for phase, order in (("sequential", range(len(group))), ("sequential-reversed", reversed(range(len(group))))):
            for i in order:
                for j, resp in enumerate(resps[i]):
                    out.append((i, j, phase, _validate(st, ops[i], resp)))
        combos = []
        few = [sorted(range(len(r)), key=lambda j: (len(r[j]["hdrs"]), j))[:3] for r in resps]  # header-less responses first
        for a, b in itertools.permutations(range(len(group)), 2):
            combos.extend(((a, x), (b, y)) for x in few[a] for y in few[b])
        for perm in itertools.permutations(range(len(group)), 3):
            combos.extend(tuple((i, few[i][x]) for i in perm) for x in range(1))
        for combo in combos:
            n = len(combo)
            inside = [threading.Event() for _ in range(n)]
            done = [threading.Event() for _ in range(n)]
            results: list = [None] * n

            def worker(k: int, i: int, j: int) -> None:
                if k > 0:
                    inside[k - 1].wait(GATE_TIMEOUT)  # start once the thread before is in the middle of its validation
                _gate.role = (k, inside, done)
                try:
                    results[k] = _validate(st, ops[i], resps[i][j])
                finally:
                    _gate.role = None
                    inside[k].set()
                    done[k].set()

            threads = [threading.Thread(target=worker, args=(k, i, j), daemon=True) for k, (i, j) in enumerate(combo)]
            for t in threads:
                t.start()
            for t in threads:
                t.join(4 * GATE_TIMEOUT)
            for k, (i, j) in enumerate(combo):
                out.append((i, j, "concurrent-%d" % n, results[k] if results[k] is not None else ["Crash:NoVerdict"]))
    except Exception as exc:
        out.append((0, 0, "load", ["Crash:" + type(exc).__name__]))
    finally:
        shutil.rmtree(directory, ignore_errors=True)
    return out


def observe_status_race(item: tuple[int, dict, dict]) -> tuple[list[str], list[str]]:
    """Two threads run the FIRST checks of one operation of a freshly loaded schema at the same time, in the schedule that
    ResponsesStatusCache.tla's refuted design (publish-then-fill) goes wrong in: thread A is paused inside the expansion of
    the documented status keys, thread B validates its response completely in that window, then A continues."""
    di, resp_a, resp_b = item
    st = _setup()
    import schemathesis.specs.openapi.checks as oas_checks

    op = st["from_dict"](build_document(_DEFS[di]))["/r"]["GET"]
    original = oas_checks.expand_status_code
    paused, resume = threading.Event(), threading.Event()
    state = {"first": True}

    def expand(code):
        result = list(original(code))
        if getattr(_gate, "status_role", None) == "A" and state["first"]:
            state["first"] = False
            paused.set()
            resume.wait(GATE_TIMEOUT)
        return iter(result)

    results: dict = {}

    def worker_a() -> None:
        _gate.status_role = "A"
        try:
            results["a"] = _validate(st, op, resp_a)
        finally:
            _gate.status_role = None
            paused.set()

    def worker_b() -> None:
        paused.wait(GATE_TIMEOUT)
        try:
            results["b"] = _validate(st, op, resp_b)
        finally:
            resume.set()

    oas_checks.expand_status_code = expand
    try:
        threads = [threading.Thread(target=worker_a, daemon=True), threading.Thread(target=worker_b, daemon=True)]
        for t in threads:
            t.start()
        for t in threads:
            t.join(4 * GATE_TIMEOUT)
    finally:
        oas_checks.expand_status_code = original
    return results.get("a", ["Crash:NoVerdict"]), results.get("b", ["Crash:NoVerdict"])


def _documents(key: str, status: int) -> bool:
    return len(key) == 3 and all(k in "xX" or k == s for k, s in zip(key, str(status)))


def _work(item: tuple[int, dict]) -> list[str]:
    di, resp = item
    return observe(_DEFS[di], resp, cache_key=di)


# ------------------------------------------------------------------------------------------ comparison / signatures
def disagreements(exp: dict, obs: list[str]) -> list[tuple[str, str]]:
    out = []
    for k in KINDS:
        if exp[k] == "T" and k not in obs:
            out.append((k, "miss"))
        elif exp[k] == "F" and k in obs:
            out.append((k, "false-alarm"))
    out.extend((k, "crash") for k in obs if k not in KINDS)
    return out


_SCHEMA_CLASS = {"ObjId": "plain", "ObjName": "plain", "Str": "plain", "Arr": "plain", "NullInt": "nullable",
                 "ObjNullProp": "nullable", "ObjWO": "writeOnly", "ObjWO2": "writeOnly-two", "-": "none",
                 "ObjWOReq": "writeOnly-required", "ObjOnlyWO": "writeOnly-only", "StrPat": "pattern+length", "Node": "recursive"}


def signature_parts(D: dict, resp: dict, feat: dict, kind: str, direction: str) -> tuple[str, list[str]]:
    """(base, extras): base = direction, kind, which key governs, matched media type / Content-Type class / header types;
    extras = schema class, $ref usage, dialect - kept in the signature only when no failure with the same base occurs
    without them (i.e. when they are necessary for the failure; DESIGN Appendix E)."""
    d = D["d"]
    parts = ["key=" + feat["gov"]]
    extras: list[str] = []
    if d.get("file"):
        parts.append("multi-file:" + feat.get("phase", "sequential").split("-")[0])
    elif feat.get("phase"):
        parts.append(feat["phase"])
    if kind in ("JsonSchemaError", "MalformedJson") or direction == "crash":
        parts.append("mediaType#%d" % feat["mt"])
        if feat["ct"] != "documented":
            parts.append("contentType=" + feat["ct"])
        if kind == "JsonSchemaError" and direction == "miss" and feat.get("headerViolation"):
            parts.append("together-with-header-violation")
        if kind == "JsonSchemaError":
            cls = _SCHEMA_CLASS.get(feat["schema"], "format:" + feat["schema"][4:] if feat["schema"].startswith("Fmt-") else feat["schema"])
            if cls != "plain":
                extras.append("schema=" + cls)
            if d["refSchema"]:
                extras.append("$ref-schema")
    elif kind in ("MissingContentType", "UndefinedContentType", "MalformedMediaType"):
        parts.append("contentType=" + feat["ct"])
    elif kind in ("MissingHeaders", "HeaderSchema"):
        if kind == "HeaderSchema":
            types = sorted({(h["schema"].get("s", {}).get("type") or ["$ref" if "ref" in h["schema"].get("s", {}) else "?"])[0] + ("(%s)" % h["schema"]["s"]["format"] if h["schema"].get("s", {}).get("format") else "")
                            for r in d["resps"] for h in r["headers"]
                            if any(uncps(h["name"]).lower() == uncps(s["name"]).lower() for s in resp["hdrs"])})
            parts.append("header:" + "+".join(types))
        if d["refHeader"]:
            extras.append("$ref-header")
    if d["refResp"]:
        extras.append("$ref-response")
    if d["dialect"] == "2.0":
        extras.append("swagger2")
    return "C04:%s:%s:%s" % (direction, kind, "+".join(parts)), extras


def signature(D: dict, resp: dict, feat: dict, kind: str, direction: str, seen: dict | None = None) -> str:
    """`seen`: base -> extras sets of all failures of this run; the smallest one contained in this failure's extras is kept."""
    base, extras = signature_parts(D, resp, feat, kind, direction)
    if seen is not None:
        fits = [y for y in seen.get(base, ()) if y <= set(extras)]
        if fits:
            keep = min(fits, key=lambda y: (len(y), sorted(y)))
            extras = [x for x in extras if x in keep]
    return base + "".join("+" + x for x in extras)


def _short(D: dict, resp: dict) -> str:
    d = D["d"]
    status, headers, body = build_response(resp)
    keys = ",".join(uncps(r["key"]) for r in d["resps"])
    return "OpenAPI %s responses{%s} media[%s]%s%s | received %s %s body=%r" % (
        d["dialect"], keys, ",".join(uncps(m) for m in d["mts"]),
        " $ref-response" if d["refResp"] else "", " $ref-schema" if d["refSchema"] else "",
        status, {k: v[0] for k, v in headers.items()}, body[:40])


# ------------------------------------------------------------------------------------------ run
def run(ctx: Ctx) -> Outcome:
    out = Outcome()
    rng = random.Random(ctx.seed)
    cfg = "Responses_quick.cfg" if ctx.quick else "Responses_thorough.cfg"
    defs: dict[str, int] = {}
    cases: list[tuple[int, dict]] = []
    pending: list[dict] = []
    del _DEFS[:]

    def on_json(tag: str, d: dict) -> None:
        if tag == "DEF":
            defs[json.dumps(d["d"]["id"])] = len(_DEFS)
            _DEFS.append(d)
        elif tag == "CASE":
            pending.append(d)

    res = tlc.require_ok(tlc.run_tlc("Responses", cfg, workers=1, timeout=3000, on_json=on_json, want_prints=False),
                         "Responses enumeration")
    if res.distinct != len(_DEFS) + len(pending):
        raise tlc.TLCFailure("export incomplete: %d states, %d lines" % (res.distinct, len(_DEFS) + len(pending)))
    for inv in res.violated:
        out.violations.append(Violation("C04:spec:" + inv, "design invariant %s violated in Responses.tla" % inv,
                                        {"kind": "spec", "invariant": inv, "trace": res.counterexample[:60]}))
    pending.sort(key=lambda c: defs[json.dumps(c["d"])])  # one document per run of consecutive items
    for c in pending:
        c["feat"]["headerViolation"] = c["exp"]["HeaderSchema"] == "T"
    all_cases = [(defs[json.dumps(c["d"])], c) for c in pending]
    cases = [(di, c) for di, c in all_cases if _DEFS[di]["d"]["slice"] != "multifile"]
    t1 = time.time()
    obs = common.pmap(_work, [(di, c["resp"]) for di, c in cases], chunk=max(50, len(cases) // (common.NPROC * 6)))
    # the description split over files: one group per dialect, validated on one schema object sequentially and concurrently
    groups: dict[str, list[int]] = {}
    for di, D in enumerate(_DEFS):
        if D["d"]["slice"] == "multifile":
            groups.setdefault(D["d"]["dialect"], []).append(di)
    multi_runs = 0
    multi_ctx: dict = {}
    import multiprocessing as mp

    order = sorted(groups.items())
    for dialect, dis in order:
        multi_ctx[dialect] = {"group": [_DEFS[x] for x in dis], "cases": [[c for di, c in all_cases if di == x] for x in dis]}
    with mp.get_context("fork").Pool(max(1, len(order))) as pool:
        multi_results = pool.map(observe_multifile, [(multi_ctx[d]["group"], [[c["resp"] for c in cs] for cs in multi_ctx[d]["cases"]]) for d, _ in order]) if order else []
    for (dialect, dis), results in zip(order, multi_results):
        per_op = multi_ctx[dialect]["cases"]
        for i, j, phase, kinds in results:
            c = dict(per_op[i][j], feat=dict(per_op[i][j]["feat"], phase=phase))
            cases.append((dis[i], c))
            obs.append(kinds)
            multi_runs += 1
    # the status check raced: operations without `default` and with several keys; A asks for a code of the first key, B for
    # a code documented by a later key (both are documented: UndefinedStatusCode is expected for neither)
    race_items, race_cases = [], []
    by_def: dict[int, dict[int, dict]] = {}
    for di, c in all_cases:
        if _DEFS[di]["d"]["slice"] == "keys" and not c["resp"]["hdrs"]:
            by_def.setdefault(di, {}).setdefault(c["resp"]["status"], c)
    for di, by_status in sorted(by_def.items()):
        keys = [uncps(r["key"]) for r in _DEFS[di]["d"]["resps"]]
        if "default" in keys or len(keys) < 2:
            continue
        first = [s for s in sorted(by_status) if _documents(keys[0], s)]
        later = [s for s in sorted(by_status) if not _documents(keys[0], s) and any(_documents(k, s) for k in keys[1:])]
        for sb in later[:2]:
            if first:
                race_items.append((di, by_status[first[0]]["resp"], by_status[sb]["resp"]))
                race_cases.append((di, by_status[first[0]], by_status[sb]))
    for (di, ca, cb), (ka, kb) in zip(race_cases, common.pmap(observe_status_race, race_items)):
        for c, kinds in ((ca, ka), (cb, kb)):
            cases.append((di, dict(c, feat=dict(c["feat"], phase="status-check-raced"))))
            obs.append(kinds)
    t_replay = time.time() - t1
    cache_models = {v: tlc.require_ok(tlc.run_tlc("ResponsesStatusCache", "ResponsesStatusCache_%s.cfg" % v, workers=1, timeout=300), "status cache model " + v)
                    for v in ("publishthenfill", "fillthenpublish", "none")}
    if "VerdictsRight" not in cache_models["publishthenfill"].violated:
        raise tlc.TLCFailure("ResponsesStatusCache: publish-then-fill was not refuted - the status-check race dimension is vacuous")
    for v in ("fillthenpublish", "none"):
        if cache_models[v].violated:
            out.violations.append(Violation("C04:spec:VerdictsRight", "design %s violates VerdictsRight in ResponsesStatusCache.tla" % v,
                                            {"kind": "spec", "invariant": "VerdictsRight", "trace": cache_models[v].counterexample[:60]}))
    # design level: the shared-resolver design must be refuted and the per-call design proved by TLC (vacuity guard of the above)
    shared = tlc.require_ok(tlc.run_tlc("ResponsesResolver", "ResponsesResolver_shared.cfg", workers=1, timeout=300), "resolver model (shared)")
    percall = tlc.require_ok(tlc.run_tlc("ResponsesResolver", "ResponsesResolver_percall.cfg", workers=1, timeout=300), "resolver model (per call)")
    if "ResolvesOwnFile" not in shared.violated:
        raise tlc.TLCFailure("ResponsesResolver: the shared-resolver design was not refuted - the concurrency dimension is vacuous")
    if percall.violated:
        out.violations.append(Violation("C04:spec:ResolvesOwnFile", "per-call resolver design violates ResolvesOwnFile in ResponsesResolver.tla",
                                        {"kind": "spec", "invariant": "ResolvesOwnFile", "trace": percall.counterexample[:60]}))

    dis: list[tuple[int, str, str]] = []  # (case index, kind, direction)
    nontrivial = 0
    u_pairs = u_kinds = 0
    for n, ((di, c), o) in enumerate(zip(cases, obs)):
        exp = c["exp"]
        if o or any(exp[k] == "T" for k in KINDS):
            nontrivial += 1
        nu = sum(1 for k in KINDS if exp[k] == "U")
        u_kinds += nu
        u_pairs += 1 if nu else 0
        dis.extend((n, k, direction) for k, direction in disagreements(exp, o))

    # code -> spec: TLC judges all disagreeing observations (capped) plus a random sample of the agreeing ones
    dis_idx = sorted({n for n, _, _ in dis})
    dis_set = set(dis_idx)
    agree_idx = [n for n in range(len(cases)) if n not in dis_set]
    judged_idx = dis_idx[:30000] + common.sample(rng, agree_idx, 5000 if ctx.quick else 20000)
    used_defs = sorted({cases[n][0] for n in judged_idx})
    remap = {di: j + 1 for j, di in enumerate(used_defs)}
    obs_file = ctx.path("obs.json")
    tlc.write_json(obs_file, {"defs": [_DEFS[di] for di in used_defs],
                              "obs": [{"d": remap[cases[n][0]], "resp": cases[n][1]["resp"], "kinds": obs[n]} for n in judged_idx]})
    jres = tlc.require_ok(tlc.run_tlc("ResponsesJudge", "ResponsesJudge.cfg", env={"OBS_FILE": obs_file}, timeout=2400,
                                      workers=common.NPROC), "judge")
    for inv in jres.violated:
        raise tlc.TLCFailure("judge: design invariant %s violated on recorded input" % inv)
    tlc_dis = {(p[1], p[2], p[3]) for p in jres.prints if isinstance(p, list) and p and p[0] == "DISAGREE"}
    py_dis = set()
    for j, n in enumerate(judged_idx, 1):
        for k, direction in disagreements(cases[n][1]["exp"], obs[n]):
            py_dis.add((j, k, direction))
    if tlc_dis != py_dis:
        raise tlc.TLCFailure("judge (TLC) and exporter disagree on %d verdicts - machinery inconsistency: %s" % (
            len(tlc_dis ^ py_dis), sorted(tlc_dis ^ py_dis)[:5]))

    seen: dict[str, set] = {}
    for n, kind, direction in dis:
        base, extras = signature_parts(_DEFS[cases[n][0]], cases[n][1]["resp"], cases[n][1]["feat"], kind, direction)
        seen.setdefault(base, set()).add(frozenset(extras))
    for n, kind, direction in dis:
        di, c = cases[n]
        D = _DEFS[di]
        out.violations.append(Violation(
            signature(D, c["resp"], c["feat"], kind, direction, seen),
            "%s %s: expected=%s reported=%s for %s" % (direction, kind, {k: v for k, v in c["exp"].items() if v != "F"}, obs[n], _short(D, c["resp"])),
            ({"D": D, "resp": c["resp"], "exp": c["exp"], "feat": c["feat"], "document": build_document(D)} if not D["d"].get("file") else
             {"D": D, "resp": c["resp"], "exp": c["exp"], "feat": c["feat"], "multi": multi_ctx[D["d"]["dialect"]]}),
        ))
    picks = common.sample(rng, [n for n in range(len(cases)) if obs[n]] or list(range(len(cases))), 5)
    out.coverage = {
        "states": res.distinct, "transitions": res.generated,
        "traces_validated_against_impl": len(judged_idx),
        "samples": [{"case": _short(_DEFS[cases[n][0]], cases[n][1]["resp"]), "expected": cases[n][1]["exp"], "reported": obs[n]} for n in picks],
        "evaluations": len(cases),
        "distinct_nontrivial": nontrivial,
        "definitions": len(_DEFS), "multi_file_observations": multi_runs, "status_check_races": len(race_items),
        "status_cache_model": {"publish_then_fill_refuted": True, "fill_then_publish_states": cache_models["fillthenpublish"].distinct},
        "resolver_model": {"shared_design_refuted_by": [l.split("<")[1].split(" line")[0] for l in shared.counterexample if l.startswith("State") and "<" in l],
                           "per_call_design_states": percall.distinct},
        "rule": "every (response definition, received response) pair reachable in Responses.tla under %s (TLC-enumerated, each "
                "replayed once through from_dict + Case.validate_response with the four conformance checks); non-trivial = the "
                "spec expects or the implementation reports at least one failure kind" % cfg,
        "exhaustive": True,
        "skipped_outside_fragment": {"pairs_with_an_undecided_kind": u_pairs, "undecided_pair_kinds": u_kinds,
                                     "of_pair_kinds": len(cases) * len(KINDS)},
        "constants": {"cfg": cfg, "kinds": KINDS},
        "disagreements": len(dis),
        "tlc_enumeration_s": round(res.wall_s, 1), "replay_s": round(t_replay, 1), "tlc_judge_s": round(jres.wall_s, 1),
        "judge_states": jres.distinct,
    }
    out.assumptions = [
        "a hand-built core.transport.Response (status, header lists, content bytes) is what the transports hand to the checks",
        "the operation is reached through from_dict + schema['/r']['GET'] and an empty Case; the checks read only the operation definition and the response",
        "failure kinds are the Failure class names; a JsonSchemaError raised by response_headers_conformance (title mentions 'header') is the kind HeaderSchema",
        "Swagger 2.0 response headers are never required (the standard has no such field; x-required is not used)",
    ]
    return out


def replay(ctx: Ctx, data: dict) -> Outcome:
    out = Outcome()
    if data.get("kind") == "spec":
        return out
    if data.get("multi"):  # the whole group again (sequential both orders + forced interleavings); every disagreeing pair is reported
        m = data["multi"]
        for i, j, phase, kinds in observe_multifile((m["group"], [[c["resp"] for c in cs] for cs in m["cases"]])):
            c = m["cases"][i][j]
            for kind, direction in disagreements(c["exp"], kinds):
                out.violations.append(Violation(signature(m["group"][i], c["resp"], dict(c["feat"], phase=phase), kind, direction),
                                                "%s %s (%s): reported=%s for %s" % (direction, kind, phase, kinds, _short(m["group"][i], c["resp"])), data))
        return out
    o = observe(data["D"], data["resp"])
    for kind, direction in disagreements(data["exp"], o):
        out.violations.append(Violation(signature(data["D"], data["resp"], data["feat"], kind, direction),
                                        "%s %s: reported=%s for %s" % (direction, kind, o, _short(data["D"], data["resp"])), data))
    return out


def selftest(ctx: Ctx) -> bool:
    """Binding: the judge accepts a faithful observation and rejects corrupted ones (a dropped and an invented kind)."""
    got: dict = {"defs": [], "cases": []}

    def on_json(tag: str, d: dict) -> None:
        got["defs" if tag == "DEF" else "cases"].append(d)

    tlc.require_ok(tlc.run_tlc("Responses", "Responses_quick.cfg", workers=1, timeout=600, on_json=on_json, want_prints=False), "enumeration")
    c = next(c for c in got["cases"] if c["exp"]["UndefinedStatusCode"] == "T")
    D = next(d for d in got["defs"] if d["d"]["id"] == c["d"])
    c2 = next(c for c in got["cases"] if c["exp"]["JsonSchemaError"] == "T" and c["feat"]["gov"] == "exact" and c["feat"]["mt"] == 1
              and c["exp"]["MissingHeaders"] == "F")
    D2 = next(d for d in got["defs"] if d["d"]["id"] == c2["d"])
    real = observe(D, c["resp"])
    real2 = observe(D2, c2["resp"])
    f = ctx.path("obs.json")
    tlc.write_json(f, {"defs": [D, D2], "obs": [
        {"d": 1, "resp": c["resp"], "kinds": real},                       # faithful
        {"d": 1, "resp": c["resp"], "kinds": []},                         # finding dropped
        {"d": 2, "resp": c2["resp"], "kinds": real2},                     # faithful
        {"d": 2, "resp": c2["resp"], "kinds": real2 + ["MissingHeaders"]},  # finding invented
    ]})
    r = tlc.require_ok(tlc.run_tlc("ResponsesJudge", "ResponsesJudge.cfg", env={"OBS_FILE": f}, workers=1), "selftest")
    dis = sorted(p[1:] for p in r.prints if isinstance(p, list) and p and p[0] == "DISAGREE")
    ok = dis == [[2, "UndefinedStatusCode", "miss"], [4, "MissingHeaders", "false-alarm"]]
    if not ok:
        print("selftest: judge printed", dis, "observed", real, real2)
    return ok


def main(argv=None) -> int:
    return common.main("C04", run, replay, selftest, argv)
