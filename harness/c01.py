"""C01 - positive-mode test data conforms to the operation's declared inputs.

spec/GenData.tla (family "c01") enumerates operation descriptors (TLC); each is concretised into a real document
(all three dialects, generation configs allow_x00 / codec / with_security_parameters), N cases are drawn from
`operation.as_strategy(generation_mode=POSITIVE)` under Hypothesis (derandomized, seeded from ctx.seed), projected, and
every drawn case plus the per-descriptor outcome (cases / unsat / error) is judged by spec/GenDataJudge.tla with the
OasSchema oracle (C01_Case, C01_Outcome).

The drawing machinery here is shared with C02.
"""
from __future__ import annotations

import json
import random
import time
from typing import Any

from . import common, tlc
from .c03 import (_count, _detail_set, _short, _spec_violations, build_document, declared_op, enumerate_family, features, judge, pmap,
                  primary, project_case, setup_env)
from .common import Ctx, Outcome, Violation
from .encode import cps, encode_value, uncps

SECURITY_HEADER = "X-Api-Key"


def with_security(raw: dict, desc: dict) -> dict:
    """cfg.security => the document declares an apiKey header scheme and the operation requires it."""
    if not (desc.get("cfg") or {}).get("security"):
        return raw
    scheme = {"type": "apiKey", "in": "header", "name": SECURITY_HEADER}
    if desc["dialect"] == "2.0":
        raw["securityDefinitions"] = {"key": scheme}
    else:
        raw.setdefault("components", {})["securitySchemes"] = {"key": scheme}
    for item in raw["paths"].values():
        item["post"]["security"] = [{"key": []}]
    return raw


def draw(desc: dict, mode: str, modes: list[str], n: int, seed: int) -> dict:
    """Draw up to n cases of one descriptor in `mode`; returns {"op", "cases": [projected], "outcome", "error"}."""
    out: dict = {"cases": [], "outcome": "cases", "error": ""}
    try:
        import hypothesis
        import schemathesis
        from hypothesis import HealthCheck, Phase, given, settings
        from hypothesis.errors import Unsatisfiable
        from schemathesis.generation import GenerationConfig, GenerationMode
        import unittest

        raw, path, method = build_document(desc)
        raw = with_security(raw, desc)
        op_decl = declared_op(raw, path, desc)
        cfg = op_decl["cfg"]
        if cfg.get("security"):
            from .encode import encode_schema

            op_decl["params"].append({"loc": "header", "name": cps(SECURITY_HEADER), "required": False,
                                      "schema": encode_schema({"type": "string"}, desc["dialect"])})
        out["op"] = op_decl
        operation = schemathesis.openapi.from_dict(raw)[path][method]
        gm = {"positive": GenerationMode.POSITIVE, "negative": GenerationMode.NEGATIVE}
        config = GenerationConfig(modes=[gm[m] for m in modes], allow_x00=bool(cfg["allow_x00"]), codec={"none": None, "latin-1": "iso8859-1"}.get(cfg["codec"], cfg["codec"]),
                                  with_security_parameters=bool(cfg.get("security")))
        kwargs: dict = {}
        if cfg.get("explicit") == "declared":     # the caller fixes q1 (a conforming value); the rest of the location must be generated around it
            q1 = next(p for p in op_decl["params"] if p["loc"] == "query" and uncps(p["name"]) == "q1")
            kwargs["query"] = {"q1": 2 if q1["schema"].get("type") == ["integer"] else "ab"}
        elif cfg.get("explicit") == "undeclared":  # as many undeclared keys as the location declares parameters (-H "Authorization: ..")
            for loc, container in (("query", "query"), ("header", "headers")):
                n_declared = sum(1 for p in op_decl["params"] if p["loc"] == loc)
                if n_declared:
                    names = ["Authorization", "X-Trace"] if loc == "header" else ["debug", "trace"]
                    kwargs[container] = {name: "x1" for name in names[:n_declared]}
        strategy = operation.as_strategy(generation_mode=gm[mode], generation_config=config, **kwargs)
    except Exception as exc:
        out["outcome"], out["error"] = "error", "setup:%s:%s" % (type(exc).__name__, str(exc)[:160])
        return out
    drawn: list = []

    @hypothesis.seed(seed)
    @settings(max_examples=n, database=None, deadline=None, derandomize=False, suppress_health_check=list(HealthCheck),
              phases=[Phase.generate], verbosity=hypothesis.Verbosity.quiet)
    @given(case=strategy)
    def collect(case: Any) -> None:
        drawn.append(case)

    try:
        collect()
    except Unsatisfiable:
        out["outcome"] = "unsat" if not drawn else "cases"
    except KeyboardInterrupt:
        raise
    except BaseException as exc:  # schemathesis' SkipTest derives from BaseException
        name = type(exc).__name__
        if name == "SkipTest" or isinstance(exc, unittest.SkipTest):
            out["outcome"] = "skipped" if not drawn else "cases"
        elif name in ("Unsatisfiable", "FailedHealthCheck") and not drawn:
            out["outcome"] = "unsat"
        elif not drawn:
            out["outcome"], out["error"] = "error", "draw:%s:%s" % (name, str(exc)[:160])
    if not drawn and out["outcome"] == "cases":
        out["outcome"] = "unsat"
    seen = set()
    for case in drawn:
        try:
            c = project_case(case, op_decl, method, given=kwargs)
        except Exception as exc:
            out["error"] = "project:%s:%s" % (type(exc).__name__, str(exc)[:120])
            continue
        key = json.dumps(c, sort_keys=True)
        if key not in seen:
            seen.add(key)
            out["cases"].append(c)
    out["drawn"] = len(drawn)
    return out


def _work(job: dict) -> dict:
    return draw(job["desc"], job["mode"], job["modes"], job["n"], job["seed"])


def assemble(pid: str, jobs: list[dict], results: list[dict]):
    ops, obs, back = [], [], []
    for ji, (job, r) in enumerate(zip(jobs, results)):
        if "op" not in r:
            continue
        ops.append({k: v for k, v in r["op"].items() if k != "mults"})
        opi = len(ops)
        obs.append({"kind": "outcome", "prop": pid, "opi": opi, "outcome": r["outcome"], "negOnly": job["modes"] == ["negative"]})
        back.append((ji, None))
        for c in r["cases"]:
            obs.append({"kind": "case", "prop": pid, "opi": opi, "c": c})
            back.append((ji, c))
    return ops, obs, back


def kw_detail(detail: Any) -> dict:
    """{part: sorted keywords} from the judge's <<"kw", part, keyword>> triples."""
    out: dict = {}
    for t in _detail_set(detail):
        if isinstance(t, list) and len(t) == 3 and t[0] == "kw":
            out.setdefault(t[1], []).append(t[2])
    return {k: sorted(set(v)) for k, v in out.items()}


def part_detail(detail: Any) -> list:
    return [t for t in _detail_set(detail) if isinstance(t, list) and len(t) == 3 and t[0] not in ("kw", "case", "txt")]


def signature(rule: str, detail: Any, desc: dict, c: Any = None) -> str:
    if rule in ("parameters-do-not-conform", "body-does-not-conform"):
        kws = sorted({k for ks in kw_detail(detail).values() for k in ks})
        feats = features(desc)
        if kws and set(kws) <= {"maxLength", "minLength"} and "pattern-group+length" in feats:
            feat = "pattern-group+length"
        elif kws and set(kws) <= {"maxLength", "minLength"} and "pattern+length" in feats:
            feat = "pattern+length"
        elif "props" in kws and "readOnly" in feats:
            feat = "readOnly"
        else:
            feat = primary(feats)
        missing = "missing-required" if not kws else ""
        return "C01:does-not-conform:{%s}%s:%s" % (",".join(kws), missing, feat)
    if rule in ("nul-character", "outside-codec"):
        cfg = desc.get("cfg") or {}
        want = "nul" if rule == "nul-character" else "codec"
        where = sorted({t[1] for t in _detail_set(detail) if isinstance(t, list) and len(t) == 3 and t[0] == "txt" and t[2] == want})
        # in the body (unconstrained additional properties) the restriction is lost inside hypothesis-jsonschema: the registered class;
        # any other location is named
        loc = "" if where in ([], ["body"]) else "+".join(w for w in where if w != "body") + ":"
        return "C01:%s:%sallow_x00=%s,codec=%s" % (rule, loc, cfg.get("allow_x00"), cfg.get("codec"))
    if rule.startswith("satisfiable-but-"):
        return "C01:%s:%s" % (rule, primary(features(desc)))
    return "C01:%s" % rule


def _decoded_parts(c: dict) -> dict:
    from .encode import decode_value

    d = {k: decode_value(v) for k, v in c["parts"].items() if v["t"] != "absent"}
    if c["hasBody"]:
        d["body"] = decode_value(c["body"])
    return d


def run_property(ctx: Ctx, pid: str, family: str, jobs_for, n_label: str, sign, rule_text: str) -> Outcome:
    setup_env(ctx)
    out = Outcome()
    rng = random.Random(ctx.seed)
    descs, res = enumerate_family(family, ctx.tier)
    _spec_violations(pid, res, out)
    jobs = [j for d in descs for j in jobs_for(d)]
    t1 = time.time()
    results = pmap(_work, jobs)
    t_gen = time.time() - t1
    ops, obs, back = assemble(pid, jobs, results)
    dis, und, jres = judge(ctx, [], ops, obs)
    outcomes = _count(r["outcome"] for r in results)
    errors = _count(":".join(r["error"].split(":")[:2]) for r in results if r["error"])
    for i, rule in [(i, r) for i in sorted(dis) for r in dis[i][0]]:
        detail = dis[i][1]
        ji, c = back[i - 1]
        job = jobs[ji]
        sig = sign(rule, detail, job["desc"], c)
        if c is None:
            summary = "%s: outcome %s (%s) for %s mode=%s modes=%s" % (rule, results[ji]["outcome"], results[ji]["error"], _short(job["desc"]), job["mode"], job["modes"])
        else:
            summary = "%s: labels %s parts %s verdicts %s keywords %s for %s cfg=%s" % (
                rule, {k: v for k, v in c["labels"].items() if v != "none"}, json.dumps(_decoded_parts(c), default=repr)[:200], [tuple(t) for t in part_detail(detail)],
                kw_detail(detail), _short(job["desc"]), job["desc"].get("cfg"))
        out.violations.append(Violation(sig, summary, {"job": job, "rule": rule, "case": c}))
    n_cases = sum(1 for o in obs if o["kind"] == "case")
    pool = [j for j in range(len(obs)) if obs[j]["kind"] == "case" and (j + 1) not in und]
    samples = []
    for j in common.sample(rng, pool, 5):
        ji, c = back[j]
        samples.append({"descriptor": _short(jobs[ji]["desc"])[:300], "mode": jobs[ji]["mode"], "labels": c["labels"],
                        "parts": json.dumps(_decoded_parts(c), default=repr)[:200], "rules": dis.get(j + 1, (["ok"],))[0]})
    out.coverage = {
        "states": res.distinct, "transitions": res.generated, "operation_descriptors": len(descs), "jobs": len(jobs),
        "groups": _count(d["group"] + "/" + d["dialect"] for d in descs),
        "traces_validated_against_impl": len(obs), "case_observations": n_cases, "outcome_observations": len(obs) - n_cases,
        "draws": sum(r.get("drawn", 0) for r in results), "outcomes": outcomes, "setup_or_draw_errors": errors,
        "evaluations": len(obs), "distinct_nontrivial": len(obs) - len(und), "skipped_outside_fragment": len(und),
        "samples": samples, "disagreements": len(dis),
        "rule": rule_text, "exhaustive": {"descriptors": True, "draws": False},
        "constants": {"cfg": "GenData_%s_%s.cfg" % (family, ctx.tier), "draws_per_job": n_label},
        "tlc_enumeration_s": round(res.wall_s, 1), "generation_s": round(t_gen, 1), "tlc_judge_s": round(jres.wall_s, 1), "judge_states": jres.distinct,
    }
    out.assumptions = [
        "Hypothesis is the driver of the draws (seeded, database off, health checks suppressed), never the oracle; draws are explored, not enumerated",
        "path values are stored percent-encoded by the pipeline: judged as stored and once decoded, disagreement => undecided",
        "an undeclared parameter in a location makes that location's verdict undecided",
        "satisfiable / negatable are claimed only with a witness from GenData's bounded value universe",
    ]
    if errors:
        out.notes.append("setup/draw errors (reported as outcome 'error', judged by the outcome rule only): %s" % errors)
    return out


def run(ctx: Ctx) -> Outcome:
    n = 20 if ctx.quick else 50

    def jobs_for(d: dict) -> list[dict]:
        # the configuration group crosses two string restrictions in five locations: rare characters need more draws
        cfg = d.get("cfg") or {}
        k = 1
        if d["group"] == "config":      # a NUL / non-codec character in a short header value is a ~1 % event per value
            k = 8 if (not cfg.get("allow_x00") and cfg.get("codec") != "utf-8") else 2
        return [{"desc": d, "mode": "positive", "modes": ["positive"], "n": min(k * n, max(n, 160)), "seed": ctx.seed}]

    return run_property(ctx, "C01", "c01", jobs_for, str(n), signature,
                        "every operation descriptor reachable in GenData.tla family c01 (TLC-enumerated; exhaustive inside a location group, pairwise "
                        "across groups, configs allow_x00 x codec x security) x %d seeded Hypothesis draws each from as_strategy(POSITIVE); every "
                        "distinct drawn case and every per-descriptor outcome is judged; non-trivial = some present part got a definite verdict" % n)


def replay(ctx: Ctx, data: dict) -> Outcome:
    return replay_property(ctx, "C01", data, signature)


def replay_property(ctx: Ctx, pid: str, data: dict, sign) -> Outcome:
    setup_env(ctx)
    out = Outcome()
    if data.get("kind") == "spec":
        return out
    job = data["job"]
    r = _work(job)
    ops, obs, back = assemble(pid, [job], [r])
    dis, _, _ = judge(ctx, [], ops, obs)
    for i, rule in [(i, r) for i in sorted(dis) for r in dis[i][0]]:
        detail = dis[i][1]
        if rule == data["rule"]:
            out.violations.append(Violation(sign(rule, detail, job["desc"], back[i - 1][1]), rule, data))
    return out


def selftest_cases():
    from .encode import bundle

    sch = bundle({"type": "string", "pattern": "[a-z]+", "maxLength": 3}, {}, "3.0")
    ro = bundle({"type": "object", "properties": {"a": {"type": "integer", "readOnly": True}, "b": {"type": "string"}}}, {}, "3.0")
    op = {"params": [{"loc": "query", "name": cps("q"), "required": True, "schema": sch["schema"]}],
          "bodies": [{"media": "application/json", "schema": ro["schema"], "required": True}],
          "cfg": {"allow_x00": False, "codec": "ascii", "security": False}, "defs": sch["defs"], "dia": "d4", "methods": ["POST"]}
    absent = {"t": "absent"}

    def case(prop, label, qv, body, qlabel="positive", blabel="positive", others="none"):
        q = encode_value({"q": qv}) if qv is not None else absent
        return {"kind": "case", "prop": prop, "opi": 1, "c": {
            "labels": {"case": label, "path": others, "query": qlabel, "header": others, "cookie": others, "body": blabel},
            "parts": {"path": absent, "query": q, "header": absent, "cookie": absent}, "alt": {"path": absent, "query": q, "header": absent, "cookie": absent},
            "hasBody": body is not None, "body": encode_value(body) if body is not None else absent, "media": "application/json",
            "dup": False, "method": "POST", "exempt": False}}

    return op, case


def selftest(ctx: Ctx) -> bool:
    """Binding: corrupted draws must be rejected by the TLA+ judge with the right rule, faithful ones accepted."""
    op, case = selftest_cases()
    obs = [case("C01", "positive", "abc", {"b": "x"}),                    # 1 faithful
           case("C01", "positive", "abcd", {"b": "x"}),                   # 2 maxLength dropped
           case("C01", "positive", "abc", {"a": 1, "b": "x"}),            # 3 readOnly property sent
           case("C01", "positive", "ab\x00", {"b": "x"}),                 # 4 NUL although allow_x00 is off
           case("C01", "positive", "abc", {"b": "é"}),               # 5 outside the ascii codec
           case("C01", "positive", None, {"b": "x"}, qlabel="positive"),  # 6 required parameter missing
           case("C01", "negative", "abc", {"b": "x"}),                    # 7 wrong case label
           {"kind": "outcome", "prop": "C01", "opi": 1, "outcome": "unsat", "negOnly": False},   # 8 satisfiable but unsat
           {"kind": "outcome", "prop": "C01", "opi": 1, "outcome": "cases", "negOnly": False}]   # 9 fine
    dis, _, _ = judge(ctx, [], [op], obs, name="selftest.json")
    got = {i: dis[i][0][0] for i in dis}
    want = {2: "parameters-do-not-conform", 3: "body-does-not-conform", 4: "nul-character", 5: "outside-codec",
            6: "parameters-do-not-conform", 7: "case-not-labelled-positive", 8: "satisfiable-but-unsat"}
    if got != want:
        print("selftest: judge said", got, "expected", want)
        return False
    return kw_detail(dis[2][1]) == {"query": ["maxLength"]} and kw_detail(dis[3][1]) == {"body": ["props"]}


def main(argv=None) -> int:
    return common.main("C01", run, replay, selftest, argv)
