"""Spec -> code for C14's auth cache: behaviours of spec/AuthCache.tla are forced, step by step, onto real threads calling the
real CachingAuthProvider / KeyedCachingAuthProvider (auths.py) through the auth.* hook points, with a fake timer driven by the
model's Tick action.  The provider double logs every fetch (key, model time); callers log what they got back.

Token per model action:  Read(t) -> (t, "read")      granted before the thread enters get() (cache read + decision happen at the grant)
                         Acquire(t) -> (t, "acquire") parked at auth.before_lock
                         ReRead(t) -> (t, "reread")   parked at auth.locked (lock held, before the in-lock re-read)
                         Fetch(t) -> (t, "fetch")     parked inside the provider double's get()
                         FetchFail(t) -> (t, "fetchfail")  same parking place; the double raises ProviderFault instead of returning a token
                         Write(t) -> (t, "write")     parked at auth.fetched (before the cache entry is written)
                         Tick -> ("env", "tick")      performed by whichever thread finds it at the head of the schedule
"""
from __future__ import annotations

import threading
import time
from typing import Any


class ProviderFault(Exception):
    """What the provider double raises for the model's FetchFail action."""


class AuthScheduler:
    def __init__(self, steps: list[tuple], patience: float = 3.0):
        self.steps = steps
        self.idx = 0
        self.now = 0
        self.cv = threading.Condition()
        self.free = False
        self.diverged = ""
        self.patience = patience
        self.role: dict[int, int] = {}
        self.fetches: list[dict] = []
        self.returned: list[dict] = []
        self.nfails = 0
        self.log_lock = threading.Lock()

    def bind(self, t: int) -> None:
        self.role[threading.get_ident()] = t

    def gate(self, token: str, alt: str | None = None) -> str | None:
        """Waits until the schedule's next step is (this thread, token) - or (this thread, alt) - and returns the one that matched."""
        if self.free:
            return None
        t = self.role.get(threading.get_ident())
        deadline = time.monotonic() + self.patience
        with self.cv:
            while not self.free:
                while self.idx < len(self.steps) and self.steps[self.idx] == ("env", "tick"):
                    self.now += 1
                    self.idx += 1
                    self.cv.notify_all()
                if self.idx >= len(self.steps):
                    self.free = True
                    self.cv.notify_all()
                    return None
                if self.steps[self.idx] == (t, token) or (alt is not None and self.steps[self.idx] == (t, alt)):
                    matched = self.steps[self.idx][1]
                    self.idx += 1
                    self.cv.notify_all()
                    return matched
                remaining = deadline - time.monotonic()
                if remaining <= 0:
                    self.diverged = "thread %s waits for %r, schedule expects %r at step %d" % (t, token, self.steps[self.idx], self.idx)
                    self.free = True
                    self.cv.notify_all()
                    return None
                self.cv.wait(min(remaining, 0.05))
        return None

    # _verif controller API
    def point(self, name: str, data: dict) -> None:
        if name == "auth.before_lock":
            self.gate("acquire")
        elif name == "auth.locked":
            self.gate("reread")
        elif name == "auth.fetched":
            self.gate("write")

    def timer(self) -> float:
        return float(self.now)


class ProviderDouble:
    def __init__(self, sched: AuthScheduler):
        self.sched = sched

    def get(self, case: Any, context: Any) -> Any:
        if self.sched.gate("fetch", "fetchfail") == "fetchfail":
            with self.sched.log_lock:
                self.sched.nfails += 1
            raise ProviderFault("token endpoint unavailable")
        with self.sched.log_lock:
            self.sched.fetches.append({"k": int(case), "at": int(self.sched.now)})
            return len(self.sched.fetches)

    def set(self, case: Any, data: Any, context: Any) -> None:
        pass


def steps_of(beh: list[tuple[str, int, dict]]) -> tuple[list[tuple], dict[int, list[int]], list[dict]]:
    """Model behaviour -> (tokens, per-thread list of keys to call in order, the model's fetch log at the end).
    The number of failed fetches of the behaviour is `sum(1 for s in tokens if s[1] == "fetchfail")`."""
    steps: list[tuple] = []
    calls: dict[int, list[int]] = {}
    final_fetches: list[dict] = []
    tok = {"Read": "read", "Acquire": "acquire", "ReRead": "reread", "Fetch": "fetch", "FetchFail": "fetchfail", "Write": "write"}
    for action, t, st in beh:
        if action == "Call":
            calls.setdefault(t, []).append(st["key"][t - 1])
        elif action in tok:
            steps.append((t, tok[action]))
        elif action == "Tick":
            steps.append(("env", "tick"))
        if st.get("fetches") is not None:
            final_fetches = st["fetches"]
    return steps, calls, final_fetches


def run_forced(steps: list[tuple], calls: dict[int, list[int]], R: int, keyed: bool) -> dict:
    from schemathesis import _verif
    from schemathesis.auths import CachingAuthProvider, KeyedCachingAuthProvider

    sched = AuthScheduler(steps)
    double = ProviderDouble(sched)
    if keyed:
        provider = KeyedCachingAuthProvider(provider=double, refresh_interval=R, timer=sched.timer, cache_by_key=lambda case, ctx: case)
    else:
        provider = CachingAuthProvider(provider=double, refresh_interval=R, timer=sched.timer)

    def worker(t: int) -> None:
        sched.bind(t)
        for k in calls.get(t, []):
            sched.gate("read")
            try:
                data = provider.get(k, None)
            except ProviderFault:
                continue
            with sched.log_lock:
                sched.returned.append({"t": t, "k": int(k), "data": int(data), "at": int(sched.now)})

    _verif.install(sched)
    try:
        threads = [threading.Thread(target=worker, args=(t,), daemon=True) for t in sorted(calls)]
        for th in threads:
            th.start()
        for th in threads:
            th.join(20)
        hung = any(th.is_alive() for th in threads)
    finally:
        _verif.uninstall()
    return {"fetches": sched.fetches, "returned": sched.returned, "R": R, "diverged": sched.diverged, "nfails": sched.nfails,
            "hung": hung, "followed": sched.idx, "nsteps": len(steps)}


def run_free(nthreads: int, ncalls: int, R_ms: int, keys: int, keyed: bool, fail_every: int = 0) -> dict:
    """Free-running real threads and the real monotonic clock (integer milliseconds)."""
    from schemathesis.auths import CachingAuthProvider, KeyedCachingAuthProvider

    t0 = time.monotonic()
    lock = threading.Lock()
    fetches: list[dict] = []
    returned: list[dict] = []

    def now_ms() -> float:
        return (time.monotonic() - t0) * 1000.0

    attempts = [0]
    nfails = [0]

    class Double:
        def get(self, case, context):
            with lock:
                attempts[0] += 1
                if fail_every and attempts[0] % fail_every == 1:
                    nfails[0] += 1
                    raise ProviderFault("token endpoint unavailable")
                fetches.append({"k": int(case), "at": int(now_ms())})
                n = len(fetches)
            time.sleep(0.0005)
            return n

        def set(self, case, data, context):
            pass

    if keyed:
        provider = KeyedCachingAuthProvider(provider=Double(), refresh_interval=R_ms, timer=now_ms, cache_by_key=lambda case, ctx: case)
    else:
        provider = CachingAuthProvider(provider=Double(), refresh_interval=R_ms, timer=now_ms)
        keys = 1

    def worker(t: int) -> None:
        for i in range(ncalls):
            k = 1 + (t + i) % keys
            try:
                data = provider.get(k, None)
            except ProviderFault:
                continue
            with lock:
                returned.append({"t": t, "k": k, "data": int(data), "at": int(now_ms())})
            if i % 7 == 0:
                time.sleep(0.001)

    threads = [threading.Thread(target=worker, args=(t,), daemon=True) for t in range(1, nthreads + 1)]
    for th in threads:
        th.start()
    for th in threads:
        th.join(30)
    hung = any(th.is_alive() for th in threads)
    # the fetch timestamp is taken inside the provider, i.e. AFTER the expiry comparison that allowed it, and int() truncation
    # can only lose < 1 ms on each side: the judge gets R - 1 to stay sound
    return {"fetches": fetches, "returned": returned[:50], "R": R_ms - 1, "diverged": "", "hung": hung, "nfails": nfails[0], "followed": 0,
            "nsteps": 0}
