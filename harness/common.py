"""Shared plumbing of every check: context, violations, known findings, evidence, exit codes."""
from __future__ import annotations

import json
import os
import shutil
import sys
import tempfile
import time
import traceback
from dataclasses import dataclass, field
from typing import Any, Callable

ROOT = os.path.dirname(os.path.dirname(os.path.abspath(__file__)))
SPEC = os.path.join(ROOT, "spec")
EVIDENCE = os.environ.get("VERIF_EVIDENCE_DIR") or os.path.join(ROOT, "evidence")   # overridden only by tools/try_patch.sh
REPLAYS = os.environ.get("VERIF_REPLAYS_DIR") or os.path.join(ROOT, "replays")
KNOWN = os.path.join(ROOT, "known_findings.json")
NPROC = min(16, os.cpu_count() or 4)


@dataclass
class Violation:
    signature: str  # canonical key of the failing input class (Appendix E)
    summary: str  # one line: what fails
    replay: dict  # self-contained data for --replay


@dataclass
class Outcome:
    coverage: dict = field(default_factory=dict)
    violations: list[Violation] = field(default_factory=list)
    assumptions: list[str] = field(default_factory=list)
    notes: list[str] = field(default_factory=list)


@dataclass
class Ctx:
    pid: str
    tier: str
    seed: int
    work: str  # scratch directory, removed afterwards
    selftest: bool = False

    @property
    def quick(self) -> bool:
        return self.tier == "quick"

    def path(self, name: str) -> str:
        return os.path.join(self.work, name)


def load_known() -> list[dict]:
    try:
        return json.load(open(KNOWN))["findings"]
    except FileNotFoundError:
        return []


def finish(ctx: Ctx, out: Outcome, t0: float, level: str = "model_checking") -> int:
    """Classify violations against known findings, write evidence, print the verdict lines, return the exit code."""
    known = [k for k in load_known() if k["property"] == ctx.pid]
    open_sigs = {k["signature"]: k for k in known if k.get("status") == "open"}
    new: list[Violation] = []
    matched: dict[str, int] = {}
    first_of: dict[str, Violation] = {}
    for v in out.violations:
        if v.signature in open_sigs:
            matched[v.signature] = matched.get(v.signature, 0) + 1
            first_of.setdefault(v.signature, v)
        else:
            new.append(v)
    for sig, n in sorted(matched.items()):
        print("KNOWN-FINDING: property=%s %s [%s] (%d instance(s) this run; e.g. %s)" % (
            ctx.pid, open_sigs[sig]["what"], sig, n, first_of[sig].summary))
    rc = 0
    if new:
        rc = 1
        d = os.path.join(REPLAYS, ctx.pid)
        os.makedirs(d, exist_ok=True)
        seen: dict[str, int] = {}
        for v in new:
            seen[v.signature] = seen.get(v.signature, 0) + 1
            if seen[v.signature] > 3 or len(seen) > 40:
                continue  # at most 3 replay files per signature
            name = "%s-%d.json" % ("".join(c if c.isalnum() else "_" for c in v.signature)[:80], seen[v.signature])
            path = os.path.join(d, name)
            with open(path, "w") as fd:
                json.dump({"property": ctx.pid, "signature": v.signature, "summary": v.summary, "replay": v.replay}, fd, indent=1)
            print("VIOLATION property=%s replay=%s  # %s :: %s" % (ctx.pid, path, v.signature, v.summary))
        for sig, n in sorted(seen.items()):
            print("  violations with signature %s: %d" % (sig, n))
    cov = dict(out.coverage)
    if not isinstance(cov.get("exhaustive", False), bool):   # schema wants a boolean; keep the per-dimension detail next to it
        cov["exhaustive_detail"] = cov["exhaustive"]
        cov["exhaustive"] = bool(all(cov["exhaustive"].values())) if isinstance(cov["exhaustive"], dict) else bool(cov["exhaustive"])
    for key in ("states", "transitions", "traces_validated_against_impl", "evaluations", "distinct_nontrivial"):
        if key in cov and not isinstance(cov[key], int):
            cov[key] = int(cov[key])
    cov.setdefault("known_findings_matched", {k: v for k, v in matched.items()})
    ev = {
        "property_id": ctx.pid,
        "tier": ctx.tier,
        "seed": ctx.seed,
        "level": level,
        "coverage": cov,
        "assumptions": out.assumptions,
        "wall_s": round(time.time() - t0, 2),
        "violations": len(new),
    }
    try:   # never leave an evidence file that does not validate
        import jsonschema

        jsonschema.validate(ev, json.load(open("/root/.vp/EVIDENCE.schema.json")))
    except ImportError:
        pass
    except FileNotFoundError:
        pass
    os.makedirs(EVIDENCE, exist_ok=True)
    tmp = os.path.join(EVIDENCE, ".%s.json.tmp" % ctx.pid)
    with open(tmp, "w") as fd:
        json.dump(ev, fd, indent=1, sort_keys=True)
    os.replace(tmp, os.path.join(EVIDENCE, "%s.json" % ctx.pid))
    for n in out.notes:
        print("note:", n)
    print("%s %s tier=%s seed=%d wall=%.1fs new_violations=%d known=%d" % (
        ctx.pid, "FAIL" if rc else "ok", ctx.tier, ctx.seed, time.time() - t0, len(new), sum(matched.values())))
    return rc


def main(pid: str, run: Callable[[Ctx], Outcome], replay: Callable[[Ctx, dict], Outcome] | None = None,
         selftest: Callable[[Ctx], bool] | None = None, argv: list[str] | None = None) -> int:
    import argparse

    ap = argparse.ArgumentParser(prog="check " + pid)
    ap.add_argument("--tier", default=os.environ.get("VERIF_TIER", "quick"), choices=["quick", "thorough"])
    ap.add_argument("--replay")
    ap.add_argument("--selftest", action="store_true")
    ap.add_argument("--keep", action="store_true", help="keep the scratch directory")
    args = ap.parse_args(argv)
    seed = int(os.environ.get("VERIF_SEED", "0") or 0)
    os.environ["SCHEMATHESIS_VERIF"] = "1"
    os.environ.setdefault("PYTHONHASHSEED", "0")
    work = tempfile.mkdtemp(prefix="verif-%s-" % pid, dir=os.environ.get("VERIF_SCRATCH") or None)
    ctx = Ctx(pid=pid, tier=args.tier, seed=seed, work=work, selftest=args.selftest)
    t0 = time.time()
    try:
        if args.selftest:
            if selftest is None:
                print("no selftest for", pid)
                return 2
            ok = selftest(ctx)
            print("selftest", "ok" if ok else "FAILED")
            return 0 if ok else 2
        if args.replay:
            data = json.load(open(args.replay))
            if replay is None:
                print("no replay for", pid)
                return 2
            out = replay(ctx, data["replay"])
            for v in out.violations:
                print("REPRODUCED %s :: %s" % (v.signature, v.summary))
            if not out.violations:
                print("not reproduced")
            return 1 if out.violations else 0
        out = run(ctx)
        return finish(ctx, out, t0)
    except SystemExit:
        raise
    except BaseException:  # machinery failure: never a verdict
        traceback.print_exc()
        print("MACHINERY-FAILURE property=%s (exit 2; not a verdict)" % pid)
        return 2
    finally:
        if not args.keep:
            shutil.rmtree(work, ignore_errors=True)
        else:
            print("scratch kept:", work)


def chunks(seq: list, n: int) -> list[list]:
    n = max(1, n)
    return [seq[i::n] for i in range(n) if seq[i::n]]


def pmap(fn: Callable, items: list, procs: int = NPROC, chunk: int | None = None) -> list:
    """Order-preserving multiprocessing map over picklable items; falls back to serial for small inputs."""
    import multiprocessing as mp

    if len(items) < 32 or procs <= 1 or os.environ.get("VERIF_SERIAL"):   # VERIF_SERIAL: audits (tools/cov_audit.sh) measure one process
        return [fn(x) for x in items]
    cs = chunk or max(1, len(items) // (procs * 8))
    with mp.get_context("fork").Pool(procs) as pool:
        # bounded: an item that never returns (a generator that loops) must end the check as a machinery failure, not hang it
        return pool.map_async(fn, items, chunksize=cs).get(timeout=float(os.environ.get("VERIF_PMAP_TIMEOUT", "3000")))


def sample(rng, items: list, k: int) -> list:
    if len(items) <= k:
        return list(items)
    return rng.sample(items, k)
