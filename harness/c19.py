"""C19 - extensions (hooks, auth providers) apply exactly where their own filters say.

spec/Hooks.tla enumerates registration / unregistration histories over the global, schema and test dispatchers in every
decorator form; spec/HooksAuth.tla does the same for AuthStorage.register / __call__ / set_from_requests / apply.  Every
history is replayed into the real schemathesis objects, a case is generated for every operation through the real strategy
with marker-writing hooks / providers, and the observed (hook, operation) matrix is compared with the spec's and judged by
TLC (spec/HooksJudge.tla, spec/HooksAuthJudge.tla).
"""
from __future__ import annotations

import json
import random
import re
import time

from . import common, tlc
from .common import Ctx, Outcome, Violation

CONTAINERS = ("path_parameters", "query", "headers", "cookies", "body", "case")
_state: dict = {}
_CAT: dict = {}  # catalogue exported by the spec (operations, chains); set in the parent before forking


# ---------------------------------------------------------------------------------------------------
# spec -> code: concretisation
# ---------------------------------------------------------------------------------------------------
def text(t) -> str:
    return "".join(t)


def build_raw(ops: list[dict], which: str = "A") -> dict:
    """OpenAPI document for the operations of schema `which` of the spec's universe: every operation has a query parameter and
    a JSON body, so that every hook container is generated for every operation."""
    paths: dict = {}
    for op in ops:
        if op.get("schema", "A") != which:
            continue
        d: dict = {
            "parameters": [{"name": "q", "in": "query", "schema": {"type": "string", "maxLength": 2}}],
            "requestBody": {"required": True, "content": {"application/json": {"schema": {
                "type": "object", "properties": {"k": {"type": "integer"}}, "additionalProperties": False}}}},
            "responses": {"200": {"description": "ok"}},
        }
        if op["tags"]:
            d["tags"] = [text(t) for t in op["tags"]]
        if op["opid"]:
            d["operationId"] = text(op["opid"])
        paths.setdefault(text(op["path"]), {})[text(op["method"])] = d
    return {"openapi": "3.0.2", "info": {"title": "c19-" + which, "version": "1"}, "paths": paths}


def _custom_function(by: str, value: str):
    """A user-written matcher function deciding `attribute == value` / `value in tags` on its own."""
    def matcher(ctx) -> bool:
        op = ctx.operation
        if by == "tag":
            return value in (op.tags or [])
        if by == "method":
            return op.method.upper() == value.upper()
        if by == "path":
            return op.path == value
        return op.label == value

    matcher.__name__ = "user_matcher_%s_%s" % (by, "".join(c if c.isalnum() else "_" for c in value))
    return matcher


def atom_kwargs(atoms: list[dict]) -> dict:
    """One apply_to / skip_for call: keyword conditions of a conjunction ("func": a custom function, passed positionally)."""
    kw: dict = {}
    for a in atoms:
        by, how = a["by"], a["how"]
        if how == "func":
            kw["func"] = _custom_function(by, text(a["v"]))
        elif how == "value":
            kw[by] = text(a["v"])
        elif how == "list":
            kw[by] = [text(v) for v in a["vs"]]
        else:
            lit = re.escape(text(a["v"]))
            kw[by + "_regex"] = {"prefix": "^" + lit, "suffix": lit + "$", "infix": lit, "exact": "^" + lit + "$"}[how]
    return kw


def apply_chain(target, chain: list[dict]):
    for call in chain:
        kw = atom_kwargs(call["a"])
        func = kw.pop("func", None)
        target = getattr(target, call["m"])(func, **kw) if func is not None else getattr(target, call["m"])(**kw)
    return target


def concretise(events: list[dict], cat: dict) -> list[dict]:
    return [dict(e, chain=(cat["chains"][e["c"]] if e.get("c", "-") != "-" else [])) for e in events]


def _setup(ops: list[dict]) -> dict:
    key = json.dumps(ops, sort_keys=True)
    if _state.get("key") != key:
        import schemathesis
        from hypothesis import HealthCheck, Phase, given, settings
        from hypothesis import strategies as st
        from schemathesis import auths, hooks, schemas
        from schemathesis.core import NOT_SET
        from schemathesis.generation import GenerationMode

        raws = {w: build_raw(ops, w) for w in ("A", "B")}
        _state.clear()
        _state.update(
            key=key, raws=raws, schemathesis=schemathesis, hooks=hooks, schemas_mod=schemas, auths=auths, st=st, given=given,
            NOT_SET=NOT_SET, NEGATIVE=GenerationMode.NEGATIVE,
            settings=settings(max_examples=1, database=None, derandomize=True, phases=[Phase.generate], deadline=None,
                              suppress_health_check=list(HealthCheck)),
            schemas={w: schemathesis.openapi.from_dict(raws[w]) for w in ("A", "B")},
            # per schema: (index in the spec's operation list, path, METHOD)
            idx={w: [(i, text(o["path"]), text(o["method"]).upper()) for i, o in enumerate(ops) if o.get("schema", "A") == w]
                 for w in ("A", "B")},
            nops=len(ops),
        )
    return _state


def _fresh_schemas(st_: dict, fresh: bool) -> dict:
    """The two schemas of the universe with the hook / auth state of newly loaded ones.

    fresh=True loads new schema objects.  fresh=False reuses the per-process schemas (operations and their cached base
    strategies are expensive to rebuild) and re-creates exactly the fields a new instance gets: `hooks` (dataclass default
    factory), `hook` (BaseSchema.__post_init__) and `auth`.  Either way the SAME schema and operation objects serve every
    generation of one history."""
    if fresh:
        return {w: st_["schemathesis"].openapi.from_dict(st_["raws"][w]) for w in ("A", "B")}
    for schema in st_["schemas"].values():
        schema.hooks = st_["hooks"].HookDispatcher(scope=st_["hooks"].HookScope.SCHEMA)
        schema.auth = st_["auths"].AuthStorage()
        schema.__post_init__()
    return st_["schemas"]


def _draw_all(st_: dict, schemas: dict, order: str, kw_a: dict, kw_b: dict | None = None) -> list:
    """One generated case per operation of the schemas named in `order` ("AB" / "BA" / "A"): strategies are built and drawn
    in that order; returns the cases in the spec's operation order (None for a schema that is not used).  Schema A is generated
    with the test-level arguments, schema B without."""
    cases: list = [None] * st_["nops"]
    entries, strategies = [], []
    for which in order:
        for i, p, m in st_["idx"][which]:
            entries.append(i)
            strategies.append(schemas[which][p][m].as_strategy(**(kw_a if which == "A" else (kw_b or {}))))
    got: list = []

    @st_["given"](st_["st"].tuples(*strategies))
    @st_["settings"]
    def collect(drawn):
        got[:] = drawn

    collect()
    for i, case in zip(entries, got):
        cases[i] = case
    return cases


def _split(name: str) -> tuple[str, str]:
    if name == "before_init_operation":
        return "init", "operation"
    for c in CONTAINERS:
        if name.endswith("_" + c):
            return name[: -len(c) - 1], c
    raise ValueError(name)


def _make_hook(h: int, name: str, own_name: bool, log: set, NOT_SET):
    kind, container = _split(name)
    key = "m%d" % h

    def mark(value):
        if container == "case":
            value.query = dict(value.query or {}, **{key: "1"})
            return value
        if isinstance(value, dict):
            return dict(value, **{key: "1"})
        return {key: "1"}

    if kind == "map":
        def hook(context, value):
            log.add((h, context.operation.schema.raw_schema["info"]["title"], context.operation.label))
            return mark(value)
    elif kind == "init":
        def hook(context, operation):
            log.add((h, operation.schema.raw_schema["info"]["title"], operation.label))
    elif kind == "filter":
        def hook(context, value):
            log.add((h, context.operation.schema.raw_schema["info"]["title"], context.operation.label))
            return True
    elif kind == "flatmap":
        def hook(context, value):
            from hypothesis import strategies as st

            log.add((h, context.operation.schema.raw_schema["info"]["title"], context.operation.label))
            return st.just(mark(value))
    else:
        def hook(context, strategy):
            log.add((h, context.operation.schema.raw_schema["info"]["title"], context.operation.label))
            return strategy.map(mark)
    hook.__name__ = name if own_name else "user_function_%d" % h
    hook.__qualname__ = hook.__name__
    return hook


def observe_hooks(events: list[dict], ops: list[dict], order: str = "AB", fresh: bool = False) -> dict:
    """Replay a history on new dispatchers.  At every Generate event and once at the end a case is generated for every operation
    of both schemas (same schema / operation objects throughout) and it is reported, per hook registered so far and operation,
    whether the hook's effect is visible in that case.  Returns {"obs": [matrix per generation], "called": [...], "err", "exc"}."""
    st_ = _setup(ops)
    hooks_mod, schemas_mod = st_["hooks"], st_["schemas_mod"]
    HD, Scope = hooks_mod.HookDispatcher, hooks_mod.HookScope
    glob = HD(scope=Scope.GLOBAL)  # what `schemathesis.hooks` creates at import time
    saved = (hooks_mod.GLOBAL_HOOK_DISPATCHER, schemas_mod.GLOBAL_HOOK_DISPATCHER, schemas_mod.dispatch)
    hooks_mod.GLOBAL_HOOK_DISPATCHER = schemas_mod.GLOBAL_HOOK_DISPATCHER = glob
    schemas_mod.dispatch = glob.dispatch  # `schemas.dispatch` is the global dispatcher's bound method (hooks.dispatch)
    try:
        schemas = _fresh_schemas(st_, fresh)
        schema = schemas["A"]

        def test_function(case):
            pass

        def registrar(r: str):
            if r == "global":
                return glob.register  # == schemathesis.hook
            if r == "schema":
                return schema.hook
            if r == "schema_hooks":
                return schema.hooks.register
            return HD.add_dispatcher(test_function).register

        def dispatcher(scope: str):
            if scope == "global":
                return glob
            if scope == "schema":
                return schema.hooks
            return hooks_mod.HookDispatcherMark.get(test_function)

        log: set = set()
        functions: list = []
        names: list = []

        def perform(e: dict) -> None:
            if e["ev"] == "unreg":
                d = dispatcher(e["r"])
                if d is not None:
                    d.unregister(functions[e["t"] - 1])
                return
            h = len(functions) + 1
            form, name = e["f"], e["n"]
            fn = _make_hook(h, name, own_name=form in ("bare", "filt_bare", "apply_own"), log=log, NOT_SET=st_["NOT_SET"])
            functions.append(fn)
            names.append(name)
            if form == "apply":
                schema.hooks.apply(fn, name=name)(test_function)
                return
            if form == "apply_own":
                schema.hooks.apply(fn)(test_function)
                return
            reg = registrar(e["r"])
            if form == "bare":
                reg(fn)
            elif form == "named":
                reg(name)(fn)
            elif form == "filt_bare":
                apply_chain(reg, e["chain"])(fn)
            elif form == "filt_named":
                apply_chain(reg, e["chain"])(name)(fn)
            elif form == "named_filt":
                apply_chain(reg(name), e["chain"])(fn)
            else:
                raise ValueError(form)

        titles = {w: st_["raws"][w]["info"]["title"] for w in ("A", "B")}
        where = [None] * st_["nops"]
        for w in ("A", "B"):
            for i, p_, m_ in st_["idx"][w]:
                where[i] = (titles[w], "%s %s" % (m_, p_))

        def generate(mode: str) -> tuple[list, list]:
            log.clear()
            with_test = mode != "without_test"
            kw = {"hooks": hooks_mod.HookDispatcherMark.get(test_function)} if with_test else {}
            extra = {"query": {"q": "x"}} if mode == "with_test_explicit" else (
                {"generation_mode": st_["NEGATIVE"]} if mode == "with_test_negative" else {})
            if "before_init_operation" in names:
                # operations are created (and `before_init_operation` dispatched) whenever a schema is iterated; a test is bound
                # to schema A the way `parametrize()` does it
                for which in order:
                    target = schemas[which]
                    if which == "A" and with_test:
                        target = target.clone(test_function=test_function)
                    list(target.get_all_operations())
            cases = _draw_all(st_, schemas, order, dict(kw, **extra), extra)
            obs, called = [], []
            for h, name in enumerate(names, 1):
                kind, container = _split(name)
                row_obs, row_called = [], []
                for case, (title, label) in zip(cases, where):
                    was_called = (h, title, label) in log
                    if kind in ("filter", "init") or case is None:
                        seen = was_called
                    else:
                        value = case.query if container == "case" else getattr(case, container)
                        seen = value is not None and hasattr(value, "keys") and ("m%d" % h) in value
                    row_obs.append(1 if seen else 0)
                    row_called.append(1 if was_called else 0)
                obs.append(row_obs)
                called.append(row_called)
            return obs, called

        all_obs, all_called = [], []
        for k, e in enumerate(events, 1):
            if e["ev"] == "gen":
                o_, c_ = generate(e["f"])
                all_obs.append(o_)
                all_called.append(c_)
                continue
            try:
                perform(e)
            except Exception as exc:  # the spec says every call of the history succeeds
                return {"obs": [], "called": [], "err": k, "exc": "%s: %s" % (type(exc).__name__, exc)}
        o_, c_ = generate("with_test")
        all_obs.append(o_)
        all_called.append(c_)
        return {"obs": all_obs, "called": all_called, "err": 0, "exc": ""}
    finally:
        hooks_mod.GLOBAL_HOOK_DISPATCHER, schemas_mod.GLOBAL_HOOK_DISPATCHER, schemas_mod.dispatch = saved


def observe_auth(events: list[dict], ops: list[dict], order: str = "AB", fresh: bool = False) -> list[int]:
    """Replay an auth-registration history; per operation (both schemas, used in the given order) the id of the provider whose
    data is on the generated case (0: none)."""
    import requests.auth

    st_ = _setup(ops)
    auths = st_["auths"]
    glob = auths.GLOBAL_AUTH_STORAGE  # == schemathesis.auth
    glob.unregister()
    try:
        schemas = _fresh_schemas(st_, fresh)
        schema = schemas["A"]

        def test_function(case):
            pass

        def storage(scope: str):
            return glob if scope == "global" else schema.auth

        class MarkerAuth(requests.auth.AuthBase):
            def __init__(self, pid):
                self.pid = pid

            def __call__(self, r):
                return r

        n = 0
        for e in events:
            if e["ev"] == "aunreg":
                storage(e["s"]).unregister()
                continue
            n += 1
            pid = n

            def make_provider(pid=pid):
                class Provider:
                    def get(self, case, context):
                        return "p%d" % pid

                    def set(self, case, data, context):
                        case.headers = dict(case.headers or {}, **{"X-Auth": data})

                return Provider

            form = e["f"]
            opt = e.get("k", "default")
            kw: dict = {}
            if opt in ("number", "keyed_number"):
                kw["refresh_interval"] = 60
            if opt in ("none", "keyed_none"):
                kw["refresh_interval"] = None
            if opt.startswith("keyed"):
                kw["cache_by_key"] = lambda case, context: context.operation.label
            if form == "register":
                apply_chain(storage(e["s"]).register(**kw), e["chain"])(make_provider())
            elif form == "call":
                apply_chain(storage(e["s"])(**kw), e["chain"])(make_provider())
            elif form == "requests":
                apply_chain(storage(e["s"]).set_from_requests(MarkerAuth(pid)), e["chain"])
            elif form == "apply":
                apply_chain(schema.auth(make_provider(), **kw), e["chain"])(test_function)
            else:
                raise ValueError(form)
        cases = _draw_all(st_, schemas, order, {"auth_storage": auths.AuthStorageMark.get(test_function)})
        out = []
        for case in cases:
            if case is None:
                out.append(0)
                continue
            seen = []
            header = (case.headers or {}).get("X-Auth")
            if header:
                seen.append(int(header[1:]))
            if isinstance(case._auth, MarkerAuth):
                seen.append(case._auth.pid)
            out.append(seen[0] if len(seen) == 1 else (0 if not seen else -1))
        return out
    finally:
        glob.unregister()


# ---------------------------------------------------------------------------------------------------
# concurrent generation (spec/HooksConc.tla): a schedule of the model is forced on two real threads
# ---------------------------------------------------------------------------------------------------
def observe_conc(sched: dict, ops: list[dict], wait: float = 3.0) -> dict:
    """Two threads generate a case each, for two different operations of one (newly loaded) schema A.  Thread 1 is parked
    inside an unfiltered `before_generate_<park container>` hook - i.e. after its draw has started and before the hooks of that
    container are applied - until thread 2 has started its own draw; thread 2 then waits until thread 1 is done.  The observed
    hook (`<kind>_<container>` with the schedule's filter chain) records which operation `context.operation` pointed to and
    writes a marker into the data.  Returns per thread: operation of the case, marker / call seen, operations seen."""
    import threading

    st_ = _setup(ops)
    schema = st_["schemathesis"].openapi.from_dict(st_["raws"]["A"])
    entries = st_["idx"]["A"]  # (index, path, METHOD)
    label_to_op = {"%s %s" % (m, p): i + 1 for i, p, m in entries}
    t1_parked, t2_started, t1_done = threading.Event(), threading.Event(), threading.Event()
    synced: set = set()
    park_name = "before_generate_" + sched["parkContainer"]

    def park(context, strategy):
        name = threading.current_thread().name
        if name == "c19-t1" and name not in synced:
            synced.add(name)
            t1_parked.set()
            t2_started.wait(wait)
        return strategy

    def second(context, strategy):
        name = threading.current_thread().name
        if name == "c19-t2" and name not in synced:
            synced.add(name)
            t2_started.set()
            t1_done.wait(wait)
        return strategy

    if park_name == "before_generate_path_parameters":
        def both(context, strategy):
            return second(context, park(context, strategy))
        both.__name__ = park_name
        schema.hook(both)
    else:
        second.__name__ = "before_generate_path_parameters"
        schema.hook(second)
        park.__name__ = park_name
        schema.hook(park)
    calls: list = []  # (thread name, operation index context.operation pointed to)
    name = "%s_%s" % (sched["kind"], sched["container"])
    key = "m1"

    def record(context):
        calls.append((threading.current_thread().name, label_to_op.get(context.operation.label, 0)))

    def mark(value):
        return dict(value, **{key: "1"}) if isinstance(value, dict) else {key: "1"}

    if sched["kind"] == "map":
        def observed(context, value):
            record(context)
            return mark(value)
    elif sched["kind"] == "filter":
        def observed(context, value):
            record(context)
            return True
    elif sched["kind"] == "flatmap":
        def observed(context, value):
            record(context)
            return st_["st"].just(mark(value))
    else:
        def observed(context, strategy):
            record(context)
            return strategy.map(mark)
    observed.__name__ = name
    apply_chain(schema.hook, sched["chainDef"])(observed)
    results: dict = {}
    errors: list = []

    def worker(tname: str, op_index: int) -> None:
        try:
            _, path, method = entries[op_index - 1]
            strategy = schema[path][method].as_strategy()
            got: list = []

            @st_["given"](strategy)
            @st_["settings"]
            def collect(case):
                got.append(case)

            collect()
            results[tname] = got[-1]
        except BaseException as exc:
            errors.append("%s: %s: %s" % (tname, type(exc).__name__, exc))
        finally:
            if tname == "c19-t1":
                t1_done.set()

    th1 = threading.Thread(target=worker, args=("c19-t1", sched["ops"][0]), name="c19-t1")
    th2 = threading.Thread(target=worker, args=("c19-t2", sched["ops"][1]), name="c19-t2")
    th1.start()
    forced = t1_parked.wait(wait)
    th2.start()
    th1.join(30)
    th2.join(30)
    if errors or len(results) != 2:
        raise RuntimeError("concurrent generation failed: %s" % (errors or "thread did not finish"))
    threads = []
    for tname in ("c19-t1", "c19-t2"):
        case = results[tname]
        ctxs = [op for who, op in calls if who == tname]
        if sched["kind"] == "filter":
            applied = 1 if ctxs else 0
        else:
            value = getattr(case, sched["container"])
            applied = 1 if value is not None and hasattr(value, "keys") and key in value else 0
        threads.append({"op": label_to_op["%s %s" % (case.operation.method.upper(), case.operation.path)], "applied": applied, "ctxs": ctxs})
    return {"chain": sched["chain"], "threads": threads, "forced": bool(forced and t2_started.is_set())}


def conc_disagreements(sched: dict, obs: dict) -> set[tuple[int, str]]:
    out: set = set()
    for t, (th, ex) in enumerate(zip(obs["threads"], sched["expect"]), 1):
        if th["applied"] != ex["applied"]:
            out.add((t, "spurious" if th["applied"] else "missing"))
        if any(c != th["op"] for c in th["ctxs"]):
            out.add((t, "foreign-context"))
    return out


def _work_conc(item: str) -> dict:
    return observe_conc(json.loads(item), _CAT["ops"])


# ---------------------------------------------------------------------------------------------------
# comparison, signatures
# ---------------------------------------------------------------------------------------------------
def hook_disagreements(expect: list, res: dict, events: list[dict] | None = None) -> list[tuple[int, int, int, str]]:
    """Cells (generation, hook, operation, direction) where observation and spec differ; a call that raised is
    (0, hook, 0, "raised")."""
    if res["err"]:
        h = sum(1 for e in (events or [])[: res["err"]] if e["ev"] == "reg") if events else res["err"]
        return [(0, h or 1, 0, "raised")]
    out = []
    for j, (em, om) in enumerate(zip(expect, res["obs"]), 1):
        for h, (er, orow) in enumerate(zip(em, om), 1):
            for o, (e, x) in enumerate(zip(er, orow), 1):
                if e != x:
                    out.append((j, h, o, "spurious" if x else "missing"))
    return out


def _twin(ops: list[dict], o: int) -> int:
    """The operation of the other schema with the same label (0: none)."""
    me = ops[o - 1]
    for q, other in enumerate(ops, 1):
        if q != o and other["method"] == me["method"] and other["path"] == me["path"]:
            return q
    return 0


def hook_signature(events: list[dict], h: int, direction: str, obs_row: list[int] | None = None, j: int = 0, o: int = 0,
                   expect: list | None = None, ops: list[dict] | None = None) -> str:
    """History reduced to what can matter for hook h: did what is expected of it change since an earlier generation of the same
    history; does its filter tell two same-label operations of different schemas apart; was it unregistered; does it go through
    the *_case path; is it the only registration made through its registrar (then its own form matters) or not."""
    regs = [e for e in events if e["ev"] == "reg"]
    e = regs[h - 1]
    pos = [i for i, x in enumerate(events) if x["ev"] == "reg"][h - 1]
    scope = "schema" if e["r"] == "schema_hooks" else e["r"]
    considered = regs[: h - 1] if direction == "raised" else regs[: h - 1] + regs[h:]
    shared = any(x["r"] == e["r"] and x["f"] != "apply" for x in considered)
    if direction != "raised":
        if expect is not None and j >= 1 and o and obs_row is not None:
            now = expect[j - 1][h - 1]
            # the whole observed row is what was right at an EARLIER generation of this history (not registered yet = nothing)
            earlier = [(m[h - 1] if len(m) >= h else [0] * len(now)) for m in expect[: j - 1]]
            if any(r == obs_row and r != now for r in earlier):
                return "C19:generate:not-the-hooks-in-force-at-this-generation:%s" % direction
            if direction == "missing" and expect is not None and j >= 1 and o and not e["n"].endswith("_case"):
                # an earlier hook of the same name on the same dispatcher does not apply to this operation
                same = [k for k in range(1, h) if regs[k - 1]["n"] == e["n"]
                        and ("schema" if regs[k - 1]["r"] == "schema_hooks" else regs[k - 1]["r"]) == scope]
                if any(len(expect[j - 1]) >= k and expect[j - 1][k - 1][o - 1] == 0 for k in same):
                    return "C19:dispatch:hook-dropped-after-non-matching-hook-of-the-same-name"
            # every wrong cell of the row carries the answer of the same-label operation of the other schema
            if ops is not None and scope == "global":  # only global extensions concern both schemas
                wrong = [q for q in range(1, len(now) + 1) if obs_row[q - 1] != now[q - 1]]
                if wrong and all(_twin(ops, q) and obs_row[q - 1] == now[_twin(ops, q) - 1] for q in wrong):
                    return "C19:same-label-operations-of-two-schemas:%s" % direction
        if any(x["ev"] == "unreg" and x["t"] == h and x["r"] == scope for x in events[pos + 1:]):
            return "C19:unregister:%s" % ("still-applied" if direction == "spurious" else "missing")
        if e["n"].endswith("_case"):
            return "C19:case-hooks:%s" % ("filter-ignored" if direction == "spurious" else "not-applied")
    if e["f"] == "apply":
        return "C19:hooks.apply:%s" % direction
    if shared:
        return "C19:register:several-registrations-through-one-registrar"
    if direction == "missing" and obs_row is not None and not any(obs_row):
        # a registered hook that is the only one of its registrar and runs for no operation at all: not a filter mix-up
        if any(x["ev"] == "unreg" and x["r"] == scope for x in events[pos + 1:]):
            return "C19:unregister:removed-another-hook"
        return "C19:dispatch:%s-scope-hook-never-applied" % scope
    return "C19:register:single:%s" % e["f"]


def _cell_signature(case: dict, res: dict, cell: tuple, ops: list[dict]) -> str:
    j, h, o, d = cell
    row = res["obs"][j - 1][h - 1] if j else None
    return hook_signature(case["events"], h, d, row, j, o, case["expect"], ops)


def auth_verdicts(case: dict, obs: list[int]) -> list[tuple[int, str]]:
    out = []
    for o, x in enumerate(obs, 1):
        if x != 0 and not (1 <= x <= len(case["may"]) and case["may"][x - 1][o - 1] == 1):
            out.append((o, "unsound"))
        if case["must"][o - 1] == "some" and x == 0:
            out.append((o, "incomplete"))
    return out


def auth_signature(case: dict, o: int, kind: str, obs: list[int]) -> str:
    regs = [e for e in case["events"] if e["ev"] == "areg"]
    ops = _CAT.get("ops") or []
    if kind == "unsound":
        x = obs[o - 1]
        if not 1 <= x <= len(regs):
            return "C19:auth:unsound:several-providers-applied"
        e = regs[x - 1]
        wrong = [q for q in range(1, len(obs) + 1) if obs[q - 1] == x and case["may"][x - 1][q - 1] == 0]
        if ops and e["s"] == "global" and all(_twin(ops, q) and case["may"][x - 1][_twin(ops, q) - 1] == 1 for q in wrong):
            # every wrongly authenticated operation has a same-label twin in the other schema that the provider does apply to
            return "C19:auth:same-label-operations-of-two-schemas:unsound"
        if e.get("k", "default") in ("none", "keyed_none"):
            return "C19:auth:unsound:provider-registered-with-refresh_interval=None"
        first = not any(r["s"] == e["s"] for r in regs[: x - 1])
        return "C19:auth:unsound:%s:%s" % (e["f"], "first" if first else "later-on-same-storage")
    tw = _twin(ops, o) if ops else 0
    if tw and any(r[o - 1] == 1 and r[tw - 1] == 0 and regs[p]["s"] == "global" for p, r in enumerate(case["may"])):
        return "C19:auth:same-label-operations-of-two-schemas:incomplete"
    forms = sorted({regs[p]["f"] for p in range(len(regs)) if case["may"][p][o - 1] == 1})
    return "C19:auth:incomplete:%s" % "+".join(forms)


def _short(events: list[dict]) -> str:
    parts = []
    for e in events:
        if e["ev"] == "reg":
            parts.append("%s:%s[%s]%s" % (e["r"], e["f"], e["c"], e["n"]))
        elif e["ev"] == "unreg":
            parts.append("%s.unregister(#%d)" % (e["r"], e["t"]))
        elif e["ev"] == "gen":
            parts.append("generate(%s)" % e["f"])
        elif e["ev"] == "reg" and e["f"] == "apply_own":
            parts.append("test:hooks.apply(%s)" % e["n"])
        elif e["ev"] == "areg":
            parts.append("auth %s:%s[%s]%s" % (e["s"], e["f"], e["c"], "" if e.get("k", "-") in ("-", "default") else "{cache=%s}" % e["k"]))
        else:
            parts.append("auth %s.unregister()" % e["s"])
    return " ; ".join(parts)


# ---------------------------------------------------------------------------------------------------
# workers (module level for pmap); items are compact JSON strings
# ---------------------------------------------------------------------------------------------------
def _work_hooks(item: str):
    case = json.loads(item)
    return observe_hooks(concretise(case["events"], _CAT), _CAT["ops"], case.get("order", "AB"))


def _work_hooks_fresh(item: str):
    case = json.loads(item)
    return observe_hooks(concretise(case["events"], _CAT), _CAT["ops"], case.get("order", "AB"), fresh=True)


def _work_auth(item: str):
    case = json.loads(item)
    return observe_auth(concretise(case["events"], _CAT), _CAT["ops"], case.get("order", "AB"))


def _work_auth_fresh(item: str):
    case = json.loads(item)
    return observe_auth(concretise(case["events"], _CAT), _CAT["ops"], case.get("order", "AB"), fresh=True)


def _enumerate(module: str, cfg: str, timeout: int = 3000):
    items: list[str] = []
    cat: list[dict] = []

    def cb(tag, d):
        if tag == "CASE":
            items.append(json.dumps(d, separators=(",", ":")))
        else:
            cat.append(d)

    res = tlc.require_ok(tlc.run_tlc(module, cfg, workers=1, timeout=timeout, on_json=cb, want_prints=False), module + " enumeration")
    if not cat:
        raise tlc.TLCFailure("%s/%s exported no catalogue" % (module, cfg))
    return res, items, cat[0]


def _called_without_effect(events: list[dict], res: dict) -> list[tuple[int, int, int]]:
    """A map / flatmap / before_generate hook that was called for an operation but whose result is not in the generated data."""
    if res["err"]:
        return []
    names = [e["n"] for e in events if e["ev"] == "reg"]
    out = []
    for j, (om, cm) in enumerate(zip(res["obs"], res["called"]), 1):
        for h, (orow, crow) in enumerate(zip(om, cm), 1):
            if _split(names[h - 1])[0] in ("filter", "init"):
                continue
            for o, (x, c) in enumerate(zip(orow, crow), 1):
                if c == 1 and x == 0:
                    out.append((j, h, o))
    return out


def _hook_bad(case: dict, res: dict) -> bool:
    return bool(hook_disagreements(case["expect"], res, case["events"]) or _called_without_effect(case["events"], res))


def _hook_violations(case: dict, res: dict, cat: dict) -> list[Violation]:
    out = []
    events = concretise(case["events"], cat)
    data = {"kind": "hooks", "events": events, "ops": cat["ops"], "order": case.get("order", "AB"), "expect": case["expect"]}
    seen_sig = set()
    for cell in hook_disagreements(case["expect"], res, case["events"]):
        j, h, o, d = cell
        sig = _cell_signature(case, res, cell, cat["ops"])
        if sig in seen_sig:
            continue
        seen_sig.add(sig)
        if d == "raised":
            summary = "registration #%d raised %s in history: %s" % (h, res["exc"], _short(case["events"]))
        else:
            op = cat["ops"][o - 1]
            summary = "generation %d of %d: hook #%d %s for %s %s of schema %s (expected row %s, observed %s) in history: %s [schemas used in order %s]" % (
                j, len(case["expect"]), h,
                "applied although its own filter / scope excludes the operation or it is not registered" if d == "spurious"
                else "not applied although it is registered and its own filter selects the operation",
                text(op["method"]).upper(), text(op["path"]), op.get("schema", "A"), case["expect"][j - 1][h - 1], res["obs"][j - 1][h - 1],
                _short(case["events"]), case.get("order", "AB"))
        out.append(Violation(sig, summary, data))
    for j, h, o in ([] if out else _called_without_effect(case["events"], res)[:1]):
        out.append(Violation(
            "C19:data:hook-called-but-effect-not-in-generated-data",
            "generation %d: hook #%d called=%s but marker in data=%s in history: %s" % (
                j, h, res["called"][j - 1][h - 1], res["obs"][j - 1][h - 1], _short(case["events"])),
            data))
    return out


def run(ctx: Ctx) -> Outcome:
    global _CAT
    out = Outcome()
    rng = random.Random(ctx.seed)
    hook_cfgs = ["Hooks_quick.cfg", "Hooks_same.cfg", "Hooks_gen_quick.cfg", "Hooks_neg_quick.cfg"] if ctx.quick else [
        "Hooks_thorough_a.cfg", "Hooks_thorough_b.cfg", "Hooks_same.cfg", "Hooks_gen_thorough.cfg", "Hooks_neg_thorough.cfg"]
    auth_cfgs = ["HooksAuth_quick.cfg"] if ctx.quick else ["HooksAuth_thorough.cfg"]
    states = transitions = 0
    timings: dict = {}
    judged_total = 0
    samples: list = []
    evaluations = nontrivial = 0
    n_dis = 0
    fam: dict = {}
    unconfirmed: dict = {}

    def spec_violations(res, module):
        for inv in res.violated:
            out.violations.append(Violation("C19:spec:" + inv, "design invariant %s violated in %s.tla" % (inv, module),
                                            {"kind": "spec", "invariant": inv, "trace": res.counterexample[:60]}))

    # ---------------- hooks ----------------
    for cfg in hook_cfgs:
        res, items, cat = _enumerate("Hooks", cfg)
        spec_violations(res, "Hooks")
        states += res.distinct
        transitions += res.generated
        _CAT = cat
        _setup(cat["ops"])  # import and build once in the parent; the forked workers inherit it
        t1 = time.time()
        results = common.pmap(_work_hooks, items)
        timings["replay_s:" + cfg] = round(time.time() - t1, 1)
        timings["tlc_s:" + cfg] = round(res.wall_s, 1)
        fam[cfg] = len(items)
        dis_idx: list[int] = []
        for i, (item, r) in enumerate(zip(items, results)):
            evaluations += 1
            if '"C' in item or '"unreg"' in item or '"gen"' in item:
                nontrivial += 1
            if r["err"] or _hook_bad(json.loads(item), r):
                dis_idx.append(i)
        # disagreements are re-observed on a newly loaded schema before they are reported, so that a violation can never be an
        # artefact of schema reuse; at most 60 per signature are confirmed and reported, the rest is only counted
        per_sig: dict[str, int] = {}
        to_confirm: list[int] = []
        for i in dis_idx:
            case = json.loads(items[i])
            sigs = {_cell_signature(case, results[i], cell, cat["ops"])
                    for cell in hook_disagreements(case["expect"], results[i], case["events"])} or {"data"}
            if any(per_sig.get(sg, 0) < 60 for sg in sigs):
                to_confirm.append(i)
            for sg in sigs:
                per_sig[sg] = per_sig.get(sg, 0) + 1
        confirmed: list[tuple[dict, dict]] = []
        fresh_items = [items[i] for i in to_confirm]
        for item, r in zip(fresh_items, common.pmap(_work_hooks_fresh, fresh_items)):
            case = json.loads(item)
            if _hook_bad(case, r):
                confirmed.append((case, r))
        for sg, n in per_sig.items():
            unconfirmed[sg] = unconfirmed.get(sg, 0) + n
        # the reuse shortcut itself is validated on a random sample of agreeing histories
        dis_set = set(dis_idx)
        agree_idx = [i for i in range(len(items)) if i not in dis_set]
        probe = common.sample(rng, agree_idx, 160 if ctx.quick else 2000)
        probe_bad = 0
        for i, r in zip(probe, common.pmap(_work_hooks_fresh, [items[i] for i in probe])):
            if r["obs"] != results[i]["obs"]:
                # the reused observation agreed with the spec, so the one on newly loaded schemas does not: a finding of its own
                probe_bad += 1
                if probe_bad <= 60:
                    confirmed.append((json.loads(items[i]), r))
        # code -> spec: TLC judges every confirmed disagreement and a random sample of agreeing observations
        judged = confirmed[:20000] + [(json.loads(items[i]), results[i]) for i in common.sample(rng, agree_idx, 3000 if ctx.quick else 20000)]
        obs_file = ctx.path("hooks_obs.json")
        tlc.write_json(obs_file, [{"events": c["events"], "order": c.get("order", "AB"), "obs": r["obs"], "err": r["err"]} for c, r in judged])
        jres = tlc.require_ok(tlc.run_tlc("HooksJudge", "HooksJudge.cfg", env={"OBS_FILE": obs_file}, timeout=3000), "hooks judge")
        tlc_dis = {(p[1], p[2], p[3], p[4], p[5]) for p in jres.prints if isinstance(p, list) and p and p[0] == "DISAGREE"}
        py_dis = {(i, j, h, o, d) for i, (c, r) in enumerate(judged, 1) for j, h, o, d in hook_disagreements(c["expect"], r, c["events"])}
        if tlc_dis != py_dis:
            raise tlc.TLCFailure("hooks judge (TLC) and exporter disagree on %d cells: %s" % (
                len(tlc_dis ^ py_dis), sorted(tlc_dis ^ py_dis)[:5]))
        judged_total += len(judged)
        timings["judge_s:" + cfg] = round(jres.wall_s, 1)
        n_dis += len(dis_idx)
        for case, r in confirmed:
            out.violations += _hook_violations(case, r, cat)
        pool = [(json.loads(items[i]), results[i]) for i in common.sample(rng, [j for j in agree_idx if '"C' in items[j]] or agree_idx, 2)]
        samples += [{"history": _short(c["events"]), "expected": c["expect"], "observed": r["obs"]} for c, r in pool]
        del results

    # ---------------- concurrent generation ----------------
    shared = tlc.require_ok(tlc.run_tlc("HooksConc", "HooksConc_shared.cfg", workers=4, timeout=1200, want_prints=False), "HooksConc (shared context)")
    if "OwnOperation" not in shared.violated:
        raise tlc.TLCFailure("vacuity guard: the shared-context design of HooksConc.tla is not refuted by TLC")
    scheds: list[dict] = []
    cres = tlc.require_ok(tlc.run_tlc("HooksConc", "HooksConc.cfg", workers=1, timeout=1200, want_prints=False,
                                      on_json=lambda tag, d: scheds.append(d) if tag == "SCHED" else None), "HooksConc enumeration")
    spec_violations(cres, "HooksConc")
    states += cres.distinct + shared.distinct
    transitions += cres.generated + shared.generated
    if ctx.quick:
        scheds = common.sample(rng, scheds, 120)
    t1 = time.time()
    cobs = common.pmap(_work_conc, [json.dumps(x) for x in scheds])
    timings["replay_s:HooksConc.cfg"] = round(time.time() - t1, 1)
    timings["tlc_s:HooksConc.cfg"] = round(cres.wall_s + shared.wall_s, 1)
    fam["HooksConc.cfg"] = len(scheds)
    cfile = ctx.path("conc_obs.json")
    tlc.write_json(cfile, [{"chain": o["chain"], "threads": o["threads"]} for o in cobs])
    cj = tlc.require_ok(tlc.run_tlc("HooksConcJudge", "HooksConcJudge.cfg", env={"OBS_FILE": cfile}, timeout=1200), "concurrency judge")
    c_tlc = {(p[1], p[2], p[3]) for p in cj.prints if isinstance(p, list) and p and p[0] == "DISAGREE"}
    c_py = {(m, t, k) for m, (sc, ob) in enumerate(zip(scheds, cobs), 1) for t, k in conc_disagreements(sc, ob)}
    if c_tlc != c_py:
        raise tlc.TLCFailure("concurrency judge (TLC) and exporter disagree on %d cells: %s" % (len(c_tlc ^ c_py), sorted(c_tlc ^ c_py)[:5]))
    judged_total += len(cobs)
    evaluations += len(scheds)
    nontrivial += sum(1 for o in cobs if o["forced"])
    timings["judge_s:HooksConc.cfg"] = round(cj.wall_s, 1)
    n_conc = 0
    for sc, ob in zip(scheds, cobs):
        dis = conc_disagreements(sc, ob)
        if not dis:
            continue
        n_dis += 1
        sig = "C19:concurrent-generation:hook-evaluated-against-another-threads-operation"
        unconfirmed[sig] = unconfirmed.get(sig, 0) + 1
        n_conc += 1
        if n_conc <= 30:
            out.violations.append(Violation(
                sig, "two threads generating for operations %s: %s; hook %s_%s with chain %s, thread 1 parked before the %s hooks; per thread "
                     "(operation of the case, hook applied, operations context.operation pointed to) = %s, expected %s" % (
                         sc["ops"], sorted(dis), sc["kind"], sc["container"], sc["chain"], sc["parkContainer"],
                         [(t["op"], t["applied"], t["ctxs"]) for t in ob["threads"]], [(e["op"], e["applied"]) for e in sc["expect"]]),
                {"kind": "conc", "sched": sc, "ops": cat["ops"]}))
    samples.append({"concurrent_schedule": {k2: sc[k2] for k2 in ("park", "container", "kind", "chain", "ops")} if scheds else {},
                    "observed": cobs[-1]["threads"] if cobs else [], "schedules_actually_forced": sum(1 for o in cobs if o["forced"])})

    # ---------------- auth ----------------
    for auth_cfg in auth_cfgs:
        res, items, cat = _enumerate("HooksAuth", auth_cfg)
        spec_violations(res, "HooksAuth")
        states += res.distinct
        transitions += res.generated
        _CAT = cat
        _setup(cat["ops"])
        t1 = time.time()
        results = common.pmap(_work_auth, items)
        timings["replay_s:" + auth_cfg] = round(time.time() - t1, 1)
        timings["tlc_s:" + auth_cfg] = round(res.wall_s, 1)
        fam[auth_cfg] = len(items)
        bad: list[tuple[dict, list[int]]] = []
        agree: list[int] = []
        cand: list[int] = []
        for i, (item, obs) in enumerate(zip(items, results)):
            case = json.loads(item)
            evaluations += 1
            if '"C' in item:
                nontrivial += 1
            (cand if auth_verdicts(case, obs) else agree).append(i)
        per_sig = {}
        to_confirm = []
        for i in cand:
            case = json.loads(items[i])
            sigs = {auth_signature(case, o, k, results[i]) for o, k in auth_verdicts(case, results[i])}
            if any(per_sig.get(sg, 0) < 60 for sg in sigs):
                to_confirm.append(i)
            for sg in sigs:
                per_sig[sg] = per_sig.get(sg, 0) + 1
        for i, fresh_obs in zip(to_confirm, common.pmap(_work_auth_fresh, [items[i] for i in to_confirm])):
            case = json.loads(items[i])
            if auth_verdicts(case, fresh_obs):
                bad.append((case, fresh_obs))
        for sg, n in per_sig.items():
            unconfirmed[sg] = unconfirmed.get(sg, 0) + n
        for i in common.sample(rng, agree, 60 if ctx.quick else 1500):
            fresh_obs = _work_auth_fresh(items[i])
            if fresh_obs != results[i]:  # the reused observation agreed with the spec, so this one does not
                bad.append((json.loads(items[i]), fresh_obs))
        judged_a = bad[:20000] + [(json.loads(items[i]), results[i]) for i in common.sample(rng, agree, 2000 if ctx.quick else 10000)]
        obs_file = ctx.path("auth_obs.json")
        tlc.write_json(obs_file, [{"events": c["events"], "obs": o} for c, o in judged_a])
        jres = tlc.require_ok(tlc.run_tlc("HooksAuthJudge", "HooksAuthJudge.cfg", env={"OBS_FILE": obs_file}, timeout=3000), "auth judge")
        tlc_dis = {(p[1], p[2], p[3]) for p in jres.prints if isinstance(p, list) and p and p[0] == "DISAGREE"}
        py_dis = {(i, o, k) for i, (c, ob) in enumerate(judged_a, 1) for o, k in auth_verdicts(c, ob)}
        if tlc_dis != py_dis:
            raise tlc.TLCFailure("auth judge (TLC) and exporter disagree on %d cells: %s" % (len(tlc_dis ^ py_dis), sorted(tlc_dis ^ py_dis)[:5]))
        judged_total += len(judged_a)
        timings["judge_s:" + auth_cfg] = round(jres.wall_s, 1)
        n_dis += len(cand)
        for case, obs in bad:
            seen_sig = set()
            for o, kind in auth_verdicts(case, obs):
                sig = auth_signature(case, o, kind, obs)
                if sig in seen_sig:
                    continue
                seen_sig.add(sig)
                op = cat["ops"][o - 1]
                out.violations.append(Violation(
                    sig, "auth %s for %s %s of schema %s: observed provider %s, may=%s must=%s in history: %s [schemas used in order %s]" % (
                        kind, text(op["method"]).upper(), text(op["path"]), op.get("schema", "A"), obs[o - 1], [r[o - 1] for r in case["may"]],
                        case["must"][o - 1], _short(case["events"]), case.get("order", "AB")),
                    {"kind": "auth", "events": concretise(case["events"], cat), "ops": cat["ops"], "order": case.get("order", "AB"),
                     "may": case["may"], "must": case["must"]},
                ))
        pool = [(json.loads(items[i]), results[i]) for i in common.sample(rng, [j for j in agree if '"C' in items[j]] or agree, 2)]
        samples += [{"history": _short(c["events"]), "may": c["may"], "must": c["must"], "observed_provider_per_operation": o} for c, o in pool]

    out.coverage = {
        "states": states,
        "transitions": transitions,
        "traces_validated_against_impl": judged_total,
        "samples": samples,
        "evaluations": evaluations,
        "distinct_nontrivial": nontrivial,
        "rule": "every registration/unregistration history reachable in Hooks.tla under %s and every auth history of HooksAuth.tla under %s "
                "(TLC-enumerated; each replayed once on new dispatchers / storages; at every Generate step and at the end a case is generated "
                "through the real strategy for all %d operations of two schemas sharing operation labels, on the same schema / operation "
                "objects, in both schema orders); non-trivial = the history contains a filter chain, an unregistration or an intermediate "
                "generation" % (
                    "+".join(hook_cfgs), "+".join(auth_cfgs), len(cat["ops"])),
        "exhaustive": True,
        "family_sizes": fam,
        "disagreeing_histories": n_dis,
        "disagreeing_histories_by_signature": unconfirmed,
        "constants": {"hook_cfgs": hook_cfgs, "auth_cfgs": auth_cfgs},
        "timings": timings,
    }
    out.assumptions = [
        "a HookDispatcher(scope=GLOBAL) created per history and bound to hooks.GLOBAL_HOOK_DISPATCHER / schemas.GLOBAL_HOOK_DISPATCHER "
        "stands for the import-time global dispatcher of a new interpreter",
        "per process one schema object is reused with its hooks / hook / auth fields re-created as for a new instance; every "
        "disagreement and a random sample of agreements are re-observed on a newly loaded schema",
        "one generated case per (generation, operation): hooks are attached structurally when the strategy is built, so one draw shows them",
        "two schemas with same-label operations stand for 'several API schemas in one process'; schema- and test-scope extensions "
        "belong to schema A, schema B is generated without a test dispatcher / auth storage",
        "test scope is exercised as the pytest plugin does it: as_strategy(hooks=HookDispatcherMark.get(test), auth_storage=AuthStorageMark.get(test))",
        "concurrent generation: the interleaving refuted by TLC for a shared context (HooksConc.tla) is forced on two real threads with "
        "barrier hooks and timeouts; `schedules_actually_forced` counts the runs in which both barriers were reached in the modelled order",
        "auth: which of several applicable providers wins and whether a more specific scope shadows another is not fixed by the property "
        "(judged for soundness only in those histories)",
    ]
    return out


def replay(ctx: Ctx, data: dict) -> Outcome:
    global _CAT
    out = Outcome()
    if data.get("kind") == "spec":
        return out
    if data["kind"] == "conc":
        _CAT = {"ops": data["ops"]}
        ob = observe_conc(data["sched"], data["ops"])
        for t, k in sorted(conc_disagreements(data["sched"], ob)):
            out.violations.append(Violation("C19:concurrent-generation:hook-evaluated-against-another-threads-operation",
                                            "thread %d %s: %s" % (t, k, ob["threads"]), data))
        return out
    if data["kind"] == "hooks":
        r = observe_hooks(data["events"], data["ops"], data.get("order", "AB"), fresh=True)
        case = {"events": data["events"], "expect": data["expect"], "order": data.get("order", "AB")}
        out.violations += _hook_violations(case, r, {"ops": data["ops"], "chains": {e["c"]: e["chain"] for e in data["events"] if e.get("c", "-") != "-"}})
    else:
        _CAT = {"ops": data["ops"]}
        obs = observe_auth(data["events"], data["ops"], data.get("order", "AB"), fresh=True)
        for o, kind in auth_verdicts(data, obs):
            out.violations.append(Violation(auth_signature(data, o, kind, obs), "auth %s for operation %d: observed %s" % (kind, o, obs), data))
    return out


def selftest(ctx: Ctx) -> bool:
    """Binding: corrupted observations must be rejected by the TLA+ judges, faithful ones accepted."""
    ev = [{"ev": "reg", "r": "schema", "f": "filt_bare", "c": "C1", "n": "map_query", "t": 0},
          {"ev": "gen", "r": "-", "f": "without_test", "c": "-", "n": "-", "t": 0},
          {"ev": "reg", "r": "global", "f": "filt_bare", "c": "C2", "n": "filter_query", "t": 0},
          {"ev": "unreg", "r": "schema", "f": "-", "c": "-", "n": "-", "t": 1}]
    # C1 = GET or operationId "pa" (schema scope: schema A only); C2 = everything without tag y (global: both schemas)
    g1 = [[1, 1, 1, 0, 0, 0]]
    good = {"events": ev, "order": "BA", "obs": [g1, [[0] * 6, [1, 0, 1, 0, 0, 1]]], "err": 0}
    # the unregistered hook is still applied at the final generation (what it was at the first one)
    bad1 = dict(good, obs=[g1, [[1, 1, 1, 0, 0, 0], [1, 0, 1, 0, 0, 1]]])
    # the global tag filter gives schema B's operations the answers of their same-label twins of schema A
    bad2 = dict(good, obs=[g1, [[0] * 6, [1, 0, 1, 0, 1, 0]]])
    bad3 = dict(good, obs=[], err=3)  # the second registration raised
    f = ctx.path("obs.json")
    tlc.write_json(f, [good, bad1, bad2, bad3])
    r = tlc.require_ok(tlc.run_tlc("HooksJudge", "HooksJudge.cfg", env={"OBS_FILE": f}), "selftest hooks")
    dis = sorted(tuple(p[1:]) for p in r.prints if isinstance(p, list) and p and p[0] == "DISAGREE")
    want = sorted([(2, 2, 1, 1, "spurious"), (2, 2, 1, 2, "spurious"), (2, 2, 1, 3, "spurious"),
                   (3, 2, 2, 5, "spurious"), (3, 2, 2, 6, "missing"),
                   (4, 0, 2, 0, "raised")])
    ok1 = dis == want
    py = sorted((i, j, h, o, d) for i, ob in enumerate([good, bad1, bad2, bad3], 1)
                for j, h, o, d in hook_disagreements(good["obs"], ob, ev))
    ok1 = ok1 and py == want
    aev = [{"ev": "areg", "s": "schema", "f": "call", "c": "C2"}]  # schema A: GET /a and GET /b carry no tag y
    tlc.write_json(f, [{"events": aev, "obs": [1, 0, 1, 0, 0, 0]}, {"events": aev, "obs": [1, 1, 1, 0, 0, 0]},
                       {"events": aev, "obs": [0, 0, 1, 0, 0, 0]}, {"events": aev, "obs": [1, 0, 1, 0, 0, 1]}])
    r = tlc.require_ok(tlc.run_tlc("HooksAuthJudge", "HooksAuthJudge.cfg", env={"OBS_FILE": f}), "selftest auth")
    adis = sorted(tuple(p[1:]) for p in r.prints if isinstance(p, list) and p and p[0] == "DISAGREE")
    ok2 = adis == [(2, 2, "unsound"), (3, 1, "incomplete"), (4, 6, "unsound")]
    # and the replay machinery itself distinguishes hooks, generations and schemas
    cat_res, items, cat = _enumerate("HooksAuth", "HooksAuth_quick.cfg")
    r2 = observe_hooks(concretise(ev, cat), cat["ops"], "BA", fresh=True)
    ok3 = r2["obs"] == good["obs"]
    # concurrency judge: op 1 is selected by C1, op 4 is not; a hook evaluated against the other thread's operation must be rejected
    okc = {"chain": "C1", "threads": [{"op": 1, "applied": 1, "ctxs": [1]}, {"op": 4, "applied": 0, "ctxs": []}]}
    badc = {"chain": "C1", "threads": [{"op": 1, "applied": 0, "ctxs": [4]}, {"op": 4, "applied": 0, "ctxs": []}]}
    tlc.write_json(f, [okc, badc])
    r = tlc.require_ok(tlc.run_tlc("HooksConcJudge", "HooksConcJudge.cfg", env={"OBS_FILE": f}), "selftest concurrency")
    cdis = sorted(tuple(p[1:]) for p in r.prints if isinstance(p, list) and p and p[0] == "DISAGREE")
    ok4 = cdis == [(2, 1, "foreign-context"), (2, 1, "missing")]
    shared = tlc.require_ok(tlc.run_tlc("HooksConc", "HooksConc_shared.cfg", workers=2, want_prints=False), "selftest shared context")
    ok4 = ok4 and "OwnOperation" in shared.violated
    if not (ok1 and ok2 and ok3 and ok4):
        print("selftest details:", ok1, ok2, ok3, ok4, dis, py, adis, r2, cdis)
    return ok1 and ok2 and ok3 and ok4


def main(argv=None) -> int:
    return common.main("C19", run, replay, selftest, argv)
