"""C19 - extensions (hooks, auth providers) apply exactly where their own filters say.

spec/Hooks.tla enumerates registration / unregistration histories over the global, schema and test dispatchers in every
decorator form; spec/HooksAuth.tla does the same for AuthStorage.register / __call__ / set_from_requests / apply.  Every
history is replayed into the real schemathesis objects, a case is generated for every operation through the real strategy
with marker-writing hooks / providers, and the observed (hook, operation) matrix is compared with the spec's and judged by
TLC (spec/HooksJudge.tla, spec/HooksAuthJudge.tla).
"""
from __future__ import annotations

import json
import random
import re
import time

from . import common, tlc
from .common import Ctx, Outcome, Violation

CONTAINERS = ("path_parameters", "query", "headers", "cookies", "body", "case")
_state: dict = {}
_CAT: dict = {}  # catalogue exported by the spec (operations, chains); set in the parent before forking


# ---------------------------------------------------------------------------------------------------
# spec -> code: concretisation
# ---------------------------------------------------------------------------------------------------
def text(t) -> str:
    return "".join(t)


def build_raw(ops: list[dict]) -> dict:
    """OpenAPI document for the spec's operation universe: every operation has a query parameter and a JSON body, so that
    every hook container is generated for every operation."""
    paths: dict = {}
    for op in ops:
        d: dict = {
            "parameters": [{"name": "q", "in": "query", "schema": {"type": "string", "maxLength": 2}}],
            "requestBody": {"required": True, "content": {"application/json": {"schema": {
                "type": "object", "properties": {"k": {"type": "integer"}}, "additionalProperties": False}}}},
            "responses": {"200": {"description": "ok"}},
        }
        if op["tags"]:
            d["tags"] = [text(t) for t in op["tags"]]
        if op["opid"]:
            d["operationId"] = text(op["opid"])
        paths.setdefault(text(op["path"]), {})[text(op["method"])] = d
    return {"openapi": "3.0.2", "info": {"title": "c19", "version": "1"}, "paths": paths}


def atom_kwargs(atoms: list[dict]) -> dict:
    """One apply_to / skip_for call: keyword conditions of a conjunction."""
    kw: dict = {}
    for a in atoms:
        by, how = a["by"], a["how"]
        if how == "value":
            kw[by] = text(a["v"])
        elif how == "list":
            kw[by] = [text(v) for v in a["vs"]]
        else:
            lit = re.escape(text(a["v"]))
            kw[by + "_regex"] = {"prefix": "^" + lit, "suffix": lit + "$", "infix": lit, "exact": "^" + lit + "$"}[how]
    return kw


def apply_chain(target, chain: list[dict]):
    for call in chain:
        target = getattr(target, call["m"])(**atom_kwargs(call["a"]))
    return target


def concretise(events: list[dict], cat: dict) -> list[dict]:
    return [dict(e, chain=(cat["chains"][e["c"]] if e.get("c", "-") != "-" else [])) for e in events]


def _setup(ops: list[dict]) -> dict:
    key = json.dumps(ops, sort_keys=True)
    if _state.get("key") != key:
        import schemathesis
        from hypothesis import HealthCheck, Phase, given, settings
        from hypothesis import strategies as st
        from schemathesis import auths, hooks, schemas
        from schemathesis.core import NOT_SET

        raw = build_raw(ops)
        _state.clear()
        _state.update(
            key=key, raw=raw, schemathesis=schemathesis, hooks=hooks, schemas=schemas, auths=auths, st=st, given=given,
            NOT_SET=NOT_SET,
            settings=settings(max_examples=1, database=None, derandomize=True, phases=[Phase.generate], deadline=None,
                              suppress_health_check=list(HealthCheck)),
            schema=schemathesis.openapi.from_dict(raw),
            labels=[(text(o["path"]), text(o["method"]).upper()) for o in ops],
        )
    return _state


def _fresh_schema(st_: dict, fresh: bool):
    """A schema whose hook / auth state is that of a newly loaded one.

    fresh=True loads a new schema object.  fresh=False reuses the per-process schema (operations and their cached base
    strategies are expensive to rebuild) and re-creates exactly the fields a new instance gets: `hooks` (dataclass default
    factory), `hook` (BaseSchema.__post_init__) and `auth`."""
    if fresh:
        return st_["schemathesis"].openapi.from_dict(st_["raw"])
    schema = st_["schema"]
    schema.hooks = st_["hooks"].HookDispatcher(scope=st_["hooks"].HookScope.SCHEMA)
    schema.auth = st_["auths"].AuthStorage()
    schema.__post_init__()
    return schema


def _draw_all(st_: dict, schema, **kw) -> list:
    out: list = []
    strategies = [schema[p][m].as_strategy(**kw) for p, m in st_["labels"]]

    @st_["given"](st_["st"].tuples(*strategies))
    @st_["settings"]
    def collect(cases):
        out[:] = cases

    collect()
    return out


def _split(name: str) -> tuple[str, str]:
    for c in CONTAINERS:
        if name.endswith("_" + c):
            return name[: -len(c) - 1], c
    raise ValueError(name)


def _make_hook(h: int, name: str, own_name: bool, log: set, NOT_SET):
    kind, container = _split(name)
    key = "m%d" % h

    def mark(value):
        if container == "case":
            value.query = dict(value.query or {}, **{key: "1"})
            return value
        if isinstance(value, dict):
            return dict(value, **{key: "1"})
        return {key: "1"}

    if kind == "map":
        def hook(context, value):
            log.add((h, context.operation.label))
            return mark(value)
    elif kind == "filter":
        def hook(context, value):
            log.add((h, context.operation.label))
            return True
    elif kind == "flatmap":
        def hook(context, value):
            from hypothesis import strategies as st

            log.add((h, context.operation.label))
            return st.just(mark(value))
    else:
        def hook(context, strategy):
            log.add((h, context.operation.label))
            return strategy.map(mark)
    hook.__name__ = name if own_name else "user_function_%d" % h
    hook.__qualname__ = hook.__name__
    return hook


def observe_hooks(events: list[dict], ops: list[dict], fresh: bool = False) -> dict:
    """Replay a registration history on new dispatchers and report, per registered hook and operation, whether the hook's
    effect is visible in a case generated for that operation. Returns {"obs": matrix, "called": matrix}."""
    st_ = _setup(ops)
    hooks_mod, schemas_mod = st_["hooks"], st_["schemas"]
    HD, Scope = hooks_mod.HookDispatcher, hooks_mod.HookScope
    glob = HD(scope=Scope.GLOBAL)  # what `schemathesis.hooks` creates at import time
    saved = (hooks_mod.GLOBAL_HOOK_DISPATCHER, schemas_mod.GLOBAL_HOOK_DISPATCHER)
    hooks_mod.GLOBAL_HOOK_DISPATCHER = schemas_mod.GLOBAL_HOOK_DISPATCHER = glob
    try:
        schema = _fresh_schema(st_, fresh)

        def test_function(case):
            pass

        def registrar(r: str):
            if r == "global":
                return glob.register  # == schemathesis.hook
            if r == "schema":
                return schema.hook
            if r == "schema_hooks":
                return schema.hooks.register
            return HD.add_dispatcher(test_function).register

        def dispatcher(scope: str):
            if scope == "global":
                return glob
            if scope == "schema":
                return schema.hooks
            return hooks_mod.HookDispatcherMark.get(test_function)

        log: set = set()
        functions: list = []
        names: list = []

        def perform(e: dict) -> None:
            if e["ev"] == "unreg":
                d = dispatcher(e["r"])
                if d is not None:
                    d.unregister(functions[e["t"] - 1])
                return
            h = len(functions) + 1
            form, name = e["f"], e["n"]
            fn = _make_hook(h, name, own_name=form in ("bare", "filt_bare"), log=log, NOT_SET=st_["NOT_SET"])
            functions.append(fn)
            names.append(name)
            if form == "apply":
                schema.hooks.apply(fn, name=name)(test_function)
                return
            reg = registrar(e["r"])
            if form == "bare":
                reg(fn)
            elif form == "named":
                reg(name)(fn)
            elif form == "filt_bare":
                apply_chain(reg, e["chain"])(fn)
            elif form == "filt_named":
                apply_chain(reg, e["chain"])(name)(fn)
            elif form == "named_filt":
                apply_chain(reg(name), e["chain"])(fn)
            else:
                raise ValueError(form)

        for k, e in enumerate(events, 1):
            try:
                perform(e)
            except Exception as exc:  # the spec says every call of the history succeeds
                return {"obs": [], "called": [], "err": k, "exc": "%s: %s" % (type(exc).__name__, exc)}
        cases = _draw_all(st_, schema, hooks=hooks_mod.HookDispatcherMark.get(test_function))
        obs, called = [], []
        for h, name in enumerate(names, 1):
            kind, container = _split(name)
            row_obs, row_called = [], []
            for case, (p, m) in zip(cases, st_["labels"]):
                was_called = (h, "%s %s" % (m, p)) in log
                if kind == "filter":
                    seen = was_called
                else:
                    value = case.query if container == "case" else getattr(case, container)
                    seen = value is not None and hasattr(value, "keys") and ("m%d" % h) in value
                row_obs.append(1 if seen else 0)
                row_called.append(1 if was_called else 0)
            obs.append(row_obs)
            called.append(row_called)
        return {"obs": obs, "called": called, "err": 0, "exc": ""}
    finally:
        hooks_mod.GLOBAL_HOOK_DISPATCHER, schemas_mod.GLOBAL_HOOK_DISPATCHER = saved


def observe_auth(events: list[dict], ops: list[dict], fresh: bool = False) -> list[int]:
    """Replay an auth-registration history; per operation the id of the provider whose data is on the generated case (0: none)."""
    import requests.auth

    st_ = _setup(ops)
    auths = st_["auths"]
    glob = auths.GLOBAL_AUTH_STORAGE  # == schemathesis.auth
    glob.unregister()
    try:
        schema = _fresh_schema(st_, fresh)

        def test_function(case):
            pass

        def storage(scope: str):
            return glob if scope == "global" else schema.auth

        class MarkerAuth(requests.auth.AuthBase):
            def __init__(self, pid):
                self.pid = pid

            def __call__(self, r):
                return r

        n = 0
        for e in events:
            if e["ev"] == "aunreg":
                storage(e["s"]).unregister()
                continue
            n += 1
            pid = n

            def make_provider(pid=pid):
                class Provider:
                    def get(self, case, context):
                        return "p%d" % pid

                    def set(self, case, data, context):
                        case.headers = dict(case.headers or {}, **{"X-Auth": data})

                return Provider

            form = e["f"]
            if form == "register":
                apply_chain(storage(e["s"]).register(), e["chain"])(make_provider())
            elif form == "call":
                apply_chain(storage(e["s"])(), e["chain"])(make_provider())
            elif form == "requests":
                apply_chain(storage(e["s"]).set_from_requests(MarkerAuth(pid)), e["chain"])
            elif form == "apply":
                apply_chain(schema.auth(make_provider()), e["chain"])(test_function)
            else:
                raise ValueError(form)
        cases = _draw_all(st_, schema, auth_storage=auths.AuthStorageMark.get(test_function))
        out = []
        for case in cases:
            seen = []
            header = (case.headers or {}).get("X-Auth")
            if header:
                seen.append(int(header[1:]))
            if isinstance(case._auth, MarkerAuth):
                seen.append(case._auth.pid)
            out.append(seen[0] if len(seen) == 1 else (0 if not seen else -1))
        return out
    finally:
        glob.unregister()


# ---------------------------------------------------------------------------------------------------
# comparison, signatures
# ---------------------------------------------------------------------------------------------------
def hook_disagreements(expect: list[list[int]], res: dict, events: list[dict] | None = None) -> list[tuple[int, int, str]]:
    """Cells (hook, operation, direction) where observation and spec differ; a call that raised is (hook, 0, "raised")."""
    if res["err"]:
        h = sum(1 for e in (events or [])[: res["err"]] if e["ev"] == "reg") if events else res["err"]
        return [(h or 1, 0, "raised")]
    obs = res["obs"]
    out = []
    for h, (er, orow) in enumerate(zip(expect, obs), 1):
        for o, (e, x) in enumerate(zip(er, orow), 1):
            if e != x:
                out.append((h, o, "spurious" if x else "missing"))
    return out


def hook_signature(events: list[dict], h: int, direction: str, obs_row: list[int] | None = None) -> str:
    """Form sequence reduced to what can matter for hook h: was it unregistered; does it go through the *_case path; is it
    the only registration made through its registrar (then its own form matters) or does it share the registrar with others."""
    regs = [e for e in events if e["ev"] == "reg"]
    e = regs[h - 1]
    pos = [i for i, x in enumerate(events) if x["ev"] == "reg"][h - 1]
    scope = "schema" if e["r"] == "schema_hooks" else e["r"]
    considered = regs[: h - 1] if direction == "raised" else regs[: h - 1] + regs[h:]
    shared = any(x["r"] == e["r"] and x["f"] != "apply" for x in considered)
    if direction != "raised":
        if any(x["ev"] == "unreg" and x["t"] == h and x["r"] == scope for x in events[pos + 1:]):
            return "C19:unregister:%s" % ("still-applied" if direction == "spurious" else "missing")
        if e["n"].endswith("_case"):
            return "C19:case-hooks:%s" % ("filter-ignored" if direction == "spurious" else "not-applied")
    if e["f"] == "apply":
        return "C19:hooks.apply:%s" % direction
    if shared:
        return "C19:register:several-registrations-through-one-registrar"
    if direction == "missing" and obs_row is not None and not any(obs_row):
        # a registered hook that is the only one of its registrar and runs for no operation at all: not a filter mix-up
        if any(x["ev"] == "unreg" and x["r"] == scope for x in events[pos + 1:]):
            return "C19:unregister:removed-another-hook"
        return "C19:dispatch:%s-scope-hook-never-applied" % scope
    return "C19:register:single:%s" % e["f"]


def auth_verdicts(case: dict, obs: list[int]) -> list[tuple[int, str]]:
    out = []
    for o, x in enumerate(obs, 1):
        if x != 0 and not (1 <= x <= len(case["may"]) and case["may"][x - 1][o - 1] == 1):
            out.append((o, "unsound"))
        if case["must"][o - 1] == "some" and x == 0:
            out.append((o, "incomplete"))
    return out


def auth_signature(case: dict, o: int, kind: str, obs: list[int]) -> str:
    regs = [e for e in case["events"] if e["ev"] == "areg"]
    if kind == "unsound":
        x = obs[o - 1]
        if not 1 <= x <= len(regs):
            return "C19:auth:unsound:several-providers-applied"
        e = regs[x - 1]
        first = not any(r["s"] == e["s"] for r in regs[: x - 1])
        return "C19:auth:unsound:%s:%s" % (e["f"], "first" if first else "later-on-same-storage")
    forms = sorted({regs[p]["f"] for p in range(len(regs)) if case["may"][p][o - 1] == 1})
    return "C19:auth:incomplete:%s" % "+".join(forms)


def _short(events: list[dict]) -> str:
    parts = []
    for e in events:
        if e["ev"] == "reg":
            parts.append("%s:%s[%s]%s" % (e["r"], e["f"], e["c"], e["n"]))
        elif e["ev"] == "unreg":
            parts.append("%s.unregister(#%d)" % (e["r"], e["t"]))
        elif e["ev"] == "areg":
            parts.append("auth %s:%s[%s]" % (e["s"], e["f"], e["c"]))
        else:
            parts.append("auth %s.unregister()" % e["s"])
    return " ; ".join(parts)


# ---------------------------------------------------------------------------------------------------
# workers (module level for pmap); items are compact JSON strings
# ---------------------------------------------------------------------------------------------------
def _work_hooks(item: str):
    case = json.loads(item)
    return observe_hooks(concretise(case["events"], _CAT), _CAT["ops"])


def _work_hooks_fresh(item: str):
    case = json.loads(item)
    return observe_hooks(concretise(case["events"], _CAT), _CAT["ops"], fresh=True)


def _work_auth(item: str):
    case = json.loads(item)
    return observe_auth(concretise(case["events"], _CAT), _CAT["ops"])


def _work_auth_fresh(item: str):
    case = json.loads(item)
    return observe_auth(concretise(case["events"], _CAT), _CAT["ops"], fresh=True)


def _enumerate(module: str, cfg: str, timeout: int = 3000):
    items: list[str] = []
    cat: list[dict] = []

    def cb(tag, d):
        if tag == "CASE":
            items.append(json.dumps(d, separators=(",", ":")))
        else:
            cat.append(d)

    res = tlc.require_ok(tlc.run_tlc(module, cfg, workers=1, timeout=timeout, on_json=cb, want_prints=False), module + " enumeration")
    if not cat:
        raise tlc.TLCFailure("%s/%s exported no catalogue" % (module, cfg))
    return res, items, cat[0]


def _called_without_effect(events: list[dict], res: dict) -> list[tuple[int, int]]:
    """A map / flatmap / before_generate hook that was called for an operation but whose result is not in the generated data."""
    if res["err"]:
        return []
    names = [e["n"] for e in events if e["ev"] == "reg"]
    out = []
    for h, name in enumerate(names, 1):
        if _split(name)[0] == "filter":
            continue
        for o, (x, c) in enumerate(zip(res["obs"][h - 1], res["called"][h - 1]), 1):
            if x != c:
                out.append((h, o))
    return out


def _hook_bad(case: dict, res: dict) -> bool:
    return bool(hook_disagreements(case["expect"], res, case["events"]) or _called_without_effect(case["events"], res))


def _hook_violations(case: dict, res: dict, cat: dict) -> list[Violation]:
    out = []
    events = concretise(case["events"], cat)
    data = {"kind": "hooks", "events": events, "ops": cat["ops"], "expect": case["expect"]}
    seen_sig = set()
    for h, o, d in hook_disagreements(case["expect"], res, case["events"]):
        sig = hook_signature(case["events"], h, d, res["obs"][h - 1] if o else None)
        if sig in seen_sig:
            continue
        seen_sig.add(sig)
        if d == "raised":
            summary = "registration #%d raised %s in history: %s" % (h, res["exc"], _short(case["events"]))
        else:
            op = cat["ops"][o - 1]
            summary = "hook #%d %s for %s %s (expected row %s, observed %s) in history: %s" % (
                h, "applied although its own filter excludes the operation / it is unregistered" if d == "spurious"
                else "not applied although its own filter selects the operation",
                text(op["method"]).upper(), text(op["path"]), case["expect"][h - 1], res["obs"][h - 1], _short(case["events"]))
        out.append(Violation(sig, summary, data))
    for h, o in _called_without_effect(case["events"], res)[:1]:
        out.append(Violation(
            "C19:data:hook-called-but-effect-not-in-generated-data",
            "hook #%d called=%s but marker in data=%s in history: %s" % (h, res["called"][h - 1], res["obs"][h - 1], _short(case["events"])),
            data))
    return out


def run(ctx: Ctx) -> Outcome:
    global _CAT
    out = Outcome()
    rng = random.Random(ctx.seed)
    hook_cfgs = ["Hooks_quick.cfg"] if ctx.quick else ["Hooks_thorough_a.cfg", "Hooks_thorough_b.cfg"]
    auth_cfg = "HooksAuth_quick.cfg" if ctx.quick else "HooksAuth_thorough.cfg"
    states = transitions = 0
    timings: dict = {}
    judged_total = 0
    samples: list = []
    evaluations = nontrivial = 0
    n_dis = 0
    fam: dict = {}
    unconfirmed: dict = {}

    def spec_violations(res, module):
        for inv in res.violated:
            out.violations.append(Violation("C19:spec:" + inv, "design invariant %s violated in %s.tla" % (inv, module),
                                            {"kind": "spec", "invariant": inv, "trace": res.counterexample[:60]}))

    # ---------------- hooks ----------------
    for cfg in hook_cfgs:
        res, items, cat = _enumerate("Hooks", cfg)
        spec_violations(res, "Hooks")
        states += res.distinct
        transitions += res.generated
        _CAT = cat
        _setup(cat["ops"])  # import and build once in the parent; the forked workers inherit it
        t1 = time.time()
        results = common.pmap(_work_hooks, items)
        timings["replay_s:" + cfg] = round(time.time() - t1, 1)
        timings["tlc_s:" + cfg] = round(res.wall_s, 1)
        fam[cfg] = len(items)
        dis_idx: list[int] = []
        for i, (item, r) in enumerate(zip(items, results)):
            evaluations += 1
            if '"C' in item or '"unreg"' in item:
                nontrivial += 1
            if r["err"] or _hook_bad(json.loads(item), r):
                dis_idx.append(i)
        # disagreements are re-observed on a newly loaded schema before they are reported, so that a violation can never be an
        # artefact of schema reuse; at most 60 per signature are confirmed and reported, the rest is only counted
        per_sig: dict[str, int] = {}
        to_confirm: list[int] = []
        for i in dis_idx:
            case = json.loads(items[i])
            sigs = {hook_signature(case["events"], h, d, results[i]["obs"][h - 1] if o else None)
                    for h, o, d in hook_disagreements(case["expect"], results[i], case["events"])} or {"data"}
            if any(per_sig.get(sg, 0) < 60 for sg in sigs):
                to_confirm.append(i)
            for sg in sigs:
                per_sig[sg] = per_sig.get(sg, 0) + 1
        confirmed: list[tuple[dict, dict]] = []
        fresh_items = [items[i] for i in to_confirm]
        for item, r in zip(fresh_items, common.pmap(_work_hooks_fresh, fresh_items)):
            case = json.loads(item)
            if _hook_bad(case, r):
                confirmed.append((case, r))
        for sg, n in per_sig.items():
            unconfirmed[sg] = unconfirmed.get(sg, 0) + n
        # the reuse shortcut itself is validated on a random sample of agreeing histories
        dis_set = set(dis_idx)
        agree_idx = [i for i in range(len(items)) if i not in dis_set]
        probe = common.sample(rng, agree_idx, 320 if ctx.quick else 3000)
        for i, r in zip(probe, common.pmap(_work_hooks_fresh, [items[i] for i in probe])):
            if r["obs"] != results[i]["obs"]:
                raise tlc.TLCFailure("schema reuse changes the observation for %s" % items[i])
        # code -> spec: TLC judges every confirmed disagreement and a random sample of agreeing observations
        judged = confirmed[:20000] + [(json.loads(items[i]), results[i]) for i in common.sample(rng, agree_idx, 6000 if ctx.quick else 20000)]
        obs_file = ctx.path("hooks_obs.json")
        tlc.write_json(obs_file, [{"events": c["events"], "obs": r["obs"], "err": r["err"]} for c, r in judged])
        jres = tlc.require_ok(tlc.run_tlc("HooksJudge", "HooksJudge.cfg", env={"OBS_FILE": obs_file}, timeout=3000), "hooks judge")
        tlc_dis = {(p[1], p[2], p[3], p[4]) for p in jres.prints if isinstance(p, list) and p and p[0] == "DISAGREE"}
        py_dis = {(i, h, o, d) for i, (c, r) in enumerate(judged, 1) for h, o, d in hook_disagreements(c["expect"], r, c["events"])}
        if tlc_dis != py_dis:
            raise tlc.TLCFailure("hooks judge (TLC) and exporter disagree on %d cells: %s" % (
                len(tlc_dis ^ py_dis), sorted(tlc_dis ^ py_dis)[:5]))
        judged_total += len(judged)
        timings["judge_s:" + cfg] = round(jres.wall_s, 1)
        n_dis += len(dis_idx)
        for case, r in confirmed:
            out.violations += _hook_violations(case, r, cat)
        pool = [(json.loads(items[i]), results[i]) for i in common.sample(rng, [j for j in agree_idx if '"C' in items[j]] or agree_idx, 2)]
        samples += [{"history": _short(c["events"]), "expected": c["expect"], "observed": r["obs"]} for c, r in pool]
        del results

    # ---------------- auth ----------------
    res, items, cat = _enumerate("HooksAuth", auth_cfg)
    spec_violations(res, "HooksAuth")
    states += res.distinct
    transitions += res.generated
    _CAT = cat
    _setup(cat["ops"])
    t1 = time.time()
    results = common.pmap(_work_auth, items)
    timings["replay_s:" + auth_cfg] = round(time.time() - t1, 1)
    timings["tlc_s:" + auth_cfg] = round(res.wall_s, 1)
    fam[auth_cfg] = len(items)
    bad: list[tuple[dict, list[int]]] = []
    agree: list[int] = []
    cand: list[int] = []
    for i, (item, obs) in enumerate(zip(items, results)):
        case = json.loads(item)
        evaluations += 1
        if '"C' in item:
            nontrivial += 1
        (cand if auth_verdicts(case, obs) else agree).append(i)
    per_sig = {}
    to_confirm = []
    for i in cand:
        case = json.loads(items[i])
        sigs = {auth_signature(case, o, k, results[i]) for o, k in auth_verdicts(case, results[i])}
        if any(per_sig.get(sg, 0) < 60 for sg in sigs):
            to_confirm.append(i)
        for sg in sigs:
            per_sig[sg] = per_sig.get(sg, 0) + 1
    for i, fresh_obs in zip(to_confirm, common.pmap(_work_auth_fresh, [items[i] for i in to_confirm])):
        case = json.loads(items[i])
        if auth_verdicts(case, fresh_obs):
            bad.append((case, fresh_obs))
    for sg, n in per_sig.items():
        unconfirmed[sg] = unconfirmed.get(sg, 0) + n
    for i in common.sample(rng, agree, 60 if ctx.quick else 1500):
        if observe_auth(concretise(json.loads(items[i])["events"], cat), cat["ops"], fresh=True) != results[i]:
            raise tlc.TLCFailure("schema reuse changes the auth observation for %s" % items[i])
    judged_a = bad[:20000] + [(json.loads(items[i]), results[i]) for i in common.sample(rng, agree, 2000 if ctx.quick else 10000)]
    obs_file = ctx.path("auth_obs.json")
    tlc.write_json(obs_file, [{"events": c["events"], "obs": o} for c, o in judged_a])
    jres = tlc.require_ok(tlc.run_tlc("HooksAuthJudge", "HooksAuthJudge.cfg", env={"OBS_FILE": obs_file}, timeout=3000), "auth judge")
    tlc_dis = {(p[1], p[2], p[3]) for p in jres.prints if isinstance(p, list) and p and p[0] == "DISAGREE"}
    py_dis = {(i, o, k) for i, (c, ob) in enumerate(judged_a, 1) for o, k in auth_verdicts(c, ob)}
    if tlc_dis != py_dis:
        raise tlc.TLCFailure("auth judge (TLC) and exporter disagree on %d cells: %s" % (len(tlc_dis ^ py_dis), sorted(tlc_dis ^ py_dis)[:5]))
    judged_total += len(judged_a)
    timings["judge_s:" + auth_cfg] = round(jres.wall_s, 1)
    n_dis += len(cand)
    for case, obs in bad:
        seen_sig = set()
        for o, kind in auth_verdicts(case, obs):
            sig = auth_signature(case, o, kind, obs)
            if sig in seen_sig:
                continue
            seen_sig.add(sig)
            op = cat["ops"][o - 1]
            out.violations.append(Violation(
                sig, "auth %s for %s %s: observed provider %s, may=%s must=%s in history: %s" % (
                    kind, text(op["method"]).upper(), text(op["path"]), obs[o - 1], [r[o - 1] for r in case["may"]], case["must"][o - 1],
                    _short(case["events"])),
                {"kind": "auth", "events": concretise(case["events"], cat), "ops": cat["ops"], "may": case["may"], "must": case["must"]},
            ))
    pool = [(json.loads(items[i]), results[i]) for i in common.sample(rng, [j for j in agree if '"C' in items[j]] or agree, 2)]
    samples += [{"history": _short(c["events"]), "may": c["may"], "must": c["must"], "observed_provider_per_operation": o} for c, o in pool]

    out.coverage = {
        "states": states,
        "transitions": transitions,
        "traces_validated_against_impl": judged_total,
        "samples": samples,
        "evaluations": evaluations,
        "distinct_nontrivial": nontrivial,
        "rule": "every registration/unregistration history reachable in Hooks.tla under %s and every auth history of HooksAuth.tla under %s "
                "(TLC-enumerated; each replayed once on new dispatchers / storages and evaluated against all %d operations by generating a "
                "case through the real strategy); non-trivial = the history contains a filter chain or an unregistration" % (
                    "+".join(hook_cfgs), auth_cfg, len(cat["ops"])),
        "exhaustive": True,
        "family_sizes": fam,
        "disagreeing_histories": n_dis,
        "disagreeing_histories_by_signature": unconfirmed,
        "constants": {"hook_cfgs": hook_cfgs, "auth_cfg": auth_cfg},
        "timings": timings,
    }
    out.assumptions = [
        "a HookDispatcher(scope=GLOBAL) created per history and bound to hooks.GLOBAL_HOOK_DISPATCHER / schemas.GLOBAL_HOOK_DISPATCHER "
        "stands for the import-time global dispatcher of a new interpreter",
        "per process one schema object is reused with its hooks / hook / auth fields re-created as for a new instance; every "
        "disagreement and a random sample of agreements are re-observed on a newly loaded schema",
        "one generated case per (history, operation): hooks are attached structurally when the strategy is built, so one draw shows them",
        "test scope is exercised as the pytest plugin does it: as_strategy(hooks=HookDispatcherMark.get(test), auth_storage=AuthStorageMark.get(test))",
        "auth: which of several applicable providers wins and whether a more specific scope shadows another is not fixed by the property "
        "(judged for soundness only in those histories)",
    ]
    return out


def replay(ctx: Ctx, data: dict) -> Outcome:
    out = Outcome()
    if data.get("kind") == "spec":
        return out
    if data["kind"] == "hooks":
        r = observe_hooks(data["events"], data["ops"], fresh=True)
        case = {"events": data["events"], "expect": data["expect"]}
        out.violations += _hook_violations(case, r, {"ops": data["ops"], "chains": {e["c"]: e["chain"] for e in data["events"] if e.get("c", "-") != "-"}})
    else:
        obs = observe_auth(data["events"], data["ops"], fresh=True)
        for o, kind in auth_verdicts(data, obs):
            out.violations.append(Violation(auth_signature(data, o, kind, obs), "auth %s for operation %d: observed %s" % (kind, o, obs), data))
    return out


def selftest(ctx: Ctx) -> bool:
    """Binding: corrupted observations must be rejected by the TLA+ judges, faithful ones accepted."""
    ev = [{"ev": "reg", "r": "schema", "f": "filt_bare", "c": "C1", "n": "map_query", "t": 0},
          {"ev": "reg", "r": "schema", "f": "filt_bare", "c": "C3", "n": "filter_query", "t": 0},
          {"ev": "unreg", "r": "schema", "f": "-", "c": "-", "n": "-", "t": 1}]
    good = {"events": ev, "obs": [[0, 0, 0, 0], [0, 0, 0, 1]], "err": 0}
    bad1 = {"events": ev, "obs": [[1, 0, 1, 0], [0, 0, 0, 1]], "err": 0}  # the unregistered hook still applied
    bad2 = {"events": ev[:2], "obs": [[1, 0, 1, 0], [1, 0, 1, 0]], "err": 0}  # second hook shows the first hook's filter
    f = ctx.path("obs.json")
    bad3 = {"events": ev[:2], "obs": [], "err": 2}  # the second registration raised
    tlc.write_json(f, [good, bad1, bad2, bad3])
    r = tlc.require_ok(tlc.run_tlc("HooksJudge", "HooksJudge.cfg", env={"OBS_FILE": f}), "selftest hooks")
    dis = sorted(tuple(p[1:]) for p in r.prints if isinstance(p, list) and p and p[0] == "DISAGREE")
    ok1 = dis == [(2, 1, 1, "spurious"), (2, 1, 3, "spurious"), (3, 2, 1, "spurious"), (3, 2, 3, "spurious"), (3, 2, 4, "missing"),
                  (4, 2, 0, "raised")]
    aev = [{"ev": "areg", "s": "schema", "f": "register", "c": "C1"}]
    tlc.write_json(f, [{"events": aev, "obs": [1, 0, 1, 0]}, {"events": aev, "obs": [1, 1, 1, 0]}, {"events": aev, "obs": [0, 0, 1, 0]}])
    r = tlc.require_ok(tlc.run_tlc("HooksAuthJudge", "HooksAuthJudge.cfg", env={"OBS_FILE": f}), "selftest auth")
    dis = sorted(tuple(p[1:]) for p in r.prints if isinstance(p, list) and p and p[0] == "DISAGREE")
    ok2 = dis == [(2, 2, "unsound"), (3, 1, "incomplete")]
    # and the replay machinery itself distinguishes hooks: an unfiltered and a filtered hook give different rows
    cat_res, items, cat = _enumerate("HooksAuth", "HooksAuth_quick.cfg")
    events = concretise([{"ev": "reg", "r": "schema", "f": "filt_bare", "c": "C1", "n": "map_query", "t": 0},
                         {"ev": "reg", "r": "global", "f": "bare", "c": "-", "n": "filter_body", "t": 0}], cat)
    r2 = observe_hooks(events, cat["ops"], fresh=True)
    ok3 = r2["obs"][1] == [1, 1, 1, 1] and r2["obs"][0] in ([1, 0, 1, 0],)
    if not (ok1 and ok2 and ok3):
        print("selftest details:", ok1, ok2, ok3, dis, r2)
    return ok1 and ok2 and ok3


def main(argv=None) -> int:
    return common.main("C19", run, replay, selftest, argv)
