"""Spec -> code for schedules: behaviours of spec/Engine.tla (TLC simulation traces and counterexamples) are reduced to a
skeleton over synchronisation-relevant steps and FORCED onto the real engine's threads through the _verif hook points.

Skeleton tokens (role, token):
  ("c", "got" | "empty" | "alive")            consumer: after a queue get / after queue.Empty / before the liveness check
  (w,   "loop")                               worker w: about to ask the TaskProducer for the next operation
  (w,   "took:<op>" | "took:0")               worker w: after TaskProducer.next_operation (0 = no operation left)
  (w,   "put:<kind>")                         worker w: BEFORE events_queue.put of ScS / ScF / NFE / INT
  (w,   "exit")                               worker w: thread target returned
  ("env", "stop")                             EventStream.stop() called from outside
A thread arriving at a controlled point parks until its token is at the head of the schedule. Model workers are bound to real
threads by the operation they take first. If the implementation cannot follow the skeleton within `patience` seconds the run
is marked diverged, every thread is released and the run finishes freely (a divergence is reported, never judged as a violation).
"""
from __future__ import annotations

import re
import threading
import time
from typing import Any

from . import tlc
from .engine_driver import KIND, Recorder

ACTION = re.compile(r"^\\\* <(\w+)(?:\((\d+)[\d, ]*\))? line")


def parse_behaviour(path: str) -> list[tuple[str, int, dict]]:
    """One TLC `-simulate file=` trace -> [(action, param, {var: value})]."""
    out: list[tuple[str, int, dict]] = []
    action, param = "", 0
    state: dict[str, Any] = {}
    cur_var, cur_val = None, []

    def flush_var():
        nonlocal cur_var, cur_val
        if cur_var is not None:
            try:
                state[cur_var] = tlc.parse_value(" ".join(cur_val))
            except Exception:
                state[cur_var] = None
        cur_var, cur_val = None, []

    with open(path) as fd:
        for raw in fd:
            line = raw.rstrip("\n")
            m = ACTION.match(line)
            if m:
                flush_var()
                if action:
                    out.append((action, param, state))
                action, param, state = m.group(1), int(m.group(2) or 0), {}
                continue
            if line.startswith("/\\ "):
                flush_var()
                name, _, val = line[3:].partition(" = ")
                cur_var, cur_val = name.strip(), [val]
            elif cur_var is not None and line.strip():
                cur_val.append(line.strip())
    flush_var()
    if action:
        out.append((action, param, state))
    return out


def parse_counterexample(lines: list[str]) -> list[tuple[str, int, dict]]:
    """TLC error trace (stdout) -> same shape as parse_behaviour."""
    out = []
    action, param, state = "", 0, {}
    cur_var, cur_val = None, []
    hdr = re.compile(r"^State \d+: <(\w+)(?:\((\d+)[\d, ]*\))? line")

    def flush_var():
        nonlocal cur_var, cur_val
        if cur_var is not None:
            try:
                state[cur_var] = tlc.parse_value(" ".join(cur_val))
            except Exception:
                state[cur_var] = None
        cur_var, cur_val = None, []

    for line in lines:
        m = hdr.match(line)
        if m:
            flush_var()
            if action:
                out.append((action, param, state))
            action, param, state = m.group(1), int(m.group(2) or 0), {}
            continue
        if line.startswith("/\\ "):
            flush_var()
            name, _, val = line[3:].partition(" = ")
            cur_var, cur_val = name.strip(), [val]
        elif cur_var is not None and line.strip() and not line.startswith("State "):
            cur_val.append(line.strip())
    flush_var()
    if action:
        out.append((action, param, state))
    return out


def skeleton(beh: list[tuple[str, int, dict]], nops: int) -> tuple[list[tuple], dict]:
    """Model behaviour (single unit phase) -> (schedule tokens, run descriptor pieces)."""
    steps: list[tuple] = []
    ops = ["ok"] * nops
    fault = None
    prev: dict = {}
    stopped = False
    for action, w, st in beh:
        if action == "C_Get":
            steps.append(("c", "got"))
        elif action == "C_Timeout":
            steps.append(("c", "empty"))
        elif action == "C_Alive":
            steps.append(("c", "alive"))
        elif action == "W_Loop":
            wpc = st.get("wpc") or []
            now = wpc[w - 1] if wpc else ""
            if now != "take":
                steps.append((w, "exit"))        # saw the stop request at the head of its loop and left (passing the check is silent)
        elif action == "W_Take":
            wpc = st.get("wpc") or []
            now = wpc[w - 1] if wpc else ""
            steps.append((w, "loop"))            # the hook between the stop check and producer.next_operation(): who asks next
            if now == "create":
                steps.append((w, "took:%d" % st["wop"][w - 1]))
            else:
                steps.append((w, "took:0"))
                steps.append((w, "exit"))
        elif action in ("W_Started", "W_Err1"):
            steps.append((w, "put:ScS"))
        elif action == "W_Err2":
            steps.append((w, "put:NFE"))
        elif action == "W_Finish":
            steps.append((w, "put:ScF"))
        elif action == "W_Intr":
            steps.append((w, "put:INT"))
        elif action == "W_Send":
            if (st.get("wout") or [None] * w)[w - 1] == "failure":
                ops[st["wop"][w - 1] - 1] = "bad"
        elif action == "W_Create":
            if st.get("faulted") and not prev.get("faulted"):
                fault = {"site": "builder.create_test", "occ": 1, "exc": "Exception", "op": st["wop"][w - 1]}
        elif action == "Env_Stop":
            steps.append(("env", "stop"))
            stopped = True
        prev = st
    return steps, {"ops": ops, "fault": fault, "stopped": stopped}


def skeleton_stateful(beh: list[tuple[str, int, dict]]) -> tuple[list[tuple], dict]:
    """Behaviour of spec/Stateful.tla -> partial skeleton: only the consumer's steps, the thread's exit and external stops are
    forced; what the state-machine thread enqueues in between is left to Hypothesis (the model abstracts it nondeterministically)."""
    steps: list[tuple] = []
    info = {"bad": False, "stopped": False, "ctrlc": False}
    for action, _, st in beh:
        if action == "C_Get":
            steps.append(("c", "got"))
        elif action == "C_Timeout":
            steps.append(("c", "empty"))
        elif action == "C_Alive":
            steps.append(("c", "alive"))
        elif action == "C_CtrlC":
            steps.append(("c", "ctrlc"))
            info["ctrlc"] = True
        elif action == "T_Exit":
            steps.append(("t", "exit"))
        elif action == "Env_Stop":
            steps.append(("env", "stop"))
            info["stopped"] = True
        if st.get("problem"):
            info["bad"] = True
    # consumer gets in the model are tied to the model's queue content; the real queue content differs (Hypothesis decides), so
    # only the gets BEFORE the thread's exit that the model needs for the race are kept as "at least this many" by dropping them:
    steps = [s for s in steps if s != ("c", "got")]
    return steps, info


class Scheduler(Recorder):
    """Recorder that additionally forces a skeleton schedule."""

    def __init__(self, steps: list[tuple], fault: dict | None = None, patience: float = 4.0):
        super().__init__(fault=fault)
        self.steps = list(steps)
        self.idx = 0
        self.cv = threading.Condition()
        self.bind: dict[int, Any] = {}        # thread ident -> model role
        self.bound_roles: set = set()
        self.exiting: list[threading.Thread] = []
        self.diverged = ""
        self.patience = patience
        self.free = False
        self.main = threading.get_ident()
        self.followed = 0

    def head(self):
        with self.cv:
            return self.steps[self.idx] if (not self.free and self.idx < len(self.steps)) else None

    # ---- gate -------------------------------------------------------------------------------------------------
    def _role(self) -> Any:
        ident = threading.get_ident()
        if ident == self.main:
            return "c"
        return self.bind.get(ident)

    def gate(self, token: str, env: bool = False) -> None:
        if self.free:
            role = "env" if env else self._role()
            if role is not None:
                self.emit({"e": "G", "role": str(role), "tok": token})   # keep logging the steps once the schedule is exhausted
            return
        ident = threading.get_ident()
        deadline = time.monotonic() + self.patience
        with self.cv:
            while not self.free:
                if self.idx >= len(self.steps):
                    self.free = True  # schedule exhausted: everybody runs freely from here
                    self.cv.notify_all()
                    role0 = "env" if env else self._role()
                    if role0 is not None:
                        self.emit({"e": "G", "role": str(role0), "tok": token})
                    return
                role, tok = self.steps[self.idx]
                mine = "env" if env else self._role()
                if mine == "c" and token in ("empty", "alive") and (role, tok) == ("c", "got"):
                    return   # spurious timeout while the granted put is still in flight: a stuttering step of the model
                if mine == "c" and token in ("empty", "alive") and (role, tok) == ("c", "ctrlc"):
                    # the model interrupts the consumer while it waits; the real consumer has just timed out of that wait:
                    # Ctrl-C arrives now (still inside the consumer's try block, same handler as an interrupt inside get())
                    self.idx += 1
                    self.followed += 1
                    self.emit({"e": "G", "role": "c", "tok": "ctrlc"})
                    self.emit({"e": "CTRLC"})
                    self.cv.notify_all()
                    raise KeyboardInterrupt
                ok = False
                if tok == token:
                    if mine is not None and mine == role:
                        ok = True
                    elif mine is None and role not in ("c", "env") and role not in self.bound_roles:
                        self.bind[ident] = role        # bind this real thread to the model worker
                        self.bound_roles.add(role)
                        ok = True
                if ok:
                    for t in self.exiting:             # a granted exit must have completed before anything else moves
                        if t is not threading.current_thread():
                            t.join(1.0)
                    self.exiting = [t for t in self.exiting if t.is_alive()]
                    self.idx += 1
                    self.followed += 1
                    self.emit({"e": "G", "role": str(role), "tok": token})
                    if token == "exit":
                        self.exiting.append(threading.current_thread())
                    self.cv.notify_all()
                    return
                remaining = deadline - time.monotonic()
                if remaining <= 0:
                    self.diverged = "thread %s waited for %r but the schedule expects %r at step %d" % (mine, token, (role, tok), self.idx)
                    self.free = True
                    self.cv.notify_all()
                    return
                self.cv.wait(min(remaining, 0.05))

    # ---- _verif controller API ----------------------------------------------------------------------------------
    def point(self, name: str, data: dict) -> None:
        if name == "unit.consumer.got":
            self.gate("got")
        elif name == "unit.consumer.empty":
            self.gate("empty")
        elif name == "unit.consumer.alive":
            self.gate("alive")
        elif name == "unit.worker.loop":
            self.gate("loop")
        elif name == "unit.worker.took":
            res = data.get("result")
            op = 0
            if res is not None:
                try:
                    op = self.op_of_label.get(res.ok().label, 0)
                except Exception:
                    op = 0
            self.gate("took:%d" % op)
        elif name == "worker.exit":
            self.gate("exit")
        elif name == "stateful.consumer.empty":
            self.gate("empty")
        elif name == "stateful.consumer.alive":
            self.gate("alive")
        elif name == "stateful.thread.exit":
            self.bind.setdefault(threading.get_ident(), "t")
            self.bound_roles.add("t")
            self.gate("exit")
        super().point(name, data)

    def make_queue(self, name: str):
        base = super().make_queue(name)
        sched = self
        cls = type(base)

        stateful = name == "stateful"

        class GatedQueue(cls):  # type: ignore[misc,valid-type]
            def put(self, item, block=True, timeout=None):
                if threading.get_ident() != sched.main and not stateful:
                    sched.gate("put:" + KIND.get(type(item).__name__, type(item).__name__))
                return super().put(item, block, timeout)

            def get(self, block=True, timeout=None):
                if stateful and threading.get_ident() == sched.main and sched.head() == ("c", "ctrlc"):
                    sched.gate("ctrlc")
                    sched.emit({"e": "CTRLC"})
                    raise KeyboardInterrupt
                return super().get(block, timeout)

        return GatedQueue()
