"""C20 - generated GraphQL requests are valid for the schema and target their field; offered operations / counts follow the name filters.

spec/GraphQL.tla enumerates schema shapes (TLC) and exports, per shape, the type table, the operations, the expected offered
set / counts for every name-filter pair and a canonical document with mutants.  Every shape is concretised into SDL text and
(independently) introspection JSON, loaded through schemathesis.graphql.from_file / from_dict / from_path, and for every root
field `schema[root][field].as_strategy()` (and the operations of `get_all_operations()`) is drawn from.  `case.body` is parsed with
graphql-core's PARSER only; the projected AST is judged by spec/GraphQLJudge.tla.  graphql-core's `validate` runs alongside:
a disagreement with the TLA+ verdict is reported for triage as a spec discrepancy - it is not the oracle.

Schema edited by a load hook (shape.hook): the SOURCE schema (`source` of the exported view = SourceTypes(shape)) is what gets
loaded, while a global `after_load_schema` hook performs the exported `edits` (HookEdits(shape)) on `schema.raw_schema` in place;
everything observed is judged against the EDITED schema (`types` = Types(shape), AllOps(shape)) like for any other shape.
"""
from __future__ import annotations

import json
import os
import random
import tempfile
import time
from concurrent.futures import ThreadPoolExecutor

from . import common, tlc
from .common import Ctx, Outcome, Violation

DEFAULTS = {"Int": "3", "Float": "1.5", "String": '"d"', "Boolean": "true", "ID": '"i"', "Color": "RED", "Date": '"2020-01-01"',
            "Long": "7", "Reg": '"r1"', "Unreg": '"u"', "Inner": "{a: 1}", "Outer": "{inner: {a: 1}}"}
BUILTIN = {"Int", "Float", "String", "Boolean", "ID"}
TARGET_RULES = {"not-exactly-one-operation", "wrong-operation-type", "not-exactly-the-field", "no-root-type-for-operation"}
CONFIG_RULES = {"null-when-disabled", "nul-when-disabled", "non-ascii-with-ascii-codec"}
UNKNOWN_RULES = {"U:argument-value", "U:fragment-spread", "U:variables"}
CFGS_QUICK = [(True, True, False), (False, True, False), (True, False, False), (False, False, True)]
CFGS_THOROUGH = [(n, x, a) for n in (True, False) for x in (True, False) for a in (False, True)]
CHUNK = 30000


# --------------------------------------------------------------------------------------------------------------------
# spec -> code: type table -> SDL text / introspection JSON (two independent concretisations)
# --------------------------------------------------------------------------------------------------------------------
def tref(t: list[str]) -> str:
    if t[0] == "NN":
        return tref(t[1:]) + "!"
    if t[0] == "L":
        return "[" + tref(t[1:]) + "]"
    return t[0]


def _arg_sdl(a: dict) -> str:
    return "%s: %s%s" % (a["name"], tref(a["type"]), " = " + DEFAULTS[a["type"][-1]] if a["dflt"] else "")


def to_sdl(view: dict) -> str:
    types, roots = view["types"], view["roots"]
    out = []
    if roots["query"] != "Query":
        out.append("schema { query: %s%s%s }" % (
            roots["query"], " mutation: " + roots["mutation"] if roots["mutation"] else "",
            " subscription: " + roots["subscription"] if roots["subscription"] else ""))
    for name, d in types.items():
        k = d["kind"]
        if k == "scalar":
            if name not in BUILTIN:
                out.append("scalar " + name)
        elif k == "enum":
            out.append("enum %s { %s }" % (name, " ".join(d["values"])))
        elif k == "input":
            out.append("input %s { %s }" % (name, " ".join(_arg_sdl(f) for f in d["fields"])))
        elif k in ("object", "interface"):
            fields = " ".join("%s%s: %s" % (f["name"], "(" + ", ".join(_arg_sdl(a) for a in f["args"]) + ")" if f["args"] else "",
                                             tref(f["type"])) for f in d["fields"])
            impl = " implements " + " & ".join(d["ifaces"]) if d["ifaces"] else ""
            out.append("%s %s%s { %s }" % ("type" if k == "object" else "interface", name, impl, fields))
        elif k == "union":
            out.append("union %s = %s" % (name, " | ".join(d["possible"])))
    return "\n".join(out) + "\n"


_KIND = {"scalar": "SCALAR", "enum": "ENUM", "input": "INPUT_OBJECT", "object": "OBJECT", "interface": "INTERFACE", "union": "UNION"}


def to_introspection(view: dict) -> dict:
    types, roots = view["types"], view["roots"]

    def itype(t):
        if t[0] == "NN":
            return {"kind": "NON_NULL", "name": None, "ofType": itype(t[1:])}
        if t[0] == "L":
            return {"kind": "LIST", "name": None, "ofType": itype(t[1:])}
        return {"kind": _KIND[types[t[0]]["kind"]], "name": t[0], "ofType": None}

    def ival(a):
        return {"name": a["name"], "description": None, "type": itype(a["type"]),
                "defaultValue": DEFAULTS[a["type"][-1]] if a["dflt"] else None}

    def named(n):
        return {"kind": _KIND[types[n]["kind"]], "name": n, "ofType": None}

    out = []
    for name, d in types.items():
        k = d["kind"]
        e = {"kind": _KIND[k], "name": name, "description": None, "fields": None, "inputFields": None, "interfaces": None,
             "enumValues": None, "possibleTypes": None}
        if k == "enum":
            e["enumValues"] = [{"name": v, "description": None, "isDeprecated": False, "deprecationReason": None} for v in d["values"]]
        elif k == "input":
            e["inputFields"] = [ival(f) for f in d["fields"]]
        elif k in ("object", "interface"):
            e["fields"] = [{"name": f["name"], "description": None, "args": [ival(a) for a in f["args"]], "type": itype(f["type"]),
                            "isDeprecated": False, "deprecationReason": None} for f in d["fields"]]
            e["interfaces"] = [named(n) for n in d["ifaces"]]
            if k == "interface":
                e["possibleTypes"] = [named(n) for n in d["possible"]]
        elif k == "union":
            e["possibleTypes"] = [named(n) for n in d["possible"]]
        out.append(e)
    return {"__schema": {
        "queryType": {"name": roots["query"]},
        "mutationType": {"name": roots["mutation"]} if roots["mutation"] else None,
        "subscriptionType": {"name": roots["subscription"]} if roots["subscription"] else None,
        "types": out, "directives": []}}


def source_view(view: dict) -> dict:
    """The schema document that is LOADED: the source the hook edits (equal to the view itself when there is no hook)."""
    return dict(view, types=view["source"]) if view.get("edits") else view


def make_load_hook(view: dict):
    """HookEdits(shape) as a real `after_load_schema` hook: edits the introspection result of the loaded schema in place."""
    types, edits = view["types"], view["edits"]

    def itype(t):
        if t[0] == "NN":
            return {"kind": "NON_NULL", "name": None, "ofType": itype(t[1:])}
        if t[0] == "L":
            return {"kind": "LIST", "name": None, "ofType": itype(t[1:])}
        return {"kind": _KIND[types[t[0]]["kind"]], "name": t[0], "ofType": None}

    def after_load_schema(context, schema):
        by_name = {t["name"]: t for t in schema.raw_schema["__schema"]["types"]}
        for e in edits:
            type_def = by_name[e["type"]]
            if e["op"] == "drop-field":
                type_def["fields"] = [f for f in type_def["fields"] if f["name"] != e["field"]]
            else:
                for f in type_def["fields"]:
                    if f["name"] == e["field"]:
                        for a in f["args"]:
                            if a["name"] == e["arg"]:
                                a["type"] = itype(e["to"])
                                a["defaultValue"] = DEFAULTS[e["to"][-1]] if e["dflt"] else None

    return after_load_schema


def with_load_hook(view: dict, load):
    """`load`, executed while the view's hook (if it has one) is registered globally."""
    if not view.get("edits"):
        return load

    def hooked():
        import schemathesis

        hook = make_load_hook(view)
        schemathesis.hook(hook)
        try:
            return load()
        finally:
            schemathesis.hooks.unregister(hook)

    return hooked


# --------------------------------------------------------------------------------------------------------------------
# code -> spec: graphql-core AST (parser only) -> projected AST ; and back to text for the canonical documents
# --------------------------------------------------------------------------------------------------------------------
def project_value(v) -> dict:
    import math

    k = v.kind
    if k == "null_value":
        return {"t": "null"}
    if k == "int_value":
        s = v.value
        return {"t": "int", "neg": s.startswith("-"), "digits": [int(c) for c in s.lstrip("-")]}
    if k == "float_value":
        try:
            fin = math.isfinite(float(v.value))
        except (ValueError, OverflowError):
            fin = False
        return {"t": "float", "finite": fin}
    if k == "string_value":
        return {"t": "str", "v": [ord(c) for c in v.value]}
    if k == "boolean_value":
        return {"t": "bool", "v": bool(v.value)}
    if k == "enum_value":
        return {"t": "enum", "v": v.value}
    if k == "list_value":
        return {"t": "list", "v": [project_value(x) for x in v.values]}
    if k == "object_value":
        return {"t": "obj", "k": [f.name.value for f in v.fields], "v": [project_value(f.value) for f in v.fields]}
    return {"t": "var"}


def project_sel(s) -> dict:
    if s.kind == "field":
        return {"kind": "field", "name": s.name.value, "rn": s.alias.value if s.alias else s.name.value, "on": "",
                "args": [{"name": a.name.value, "value": project_value(a.value)} for a in s.arguments],
                "sels": [project_sel(x) for x in s.selection_set.selections] if s.selection_set else []}
    if s.kind == "inline_fragment":
        return {"kind": "inline", "name": "", "rn": "", "on": s.type_condition.name.value if s.type_condition else "", "args": [],
                "sels": [project_sel(x) for x in s.selection_set.selections]}
    return {"kind": "spread", "name": s.name.value, "rn": "", "on": "", "args": [], "sels": []}


def project_doc(ast) -> dict:
    defs = []
    for d in ast.definitions:
        if d.kind == "operation_definition":
            defs.append({"kind": "operation", "optype": d.operation.value, "named": d.name is not None, "nvars": len(d.variable_definitions or ()),
                         "sels": [project_sel(x) for x in d.selection_set.selections]})
        else:
            defs.append({"kind": "fragment", "optype": "", "named": True, "nvars": 0, "sels": []})
    return {"defs": defs}


def print_value(v: dict) -> str:
    t = v["t"]
    if t == "null":
        return "null"
    if t == "int":
        return ("-" if v["neg"] else "") + "".join(str(d) for d in v["digits"])
    if t == "float":
        return "1.5" if v["finite"] else "1e999"
    if t == "str":
        return json.dumps("".join(chr(c) for c in v["v"]))
    if t == "bool":
        return "true" if v["v"] else "false"
    if t == "enum":
        return v["v"]
    if t == "list":
        return "[" + ", ".join(print_value(x) for x in v["v"]) + "]"
    if t == "obj":
        return "{" + ", ".join("%s: %s" % (k, print_value(x)) for k, x in zip(v["k"], v["v"])) + "}"
    return "$v"


def print_sel(s: dict) -> str:
    sub = " { " + " ".join(print_sel(x) for x in s["sels"]) + " }" if s["sels"] else ""
    if s["kind"] == "field":
        alias = s["rn"] + ": " if s["rn"] != s["name"] else ""
        args = "(" + ", ".join("%s: %s" % (a["name"], print_value(a["value"])) for a in s["args"]) + ")" if s["args"] else ""
        return alias + s["name"] + args + sub
    if s["kind"] == "inline":
        return "..." + (" on " + s["on"] if s["on"] else "") + sub
    return "..." + s["name"]


def print_doc(doc: dict) -> str:
    return "\n".join("%s { %s }" % (d["optype"], " ".join(print_sel(x) for x in d["sels"])) for d in doc["defs"])


# --------------------------------------------------------------------------------------------------------------------
# per-shape work (runs in pool processes)
# --------------------------------------------------------------------------------------------------------------------
_ready = {}


def _setup():
    if not _ready:
        import schemathesis
        from hypothesis import strategies as st
        from schemathesis.specs.graphql import nodes

        schemathesis.graphql.scalar("Reg", st.sampled_from(["r1", "r2", ""]).map(nodes.String))
        _ready["ok"] = True


def _draw(strategy, n: int, seed: int):
    import hypothesis
    from hypothesis import HealthCheck, Phase, given, settings

    out = []

    @hypothesis.seed(seed)
    @settings(max_examples=n, database=None, deadline=None, suppress_health_check=list(HealthCheck), phases=[Phase.generate])
    @given(strategy)
    def t(case):
        out.append(case)

    try:
        t()
    except BaseException as exc:  # noqa: BLE001 - recorded, not judged
        return out, "%s: %s" % (type(exc).__name__, str(exc).splitlines()[0][:160] if str(exc) else "")
    return out, None


def _gql_rules(gschema, ast) -> list[str]:
    """Names of graphql-core's validation rules that reject the document (not the oracle; run alongside)."""
    import graphql

    if not graphql.validate(gschema, ast):
        return []
    bad = [r.__name__ for r in graphql.specified_rules if graphql.validate(gschema, ast, rules=[r])]
    return bad or ["<unattributed>"]


def _load(view: dict, loader: str):
    import schemathesis

    if loader == "sdl":
        return schemathesis.graphql.from_file(to_sdl(view))
    if loader == "json":
        return schemathesis.graphql.from_dict(to_introspection(view))
    if loader == "json-data":
        return schemathesis.graphql.from_dict({"data": to_introspection(view)})
    if loader == "file-json":
        return schemathesis.graphql.from_file(json.dumps(to_introspection(view)))
    if loader == "path":
        with tempfile.NamedTemporaryFile("w", suffix=".graphql", delete=False) as fd:
            fd.write(to_sdl(view))
        try:
            return schemathesis.graphql.from_path(fd.name)
        finally:
            os.unlink(fd.name)
    raise ValueError(loader)


def _label_to_op(view: dict, label: str) -> dict:
    root, _, field = label.partition(".")
    roots = view["roots"]
    kind = "query" if root == roots["query"] else "mutation" if root and root == roots["mutation"] else \
        "subscription" if root and root == roots["subscription"] else root
    return {"root": kind, "field": field}


def _filter_kwargs(view: dict, a: dict) -> dict:
    roots = view["roots"]
    rn = {"query": roots["query"], "mutation": roots["mutation"] or "Mutation"}

    def name(o):
        return "%s.%s" % (rn[o["root"]], o["field"])

    if a["k"] == "eq":
        return {"name": name(a)}
    if a["k"] == "in":
        return {"name": sorted(name(o) for o in a["ops"])}
    if a["k"] == "root":
        return {"name_regex": "^%s\\." % rn[a["root"]]}
    if a["k"] == "field":
        return {"name_regex": "\\.%s$" % a["field"]}
    return {}


LIVE_PATH = "/api/graphql"


class _Live:
    """A GraphQL endpoint the schema is LOADED FROM (introspection over HTTP / WSGI / ASGI) and test cases are SENT to.
    Everything it receives is recorded: {"method", "path", "ctype", "body", "case_id"}."""

    def __init__(self, view: dict, kind: str, send_path: str = LIVE_PATH):
        self.kind, self.records, self.server, self.send_path = kind, [], None, send_path
        self.payload = {"data": to_introspection(view)}
        if kind == "url":
            from .server import LoopbackServer, json_response

            def behaviour(rec):
                self.records.append({"method": rec.method, "path": rec.path, "ctype": rec.header("content-type", ""), "body": rec.body,
                                     "case_id": rec.header("x-schemathesis-testcaseid", "")})
                return json_response(200, self._answer(rec.body))

            self.server = LoopbackServer(behaviour).start()

    def _answer(self, body: bytes) -> dict:
        try:
            query = json.loads(body).get("query", "")
        except Exception:  # noqa: BLE001
            query = ""
        return self.payload if isinstance(query, str) and "__schema" in query else {"data": {}}

    def wsgi_app(self, environ, start_response):
        body = environ["wsgi.input"].read(int(environ.get("CONTENT_LENGTH") or 0))
        self.records.append({"method": environ["REQUEST_METHOD"], "path": environ.get("PATH_INFO", ""), "ctype": environ.get("CONTENT_TYPE", ""),
                             "body": body, "case_id": environ.get("HTTP_X_SCHEMATHESIS_TESTCASEID", "")})
        out = json.dumps(self._answer(body)).encode()
        start_response("200 OK", [("Content-Type", "application/json"), ("Content-Length", str(len(out)))])
        return [out]

    async def asgi_app(self, scope, receive, send):
        if scope["type"] == "lifespan":
            while True:
                message = await receive()
                if message["type"] == "lifespan.startup":
                    await send({"type": "lifespan.startup.complete"})
                elif message["type"] == "lifespan.shutdown":
                    await send({"type": "lifespan.shutdown.complete"})
                    return
        body = b""
        while True:
            message = await receive()
            body += message.get("body", b"")
            if not message.get("more_body"):
                break
        headers = {k.decode().lower(): v.decode("latin-1") for k, v in scope["headers"]}
        self.records.append({"method": scope["method"], "path": scope["path"], "ctype": headers.get("content-type", ""), "body": body,
                             "case_id": headers.get("x-schemathesis-testcaseid", "")})
        out = json.dumps(self._answer(body)).encode()
        await send({"type": "http.response.start", "status": 200, "headers": [(b"content-type", b"application/json")]})
        await send({"type": "http.response.body", "body": out})

    def load(self):
        import schemathesis

        if self.kind == "url":
            schema = schemathesis.graphql.from_url(self.server.base_url + LIVE_PATH)
            if self.send_path != LIVE_PATH:      # the user points the tests at another URL than the one the schema came from
                schema.configure(base_url=self.server.base_url + self.send_path)
            return schema
        if self.kind == "wsgi":
            return schemathesis.graphql.from_wsgi(LIVE_PATH, self.wsgi_app)
        return schemathesis.graphql.from_asgi(LIVE_PATH, self.asgi_app)

    def close(self):
        if self.server is not None:
            self.server.stop()


def project_wire(rec: dict, case_body, send_path: str = LIVE_PATH) -> dict:
    """What the endpoint received, reduced to what WireViol (GraphQL.tla) reads."""
    import graphql

    w = {"method": rec["method"], "ctypeJson": rec["ctype"].split(";")[0].strip().lower() == "application/json", "isObject": False, "keys": [],
         "queryIsString": False, "verbatim": False, "pathOk": rec["path"] == send_path, "doc": {"defs": []}}
    try:
        payload = json.loads(rec["body"])
    except Exception:  # noqa: BLE001
        return w
    if isinstance(payload, dict):
        w["isObject"], w["keys"] = True, list(payload)
        query = payload.get("query")
        if isinstance(query, str):
            w["queryIsString"], w["verbatim"] = True, query == case_body
            try:
                w["doc"] = project_doc(graphql.parse(query, no_location=True))
            except Exception:  # noqa: BLE001
                w["doc"] = {"defs": []}
    return w


def work(item: dict) -> dict:
    """One (shape, loader): draws for every operation under every generation config; offered operations / counts per filter."""
    _setup()
    import graphql
    from schemathesis.generation import GenerationConfig

    view, loader, sidx = item["view"], item["loader"], item["s"]
    rng_seed = item["seed"]
    res = {"s": sidx, "loader": loader, "docs": [], "ops": [], "errors": [], "draws": 0, "canon": [], "gql": {}, "wire": [], "maps": []}
    gschema = graphql.build_schema(to_sdl(view))  # independent of schemathesis; used only for the side-by-side validate (the EDITED schema)
    src = source_view(view)                       # what is loaded; the hook of the shape (if any) turns it into `view`
    live = _Live(src, loader, item.get("send_path", LIVE_PATH)) if loader in ("url", "wsgi", "asgi") else None
    load = with_load_hook(view, live.load if live else (lambda: _load(src, loader)))
    try:
        _work_body(item, res, gschema, live, load)
    finally:
        if live:
            live.close()
    return res


def _work_body(item: dict, res: dict, gschema, live, load) -> None:
    import graphql
    from schemathesis.generation import GenerationConfig

    view, loader, sidx = item["view"], item["loader"], item["s"]
    rng_seed = item["seed"]
    ops = sorted(view["ops"], key=lambda o: (o["root"] != "query", o["field"]))
    only = item.get("only")  # replay: restrict to one (cfg, root, field, access)

    def record(cfg, op, access, cases, err):
        seen = set()
        for case in cases:
            res["draws"] += 1
            body = case.body
            if not isinstance(body, str) or body in seen:
                continue
            seen.add(body)
            try:
                ast = graphql.parse(body, no_location=True)
            except Exception as exc:  # noqa: BLE001
                res["docs"].append({"s": sidx, "loader": loader, "cfg": cfg, "root": op["root"], "field": op["field"], "access": access,
                                    "body": body, "syntax_error": str(exc)[:200], "doc": {"defs": []}, "gql": ["<syntax>"]})
                continue
            res["docs"].append({"s": sidx, "loader": loader, "cfg": cfg, "root": op["root"], "field": op["field"], "access": access,
                                "body": body, "doc": project_doc(ast), "gql": _gql_rules(gschema, ast)})
        if err is not None:
            res["errors"].append({"s": sidx, "loader": loader, "cfg": cfg, "root": op["root"], "field": op["field"], "access": access,
                                  "generatable": op["generatable"], "error": err})
        if live is not None and access != "engine":
            sent = set()
            for case in cases:
                if not isinstance(case.body, str) or case.body in sent or len(sent) >= 4:
                    continue
                sent.add(case.body)
                mark = len(live.records)
                try:
                    case.call()
                except BaseException as exc:  # noqa: BLE001
                    res["errors"].append({"s": sidx, "loader": loader, "cfg": cfg, "root": op["root"], "field": op["field"], "access": access,
                                          "generatable": True, "error": "call: %s: %s" % (type(exc).__name__, str(exc)[:120])})
                    continue
                for rec in live.records[mark:]:
                    res["wire"].append({"s": sidx, "loader": loader, "cfg": cfg, "root": op["root"], "field": op["field"], "access": access + "+call",
                                        "body": case.body, "w": project_wire(rec, case.body, live.send_path)})

    def record_by_operation(cfg, access, cases, err):
        """Cases of a combined strategy: each is judged against the operation it says it was generated for."""
        groups: dict = {}
        for case in cases:
            groups.setdefault(case.operation.label, []).append(case)
        for label, group in groups.items():
            op = dict(_label_to_op(view, label), generatable=True)
            record(cfg, op, access, group, None)
        if err is not None:
            res["errors"].append({"s": sidx, "loader": loader, "cfg": cfg, "access": access, "generatable": False, "error": err})

    for ci, cfg in enumerate(item["cfgs"]):
        gen = GenerationConfig(graphql_allow_null=cfg[0], allow_x00=cfg[1], codec="ascii" if cfg[2] else "utf-8")
        plans = [("getitem-query-first", ops)]
        if ci == 0 and item.get("all_access", True):
            plans += [("getitem-mutation-first", list(reversed(ops))), ("get_all_operations", ops)]
        for access, order in plans:
            schema = load()  # fresh object: the operation cache starts empty for each access order
            if access == "get_all_operations":
                by_label = {r.ok().label: r.ok() for r in schema.get_all_operations()}
            for op in order:
                n = item["n"] if op["field"] in ("f", "g") else max(3, item["n"] // 5)
                try:
                    if access == "get_all_operations":
                        operation = by_label["%s.%s" % (op["rootName"], op["field"])]
                    else:
                        operation = schema[op["rootName"]][op["field"]]    # looked up for every operation, in this order (also in a replay)
                    if only and (list(cfg), op["root"], op["field"], access) != (only["cfg"], only["root"], only["field"], only["access"]):
                        continue
                    strategy = operation.as_strategy(generation_config=gen)
                except BaseException as exc:  # noqa: BLE001
                    record(list(cfg), op, access, [], "%s: %s" % (type(exc).__name__, str(exc)[:160]))
                    continue
                cases, err = _draw(strategy, n, rng_seed + 7919 * ci + len(res["docs"]))
                record(list(cfg), op, access, cases, err)
            if ci == 0 and access == "getitem-query-first" and not only:
                # the same schema object asked again for every operation (answered from its operation cache this time)
                for op in reversed(order):
                    try:
                        cases, err = _draw(schema[op["rootName"]][op["field"]].as_strategy(generation_config=gen), 3, rng_seed + 17)
                    except BaseException as exc:  # noqa: BLE001
                        cases, err = [], "%s: %s" % (type(exc).__name__, str(exc)[:160])
                    record(list(cfg), op, "getitem-second-lookup", cases, err)
        if ci == 0 and item.get("all_access", True) and not only:
            # the combined strategies: all operations of the schema / of one root type
            schema = load()
            cases, err = _draw(schema.as_strategy(generation_config=gen), 2 * item["n"], rng_seed + 11)
            record_by_operation(list(cfg), "schema.as_strategy", cases, err)
            for name in list(schema):
                cases, err = _draw(schema[name].as_strategy(generation_config=gen), item["n"], rng_seed + 13)
                record_by_operation(list(cfg), "map.as_strategy", cases, err)
        if ci == 0 and item.get("engine") and live is not None and not only:
            _engine_slice(item, res, live, load, gen, list(cfg))

    if not only:
        # mapping-style access: iterating the schema / a root's map
        try:
            schema = load()
            names = list(schema)
            res["maps"].append({"s": sidx, "loader": loader, "roots": [_label_to_op(view, n_ + ".")["root"] for n_ in names],
                                "fields": [_label_to_op(view, "%s.%s" % (n_, f_)) for n_ in names for f_ in list(schema[n_])],
                                "lens": [len(schema[n_]) for n_ in names]})
        except BaseException as exc:  # noqa: BLE001
            res["errors"].append({"s": sidx, "loader": loader, "generatable": True, "error": "maps: %s: %s" % (type(exc).__name__, str(exc)[:120])})
        base = load()
        for f in view["filters"]:
            filt = f["filt"]
            sch = base
            try:
                if filt["incl"]["k"] != "none":
                    sch = sch.include(**_filter_kwargs(view, filt["incl"]))
                if filt["excl"]["k"] != "none":
                    sch = sch.exclude(**_filter_kwargs(view, filt["excl"]))
                offered = [_label_to_op(view, r.ok().label) for r in sch.get_all_operations()]
                stat = sch.statistic.operations
                res["ops"].append({"s": sidx, "loader": loader, "filt": filt, "offered": offered, "selected": stat.selected,
                                   "total": stat.total, "len": len(sch), "expected": f})
            except BaseException as exc:  # noqa: BLE001
                res["errors"].append({"s": sidx, "loader": loader, "filt": filt, "generatable": True,
                                      "error": "%s: %s" % (type(exc).__name__, str(exc)[:160])})
        # the specification's own documents against graphql-core (keeps the TLA+ validation rules honest, both directions)
        if loader == "sdl":
            for op in view["ops"]:
                for m in [{"name": "canonical", "rule": "", "doc": op["canon"], "viol": []}] + list(op["mutants"]):
                    text = print_doc(m["doc"])
                    try:
                        ast = graphql.parse(text, no_location=True)
                        roundtrip = project_doc(ast) == m["doc"]
                        rules = _gql_rules(gschema, ast)
                    except Exception as exc:  # noqa: BLE001
                        roundtrip, rules = False, ["<syntax> " + str(exc)[:80]]
                    spec_valid = not (set(m["viol"]) - TARGET_RULES - CONFIG_RULES - UNKNOWN_RULES)
                    unknown = bool(set(m["viol"]) & UNKNOWN_RULES)
                    res["canon"].append({"s": sidx, "op": [op["root"], op["field"]], "mutant": m["name"], "text": text, "roundtrip": roundtrip,
                                         "spec_valid": spec_valid, "unknown": unknown, "gql": rules, "viol": sorted(m["viol"])})


def _engine_slice(item: dict, res: dict, live, load, gen, cfg: list) -> None:
    """The engine front door: the real unit phase (fuzzing) against the live endpoint; requests are matched to the operation of
    their case through the per-case id header."""
    import hypothesis
    from hypothesis import HealthCheck
    from schemathesis.engine import events, from_schema
    from schemathesis.engine.config import EngineConfig, ExecutionConfig
    from schemathesis.engine.phases import PhaseName

    view, sidx, loader = item["view"], item["s"], item["loader"]
    schema = load()
    settings = hypothesis.settings(max_examples=4, database=None, deadline=None, suppress_health_check=list(HealthCheck))
    config = EngineConfig(execution=ExecutionConfig(phases=[PhaseName.FUZZING], seed=item["seed"] % 1000 + 1, hypothesis_settings=settings, generation=gen))
    mark = len(live.records)
    label_of, body_of = {}, {}
    try:
        for ev in from_schema(schema, config=config).execute():
            if isinstance(ev, events.ScenarioFinished):
                for case_id, node in ev.recorder.cases.items():
                    label_of[case_id] = node.value.operation.label
                    body_of[case_id] = node.value.body
            elif isinstance(ev, (events.NonFatalError, events.FatalError)):
                exc = getattr(ev, "value", None) or getattr(ev, "exception", None)
                res["errors"].append({"s": sidx, "loader": loader, "access": "engine", "generatable": False, "error": "engine: %r" % (exc,)})
    except BaseException as exc:  # noqa: BLE001
        res["errors"].append({"s": sidx, "loader": loader, "access": "engine", "generatable": True, "error": "engine: %s: %s" % (type(exc).__name__, str(exc)[:120])})
    seen = set()
    for rec in live.records[mark:]:
        label = label_of.get(rec["case_id"])
        if label is None or rec["body"] in seen:
            continue        # the introspection request of the loader, or a case the recorder does not know
        seen.add(rec["body"])
        op = _label_to_op(view, label)
        res["wire"].append({"s": sidx, "loader": loader, "cfg": cfg, "root": op["root"], "field": op["field"], "access": "engine",
                            "body": body_of.get(rec["case_id"]), "w": project_wire(rec, body_of.get(rec["case_id"]), live.send_path)})


# --------------------------------------------------------------------------------------------------------------------
# judging
# --------------------------------------------------------------------------------------------------------------------
def judge(ctx: Ctx, shapes: list[dict], obs: list[dict], tag: str = "") -> tuple[dict[int, list[str]], int, float]:
    """TLC verdict for every observation: {index (0-based) -> violated rules}; chunks are judged by concurrent TLC runs."""
    chunks = [obs[i:i + CHUNK] for i in range(0, len(obs), CHUNK)] or [[]]
    files = []
    for ci, ch in enumerate(chunks):
        f = ctx.path("obs%s-%d.json" % (tag, ci))
        tlc.write_json(f, {"shapes": shapes, "obs": ch or [{"k": "ops", "s": 1, "filt": {
            "incl": {"k": "none", "root": "", "field": "", "ops": []}, "excl": {"k": "none", "root": "", "field": "", "ops": []}},
            "offered": [], "selected": -1, "total": -1}]})
        files.append(f)
    t0 = time.time()

    def one(f):
        return tlc.require_ok(tlc.run_tlc("GraphQLJudge", "GraphQLJudge.cfg", workers=4, env={"OBS_FILE": f}, timeout=3000,
                                          heap="6g"), "GraphQLJudge")

    with ThreadPoolExecutor(max_workers=4) as ex:
        results = list(ex.map(one, files))
    bad: dict[int, list[str]] = {}
    states = 0
    for ci, (ch, r) in enumerate(zip(chunks, results)):
        states += r.distinct if ch else 0
        if ch and r.distinct != len(ch):
            raise tlc.TLCFailure("judge saw %d observations, expected %d" % (r.distinct, len(ch)))
        for p in r.prints:
            if isinstance(p, list) and p and p[0] == "BAD" and ch:
                bad[ci * CHUNK + p[1] - 1] = sorted(p[2]["$set"])
    return bad, states, time.time() - t0


def _tlc_doc_obs(d: dict) -> dict:
    return {"k": "doc", "s": d["s"] + 1, "cfg": {"allowNull": d["cfg"][0], "allowX00": d["cfg"][1], "ascii": d["cfg"][2]},
            "root": d["root"], "field": d["field"], "doc": d["doc"]}


def _tlc_ops_obs(o: dict) -> dict:
    return {"k": "ops", "s": o["s"] + 1, "filt": o["filt"], "offered": o["offered"], "selected": o["selected"], "total": o["total"]}


def _value_has(v: dict, pred) -> bool:
    if pred(v):
        return True
    return v["t"] in ("list", "obj") and any(_value_has(x, pred) for x in v["v"])


def _arg_features(view: dict, d: dict, rule: str) -> str:
    """Which declared argument types carry the offending value (schema feature of the signature)."""
    pred = {"null-when-disabled": lambda v: v["t"] == "null", "nul-when-disabled": lambda v: v["t"] == "str" and 0 in v["v"],
            "non-ascii-with-ascii-codec": lambda v: v["t"] == "str" and any(c > 127 for c in v["v"])}.get(rule)
    feats = set()
    decl = {a["name"]: a for a in view["shape"]["args"]}

    def walk(sels, top, optype):
        for s in sels:
            for a in s["args"]:
                if pred is None or _value_has(a["value"], pred):
                    if top and s["name"] == "f" and optype == "query" and a["name"] in decl:
                        feats.add("arg:%s" % decl[a["name"]]["base"])      # the declared named type; wrappers do not matter for the class
                    elif s["name"] in ("x", "y") and a["name"] == "m" and view["shape"].get("marg", {}).get("base"):
                        feats.add("member-arg:%s" % view["shape"]["marg"]["base"])     # argument of a field reached through an inline fragment
                    else:
                        feats.add("arg:%s.%s" % (s["name"], a["name"]))
            walk(s["sels"], False, optype)

    for df in d["doc"]["defs"]:
        walk(df["sels"], True, df["optype"])
    return "+".join(sorted(feats)) or "-"


def doc_signature(view: dict, d: dict, rule: str) -> str:
    sh = view["shape"]
    if rule in TARGET_RULES:
        feat = "clash=%s:requested=%s:access=%s" % (sh["mut"] if d["field"] in ("f", "g") else "none", d["root"], d["access"])
    elif rule in CONFIG_RULES or rule in ("bad-argument-value", "missing-required-argument", "unknown-argument", "duplicate-argument"):
        feat = _arg_features(view, d, rule)
    else:
        feat = "ret=%s" % sh["ret"]
    return "C20:%s:%s%s" % (rule, feat, _hook_feature(view))


def _hook_feature(view: dict) -> str:
    """Schema feature of the signature: the schema in force was produced by a load hook (absent for plain shapes)."""
    hook = view["shape"].get("hook", "none")
    return "" if hook == "none" else ":hook=" + hook


def ops_signature(view: dict, o: dict, rule: str) -> str:
    return "C20:%s:incl=%s:excl=%s:clash=%s:roots=%s%s" % (rule, o["filt"]["incl"]["k"], o["filt"]["excl"]["k"], view["shape"]["mut"],
                                                          view["shape"]["names"], _hook_feature(view))


def enumerate_family(ctx: Ctx):
    cfg = "GraphQL_quick.cfg" if ctx.quick else "GraphQL_thorough.cfg"
    cases: list[dict] = []
    res = tlc.require_ok(tlc.run_tlc("GraphQL", cfg, workers=1, timeout=1200, on_json=lambda tag, d: cases.append(d), want_prints=False),
                         "GraphQL enumeration")
    cases.sort(key=lambda c: json.dumps(c["shape"], sort_keys=True))
    return cfg, res, cases


def evaluate(ctx: Ctx, out: Outcome, views: list[dict], results: list[dict]) -> dict:
    """Judge all observations with TLC, cross-check, turn disagreements into violations. Returns measured numbers."""
    shapes = [v["shape"] for v in views]
    docs = [d for r in results for d in r["docs"]]
    opsobs = [o for r in results for o in r["ops"]]
    wires = [w for r in results for w in r.get("wire", [])]
    maps = [m_ for r in results for m_ in r.get("maps", [])]
    obs = [_tlc_doc_obs(d) for d in docs] + [_tlc_ops_obs(o) for o in opsobs] + \
        [{"k": "wire", "s": w["s"] + 1, "cfg": {"allowNull": w["cfg"][0], "allowX00": w["cfg"][1], "ascii": w["cfg"][2]}, "root": w["root"],
          "field": w["field"], "w": w["w"]} for w in wires] + \
        [{"k": "maps", "s": m_["s"] + 1, "roots": m_["roots"], "fields": m_["fields"]} for m_ in maps]
    bad, judged, t_judge = judge(ctx, shapes, obs)
    nd = len(docs)
    nw0 = nd + len(opsobs)
    nm0 = nw0 + len(wires)
    unknown = 0
    discrepancies = 0
    for i, d in enumerate(docs):
        view = views[d["s"]]
        rules = bad.get(i, [])
        definite = [r for r in rules if r not in UNKNOWN_RULES]
        if len(definite) != len(rules):
            unknown += 1
        replay = {"kind": "doc", "view": view, "loader": d["loader"], "cfg": d["cfg"], "root": d["root"], "field": d["field"],
                  "access": d["access"], "body": d["body"], "n": 60}
        if "syntax_error" in d:
            out.violations.append(Violation("C20:syntax:ret=%s" % view["shape"]["ret"], "case.body is not a GraphQL document: %s" % d["syntax_error"], replay))
            continue
        for r in definite:
            out.violations.append(Violation(
                doc_signature(view, d, r),
                "%s: %s.%s drawn via %s (%s, allow_null=%s allow_x00=%s ascii=%s) gave %r" % (
                    r, d["root"], d["field"], d["access"], d["loader"], d["cfg"][0], d["cfg"][1], d["cfg"][2], d["body"][:140]),
                dict(replay, rule=r)))
        # side-by-side with graphql-core's validator (not the oracle): any disagreement is surfaced for triage
        spec_valid = not (set(definite) - TARGET_RULES - CONFIG_RULES)
        if spec_valid != (not d["gql"]) and len(definite) == len(rules):
            discrepancies += 1
            which = "graphql-core-rejects:%s" % "+".join(d["gql"]) if d["gql"] else "graphql-core-accepts:%s" % "+".join(sorted(set(definite) - TARGET_RULES - CONFIG_RULES))
            out.violations.append(Violation("C20:spec-discrepancy:%s" % which,
                                            "TLA+ verdict %s but graphql-core validate says %s for %r" % (definite or "valid", d["gql"] or "valid", d["body"][:140]),
                                            dict(replay, rule="spec-discrepancy")))
    # offered operations / counts: the driver's own comparison with the exported expectation must agree with TLC's verdict
    py_bad = {}
    for j, o in enumerate(opsobs):
        e = o["expected"]
        rules = set()
        key = lambda x: (x["root"], x["field"])  # noqa: E731
        if sorted(map(key, o["offered"])) != sorted(map(key, e["offered"])):
            rules.add("offered-duplicates" if {key(x) for x in o["offered"]} == {key(x) for x in e["offered"]} else "offered-set")
        if o["selected"] != e["selected"]:
            rules.add("selected-count")
        if o["total"] != e["total"]:
            rules.add("total-count")
        if rules:
            py_bad[nd + j] = sorted(rules)
    tlc_ops_bad = {k: v for k, v in bad.items() if nd <= k < nw0}
    if tlc_ops_bad != py_bad:
        raise tlc.TLCFailure("judge (TLC) and exporter disagree on offered/counts observations: %s vs %s" % (
            sorted(tlc_ops_bad.items())[:3], sorted(py_bad.items())[:3]))
    for k, rules in sorted(tlc_ops_bad.items()):
        o = opsobs[k - nd]
        view = views[o["s"]]
        for r in rules:
            out.violations.append(Violation(
                ops_signature(view, o, r),
                "%s: filter incl=%s excl=%s offered %s selected/total %s/%s, spec: %s %s/%s" % (
                    r, o["filt"]["incl"], o["filt"]["excl"], o["offered"], o["selected"], o["total"],
                    o["expected"]["offered"], o["expected"]["selected"], o["expected"]["total"]),
                {"kind": "ops", "view": view, "loader": o["loader"], "filt": o["filt"], "rule": r}))
        if o["len"] != o["total"]:
            pass
    # requests as received by a live endpoint (from_url / from_wsgi / from_asgi; case.call() and the engine)
    for k in sorted(k for k in bad if nw0 <= k < nm0):
        w = wires[k - nw0]
        view = views[w["s"]]
        for r in [r for r in bad[k] if r not in UNKNOWN_RULES]:
            sig = "C20:%s:loader=%s:access=%s" % (r, w["loader"], w["access"]) if r.startswith("wire-") else \
                doc_signature(view, dict(w, doc=w["w"]["doc"]), r) + ":on-the-wire"
            out.violations.append(Violation(sig, "%s: request received for %s.%s (%s, %s): method=%s keys=%s path ok=%s json=%s verbatim=%s; case.body=%r" % (
                r, w["root"], w["field"], w["loader"], w["access"], w["w"]["method"], w["w"]["keys"], w["w"]["pathOk"], w["w"]["ctypeJson"],
                w["w"]["verbatim"], (w["body"] or "")[:120]),
                {"kind": "wire", "view": view, "loader": w["loader"], "rule": r, "engine": w["access"] == "engine"}))
    # mapping-style access
    for k in sorted(k for k in bad if k >= nm0):
        m_ = maps[k - nm0]
        view = views[m_["s"]]
        for r in bad[k]:
            out.violations.append(Violation("C20:%s:clash=%s:roots=%s:sub=%s%s" % (r, view["shape"]["mut"], view["shape"]["names"], view["shape"]["sub"],
                                                                                 _hook_feature(view)),
                                            "%s: iterating the schema gives roots %s and fields %s (%s)" % (r, m_["roots"], m_["fields"], m_["loader"]),
                                            {"kind": "maps", "view": view, "loader": m_["loader"], "rule": r}))
    # the specification's canonical documents and mutants against graphql-core
    canon = [c for r in results for c in r["canon"]]
    for c in canon:
        if not c["roundtrip"]:
            raise tlc.TLCFailure("projection round trip failed for %r" % c["text"])
        if c["unknown"]:
            continue
        if c["spec_valid"] != (not c["gql"]):
            discrepancies += 1
            out.violations.append(Violation(
                "C20:spec-discrepancy:canon:%s" % c["mutant"],
                "spec document %r: TLA+ validation part says %s (%s), graphql-core says %s" % (
                    c["text"], "valid" if c["spec_valid"] else "invalid", c["viol"], c["gql"] or "valid"),
                {"kind": "canon", "view": views[c["s"]], "op": c["op"], "mutant": c["mutant"]}))
    return {"wire": len(wires), "wire_by": {k2: sum(1 for w in wires if (w["loader"], w["access"].split("+")[-1]) == k2) for k2 in
                                            {(w["loader"], w["access"].split("+")[-1]) for w in wires}}, "maps": len(maps),
            "docs": nd, "ops": len(opsobs), "judged": judged, "t_judge": t_judge, "bad_docs": sum(1 for k in bad if k < nd),
            "unknown_docs": unknown, "discrepancies": discrepancies, "canon_checked": len(canon),
            "canon_mutants_rejected_by_both": sum(1 for c in canon if not c["spec_valid"] and c["gql"])}


# --------------------------------------------------------------------------------------------------------------------
# histories on ONE schema object (spec/GraphQLHistory.tla): configure / register scalar / draw, judged per step
# --------------------------------------------------------------------------------------------------------------------
def _reg_strategy(kind: str):
    from hypothesis import strategies as st
    from schemathesis.specs.graphql import nodes

    if kind == "int":
        return st.integers(min_value=-9, max_value=9).map(nodes.Int)
    return st.sampled_from(["r1", "r2", ""]).map(nodes.String)


def _gen_config(cfg: dict):
    from schemathesis.generation import GenerationConfig

    return GenerationConfig(graphql_allow_null=cfg["allowNull"], allow_x00=cfg["allowX00"], codec="ascii" if cfg["ascii"] else "utf-8")


def work_history(item: dict) -> dict:
    """Replay one TLC-exported history on ONE loaded schema object in this process; every drawn document remembers its step."""
    _setup()
    import graphql
    import schemathesis

    case, h = item["case"], item["h"]
    view = {"types": case["types"], "roots": case["roots"]}
    res = {"h": h, "docs": [], "errors": [], "draws": 0}
    gschema = graphql.build_schema(to_sdl(view))
    schemathesis.graphql.scalar("Reg", _reg_strategy("str"))          # DefaultReg of the specification
    try:
        schema = _load(view, item["loader"])
        for k, step in enumerate(case["hist"], 1):
            if step["a"] == "configure":
                schema.configure(generation=_gen_config(step["cfg"]))
            elif step["a"] == "register":
                schemathesis.graphql.scalar("Reg", _reg_strategy(step["kind"]))
            else:
                try:
                    operation = schema[case["roots"][step["root"]]][step["field"]]
                    strategy = operation.as_strategy(generation_config=_gen_config(step["cfg"])) if step["has"] else operation.as_strategy()
                    cases, err = _draw(strategy, item["n"], item["seed"] + 101 * k)
                except BaseException as exc:  # noqa: BLE001
                    cases, err = [], "%s: %s" % (type(exc).__name__, str(exc)[:160])
                seen = set()
                for c in cases:
                    res["draws"] += 1
                    if not isinstance(c.body, str) or c.body in seen:
                        continue
                    seen.add(c.body)
                    try:
                        ast = graphql.parse(c.body, no_location=True)
                        res["docs"].append({"h": h, "step": k, "body": c.body, "doc": project_doc(ast), "gql": _gql_rules(gschema, ast)})
                    except Exception as exc:  # noqa: BLE001
                        res["docs"].append({"h": h, "step": k, "body": c.body, "doc": {"defs": []}, "gql": ["<syntax>"], "syntax_error": str(exc)[:200]})
                if err is not None:
                    res["errors"].append({"h": h, "step": k, "error": err})
    finally:
        schemathesis.graphql.scalar("Reg", _reg_strategy("str"))
    return res


def _history_text(hist: list[dict], upto: int) -> str:
    out = []
    for st_ in hist[:upto]:
        c = st_["cfg"]
        cfg = "null=%s,x00=%s,ascii=%s" % (c["allowNull"], c["allowX00"], c["ascii"])
        out.append("configure(%s)" % cfg if st_["a"] == "configure" else "register(Reg:%s)" % st_["kind"] if st_["a"] == "register"
                   else "draw(%s.%s%s)" % (st_["root"], st_["field"], ", generation_config=(%s)" % cfg if st_["has"] else ""))
    return " ; ".join(out)


def history_signature(case: dict, step: int, rule: str) -> str:
    """Input class: the rule + which kinds of change happened on this schema object before / at the judged draw."""
    hist = case["hist"]
    kinds = {s["a"] for s in hist[:step - 1] if s["a"] != "draw"}
    if any(s["a"] == "draw" and s["has"] for s in hist[:step]):
        kinds.add("override")
    earlier = any(s["a"] == "draw" for s in hist[:step - 1])
    return "C20:history:%s:%s:changes=%s" % (rule, "after-earlier-draw" if earlier else "first-draw", "+".join(sorted(kinds)) or "none")


def evaluate_histories(ctx: Ctx, out: Outcome, cases: list[dict], results: list[dict], tag: str = "-hist") -> dict:
    shapes, sidx = [], {}
    for c in cases:
        key = json.dumps(c["shape"], sort_keys=True)
        if key not in sidx:
            shapes.append(c["shape"])
            sidx[key] = len(shapes)
    docs = [d for r in results for d in r["docs"]]
    obs = [{"k": "hdoc", "s": sidx[json.dumps(cases[d["h"]]["shape"], sort_keys=True)], "hist": cases[d["h"]]["hist"], "step": d["step"],
            "doc": d["doc"]} for d in docs]
    bad, judged, t_judge = judge(ctx, shapes or [{"args": [], "ret": "scalar", "mut": "none", "names": "std", "sub": False, "marg": {"base": "", "wrap": ""}, "hook": "none"}], obs, tag)
    discrepancies = 0
    for i, d in enumerate(docs):
        case = cases[d["h"]]
        rules = bad.get(i, [])
        definite = [r for r in rules if r not in UNKNOWN_RULES]
        eff = case["eff"][d["step"] - 1]
        replay = {"kind": "history", "case": case, "step": d["step"], "body": d["body"]}
        if "syntax_error" in d:
            out.violations.append(Violation("C20:history:syntax", "case.body is not a GraphQL document: %s" % d["syntax_error"], replay))
            continue
        for r in definite:
            out.violations.append(Violation(
                history_signature(case, d["step"], r),
                "%s at step %d of [%s] on one schema object (config in force at that draw: allow_null=%s allow_x00=%s ascii=%s, Reg:%s): %r" % (
                    r, d["step"], _history_text(case["hist"], d["step"]), eff["cfg"]["allowNull"], eff["cfg"]["allowX00"], eff["cfg"]["ascii"],
                    eff["reg"], d["body"][:120]),
                dict(replay, rule=r)))
        spec_valid = not (set(definite) - TARGET_RULES - CONFIG_RULES - {"bad-argument-value"})   # Reg literals: graphql-core accepts any kind
        if spec_valid != (not d["gql"]) and len(definite) == len(rules):
            discrepancies += 1
            out.violations.append(Violation("C20:spec-discrepancy:history", "TLA+ verdict %s but graphql-core validate says %s for %r" % (
                definite or "valid", d["gql"] or "valid", d["body"][:140]), dict(replay, rule="spec-discrepancy")))
    return {"docs": len(docs), "judged": judged if docs else 0, "t_judge": t_judge, "bad": len(bad), "discrepancies": discrepancies,
            "draws": sum(r["draws"] for r in results), "errors": sum(len(r["errors"]) for r in results),
            "draw_steps": sum(1 for c in cases for s_ in c["hist"] if s_["a"] == "draw"),
            "changed_between_draws": sum(1 for c in cases if _changes_between_draws(c))}


def _changes_between_draws(case: dict) -> bool:
    """Non-trivial history: some draw's configuration / registration differs from that of an earlier draw of the same operation."""
    seen = {}
    for st_, eff in zip(case["hist"], case["eff"]):
        if st_["a"] == "draw":
            key = (st_["root"], st_["field"])
            sig = json.dumps(eff, sort_keys=True)
            if key in seen and seen[key] != sig:
                return True
            seen.setdefault(key, sig)
    return False


def enumerate_histories(ctx: Ctx):
    cfg = "GraphQLHistory_quick.cfg" if ctx.quick else "GraphQLHistory_thorough.cfg"
    cases: list[dict] = []
    res = tlc.require_ok(tlc.run_tlc("GraphQLHistory", cfg, workers=1, timeout=1200, on_json=lambda tag, d: cases.append(d), want_prints=False),
                         "GraphQLHistory enumeration")
    cases.sort(key=lambda c: json.dumps([c["shape"], c["hist"]], sort_keys=True))
    return cfg, res, cases


def run(ctx: Ctx) -> Outcome:
    out = Outcome()
    rng = random.Random(ctx.seed)
    with ThreadPoolExecutor(max_workers=2) as ex:          # the two TLC enumerations are independent
        fut_h = ex.submit(enumerate_histories, ctx)
        cfg, res, views = enumerate_family(ctx)
        hcfg, hres, hcases = fut_h.result()
    for inv in res.violated:
        out.violations.append(Violation("C20:spec:" + inv, "design invariant %s violated in GraphQL.tla" % inv,
                                        {"kind": "spec", "invariant": inv, "trace": res.counterexample[:60]}))
    loaders = ["sdl", "json"]
    cfgs = CFGS_QUICK if ctx.quick else CFGS_THOROUGH
    n = 6 if ctx.quick else 12
    items = []
    for s, view in enumerate(views):
        for li, loader in enumerate(loaders):
            hooked = view["shape"]["hook"] != "none"
            if ctx.quick and loader == "json" and s % 2 and not hooked:
                continue        # quick: the JSON front doors on every second shape (thorough: on all; hook-edited schemas: on all)
            ld = loader
            if loader == "json" and s % 7 == 3:
                ld = ["json-data", "file-json"][(s // 7) % 2]     # the other front doors of the same loaders, on a slice of the family
            if loader == "sdl" and s % 7 == 5:
                ld = "path"
            # SDL loader: all generation configs of the tier; JSON loaders: 2 of them
            items.append({"s": s, "view": view, "loader": ld, "cfgs": cfgs if loader == "sdl" else CFGS_QUICK[::3], "n": n,
                          # the other access orders matter where a Mutation type exists; elsewhere on a slice of the family in the quick tier
                          "all_access": (not ctx.quick) or view["shape"]["mut"] != "none" or s % 4 == 0 or hooked, "seed": (ctx.seed * 1000003 + s * 17 + li) % (2 ** 31)})
    # live front doors: the schema is loaded FROM an endpoint (HTTP introspection, WSGI, ASGI) and the cases are SENT to it
    step = 6 if ctx.quick else 2
    for s, view in enumerate(views):
        kind = {1: "url", 3: "wsgi", 5: "asgi"}.get(s % 6) if ctx.quick else ("url", "wsgi", "asgi")[s % 3]
        if view["shape"]["hook"] != "none":
            # hook-edited schemas: every fourth one (quick) / every one (thorough) is also loaded FROM an endpoint, the front doors rotate
            nh = sum(1 for v in views[:s] if v["shape"]["hook"] != "none")
            kind = ("url", "wsgi", "asgi")[(nh // 4) % 3] if (nh % 4 == 0 or not ctx.quick) else None
        elif not ctx.quick and s % step:
            kind = None
        if kind is None:
            continue
        items.append({"s": s, "view": dict(view, filters=view["filters"][:6]), "loader": kind, "cfgs": CFGS_QUICK[1:2] if kind != "url" else CFGS_QUICK[:1],
                      "n": n, "all_access": s % 4 == 1 or view["shape"]["mut"] != "none", "engine": kind == "url" and (not ctx.quick or s % 12 == 1),
                      "send_path": "/v2/gql" if kind == "url" and s % 12 == 7 else LIVE_PATH,
                      "seed": (ctx.seed * 1000003 + s * 17 + 5) % (2 ** 31)})
    t1 = time.time()
    results = common.pmap(work, items, chunk=1)
    t_draw = time.time() - t1
    m = evaluate(ctx, out, views, results)
    # history dimension: TLC-enumerated configure / register / draw histories, each replayed on ONE schema object
    for inv in hres.violated:
        out.violations.append(Violation("C20:spec:" + inv, "design invariant %s violated in GraphQLHistory.tla" % inv,
                                        {"kind": "spec", "invariant": inv, "trace": hres.counterexample[:60]}))
    t2 = time.time()
    hitems = [{"h": h, "case": c, "loader": "sdl" if h % 2 == 0 else "json", "n": 5 if ctx.quick else 10,
               "seed": (ctx.seed * 7919 + h * 31) % (2 ** 31)} for h, c in enumerate(hcases)]
    hresults = common.pmap(work_history, hitems)
    t_hist = time.time() - t2
    hm = evaluate_histories(ctx, out, hcases, hresults)
    errors = [e for r in results for e in r["errors"]]
    unexpected = [e for e in errors if e.get("generatable", True)]
    # the property speaks about the test cases that are produced, not about whether one can be produced: reported, never a verdict
    for e in unexpected[:5]:
        out.notes.append("no test case for an operation the specification calls generatable (not part of the property): %s" %
                         json.dumps({k: v for k, v in e.items() if k != "view"})[:300])
    docs = [d for r in results for d in r["docs"]]
    nontrivial = len({(d["s"], d["root"], d["field"], d["body"]) for d in docs if any(s["args"] or s["sels"] for df in d["doc"]["defs"] for s in df["sels"])})
    sample_docs = common.sample(rng, docs, 4)
    out.coverage = {
        "states": res.distinct + hres.distinct, "transitions": res.generated + hres.generated,
        "traces_validated_against_impl": m["judged"] + hm["judged"],
        "samples": [{"shape": views[d["s"]]["shape"], "loader": d["loader"], "cfg": d["cfg"], "operation": [d["root"], d["field"]],
                     "access": d["access"], "body": d["body"][:300]} for d in sample_docs],
        "evaluations": sum(r["draws"] for r in results) + m["ops"] + hm["draws"],
        "distinct_nontrivial": nontrivial,
        "rule": "every schema shape reachable in GraphQL.tla under %s (TLC-enumerated) x loaders %s x generation configs %s; per operation %d "
                "Hypothesis draws (distinct bodies judged); every name-filter pair of Filters(shape); non-trivial = distinct document with "
                "arguments or a sub-selection; shapes with hook != none are loaded from SourceTypes(shape) under an after_load_schema hook performing "
                "HookEdits(shape) and judged against the edited schema Types(shape); plus every history of GraphQLHistory.tla under %s (configure / register scalar / draw, 3 steps, "
                "ending in a draw) replayed on one schema object, each document judged against the configuration of its own step" % (
                    cfg, sorted({i["loader"] for i in items}), cfgs, n, hcfg),
        "exhaustive": False,
        "exhaustive_detail": {"schema_shapes_and_filters_within_cfg": True, "draws": False},
        "constants": {"cfg": cfg, "draws_per_operation": n, "generation_configs(allow_null,allow_x00,ascii)": cfgs},
        "documents_judged": m["docs"], "offered_observations_judged": m["ops"],
        "requests_on_the_wire_judged": m["wire"], "requests_on_the_wire_by(loader,access)": {"%s/%s" % k2: v for k2, v in sorted(m["wire_by"].items())},
        "hook_edited_schemas": {
            "shapes": sum(1 for v in views if v["shape"]["hook"] != "none"),
            "loads_with_an_after_load_schema_hook(shape x loader)": sum(1 for i in items if i["view"]["shape"]["hook"] != "none"),
            "documents_judged_against_the_edited_schema": sum(1 for d in docs if views[d["s"]]["shape"]["hook"] != "none"),
            "offered_observations_judged_against_the_edited_schema": sum(1 for r in results for o in r["ops"] if views[o["s"]]["shape"]["hook"] != "none")},
        "mapping_access_observations_judged": m["maps"], "documents_rejected": m["bad_docs"],
        "documents_with_undetermined_values": m["unknown_docs"],
        "skipped_outside_fragment": m["unknown_docs"] + len(errors) - len(unexpected),
        "operations_without_strategy(expected: required unregistered scalar)": len(errors) - len(unexpected),
        "generatable_operations_without_case": len(unexpected),
        "spec_vs_graphql_core_discrepancies": m["discrepancies"] + hm["discrepancies"], "spec_documents_cross_checked": m["canon_checked"],
        "spec_mutants_rejected_by_spec_and_graphql_core": m["canon_mutants_rejected_by_both"],
        "histories": {"cfg": hcfg, "machine_states": hres.distinct, "histories_replayed_on_one_schema_object": len(hcases),
                      "draw_steps": hm["draw_steps"], "histories_with_a_change_between_two_draws_of_one_operation": hm["changed_between_draws"],
                      "documents_judged_against_their_own_step": hm["docs"], "documents_rejected": hm["bad"], "draw_errors(no strategy)": hm["errors"],
                      "replay_s": round(t_hist, 1), "tlc_judge_s": round(hm["t_judge"], 1), "tlc_enumeration_s": round(hres.wall_s, 1)},
        "tlc_enumeration_s": round(res.wall_s, 1), "draw_s": round(t_draw, 1), "tlc_judge_s": round(m["t_judge"], 1),
    }
    out.assumptions = [
        "graphql-core's parser (text -> AST) and the ~60-line projection of the AST are trusted; graphql-core's validator is not (side-by-side only)",
        "registered custom scalars are judged by the literal kind their strategy is documented to produce (Date: String YYYY-MM-DD, Long: 64-bit Int, "
        "harness-registered Reg: String); values for unregistered scalars other than null are undetermined (skipped)",
        "float literals: finiteness is read with Python's float() in the projection",
        "field-merge conflicts are judged for leaf types only (SameResponseShape leaf case); directives, variables and named fragments are outside the generated fragment",
    ]
    return out


def replay(ctx: Ctx, data: dict) -> Outcome:
    out = Outcome()
    if data.get("kind") in ("spec", "error"):
        return out
    view = data["view"]
    if data["kind"] == "ops":
        item = {"s": 0, "view": dict(view, filters=[f for f in view["filters"] if f["filt"] == data["filt"]], ops=[]), "loader": data["loader"],
                "cfgs": [], "n": 0, "seed": 0}
        r = work(item)
        r["canon"] = []
        evaluate(ctx, out, [view], [r])
        return out
    if data["kind"] in ("wire", "maps"):
        r = work({"s": 0, "view": dict(view, filters=[]), "loader": data["loader"], "cfgs": CFGS_QUICK[:2], "n": 10, "seed": 1, "engine": data.get("engine", False)})
        r["canon"] = []
        o2 = Outcome()
        evaluate(ctx, o2, [view], [r])
        out.violations = [v for v in o2.violations if (":%s:" % data["rule"]) in v.signature + ":"][:3]
        return out
    if data["kind"] == "history":
        for seed in range(3):
            r = work_history({"h": 0, "case": data["case"], "loader": "sdl", "n": 40, "seed": seed})
            o2 = Outcome()
            evaluate_histories(ctx, o2, [data["case"]], [r], "-replay")
            hit = [v for v in o2.violations if v.replay.get("step") == data["step"] and (data.get("rule") in (None, "spec-discrepancy")
                                                                                      or (":%s:" % data["rule"]) in v.signature)]
            if hit:
                out.violations = hit[:3]
                return out
        return out
    if data["kind"] == "canon":
        r = work({"s": 0, "view": dict(view, filters=[]), "loader": "sdl", "cfgs": [], "n": 0, "seed": 0})
        r["canon"] = [c for c in r["canon"] if c["op"] == data["op"] and c["mutant"] == data["mutant"]]
        evaluate(ctx, out, [view], [r])
        return out
    for seed in range(3):
        item = {"s": 0, "view": view, "loader": data["loader"], "cfgs": [tuple(data["cfg"])], "n": data.get("n", 60) * 5, "seed": seed,
                "only": {"cfg": list(data["cfg"]), "root": data["root"], "field": data["field"], "access": data["access"]}}
        r = work(item)
        o2 = Outcome()
        evaluate(ctx, o2, [view], [r])
        hit = [v for v in o2.violations if data.get("rule") in (None, "spec-discrepancy") or (":%s:" % data["rule"]) in v.signature]
        if hit:
            out.violations = hit[:3]
            return out
    return out


def selftest(ctx: Ctx) -> bool:
    """Binding: corrupted observations must be rejected by the TLA+ judge, the uncorrupted one accepted."""
    import copy

    import graphql

    shape = {"args": [{"name": "a", "base": "Int", "wrap": "T!"}], "ret": "object", "mut": "same", "names": "std", "sub": False, "marg": {"base": "", "wrap": ""}, "hook": "none"}
    cfg = {"allowNull": False, "allowX00": False, "ascii": False}
    good = {"k": "doc", "s": 1, "cfg": cfg, "root": "query", "field": "f",
            "doc": project_doc(graphql.parse('{ f(a: 5) { id child { tag(n: 1, c: RED) } } }', no_location=True))}
    wrong_root = dict(good, root="mutation")                       # the case was generated for Mutation.f
    other_field = dict(good, field="ping")
    null_arg = copy.deepcopy(good)
    null_arg["doc"]["defs"][0]["sels"][0]["args"][0]["value"] = {"t": "null"}
    big = copy.deepcopy(good)
    big["doc"]["defs"][0]["sels"][0]["args"][0]["value"] = {"t": "int", "neg": False, "digits": [2, 1, 4, 7, 4, 8, 3, 6, 4, 8]}
    none = {"k": "none", "root": "", "field": "", "ops": []}
    ops_good = {"k": "ops", "s": 1, "filt": {"incl": {"k": "eq", "root": "mutation", "field": "f", "ops": []}, "excl": none},
                "offered": [{"root": "mutation", "field": "f"}], "selected": 1, "total": 4}
    ops_bad = dict(ops_good, offered=[{"root": "query", "field": "f"}, {"root": "mutation", "field": "f"}], selected=2)
    # a history on one schema object: draw, configure(strict), draw - the SAME document (null + non-ASCII string in a nullable argument)
    # is acceptable at step 1 and must be rejected at step 3; a String literal for Reg is rejected once Reg is re-registered as Int
    dflt = {"allowNull": True, "allowX00": True, "ascii": False}
    strict = {"allowNull": False, "allowX00": False, "ascii": True}

    def st(a, cfg=dflt, has=False, root="", field="", kind=""):
        return {"a": a, "cfg": cfg, "has": has, "root": root, "field": field, "kind": kind}

    hshape = {"args": [{"name": "a", "base": "Inner", "wrap": "[T]"}], "ret": "scalar", "mut": "none", "names": "std", "sub": False, "marg": {"base": "", "wrap": ""}, "hook": "none"}
    hist = [st("draw", root="query", field="f"), st("configure", cfg=strict), st("draw", root="query", field="f")]
    hdoc = project_doc(graphql.parse('{ f(a: [{a: 1, b: "\u00e9"}, null]) }', no_location=True))
    rshape = {"args": [{"name": "a", "base": "Reg", "wrap": "T"}], "ret": "scalar", "mut": "none", "names": "std", "sub": False, "marg": {"base": "", "wrap": ""}, "hook": "none"}
    rhist = [st("draw", root="query", field="f"), st("register", kind="int"), st("draw", dflt, True, "query", "f")]
    rdoc = project_doc(graphql.parse('{ f(a: "r1") }', no_location=True))
    hobs = [{"k": "hdoc", "s": 2, "hist": hist, "step": 1, "doc": hdoc}, {"k": "hdoc", "s": 2, "hist": hist, "step": 3, "doc": hdoc},
            {"k": "hdoc", "s": 3, "hist": rhist, "step": 1, "doc": rdoc}, {"k": "hdoc", "s": 3, "hist": rhist, "step": 3, "doc": rdoc}]
    # a schema edited by a load hook: the oracle speaks about the EDITED schema - an operation list that still contains the field the
    # hook removed, and a document typed after the SOURCE declaration of a retyped argument (String where the hook set Int!), are rejected
    kshape = dict(shape, mut="none", hook="both")
    stale_ops = {"k": "ops", "s": 4, "filt": {"incl": none, "excl": none},
                 "offered": [{"root": "query", "field": "f"}, {"root": "query", "field": "debug"}, {"root": "query", "field": "ping"}], "selected": 3, "total": 3}
    edited_ops = dict(stale_ops, offered=[{"root": "query", "field": "f"}, {"root": "query", "field": "ping"}], selected=2, total=2)
    stale_doc = dict(good, s=4, doc=project_doc(graphql.parse('{ f(a: "5") { id } }', no_location=True)))
    hobs += [stale_ops, edited_ops, stale_doc, dict(good, s=4)]
    bad, _, _ = judge(ctx, [shape, hshape, rshape, kshape], [good, wrong_root, other_field, null_arg, big, ops_good, ops_bad] + hobs, tag="-selftest")
    expect = {11: ["offered-set", "selected-count", "total-count"], 13: ["bad-argument-value"],
              1: ["wrong-operation-type"], 2: ["not-exactly-the-field"], 3: ["bad-argument-value", "null-when-disabled"],
              4: ["bad-argument-value"], 6: ["offered-set", "selected-count"],
              8: ["non-ascii-with-ascii-codec", "null-when-disabled"], 10: ["bad-argument-value"]}
    if bad != expect:
        print("selftest: judge said", bad, "expected", expect)
    return bad == expect


def main(argv=None) -> int:
    return common.main("C20", run, replay, selftest, argv)
