"""C03 - coverage-phase (deterministic boundary value) cases carry labels that match their content.

spec/GenData.tla enumerates (TLC) the schema family and the operation-descriptor family of DESIGN Appendix G; every
descriptor is concretised into a real OpenAPI document, the real generators (`cover_schema_iter`,
`_iter_coverage_cases`) are run for the mode sets {positive}, {negative}, {positive, negative}, and every yielded value /
case is judged by spec/GenDataJudge.tla with the OasSchema oracle.

This module also holds the descriptor concretiser and the case projection shared with C01 / C02.
"""
from __future__ import annotations

import json
import os
import random
import re
import time
import urllib.parse
from typing import Any

from . import common, tlc
from .common import Ctx, Outcome, Violation
from .encode import bundle, cps, decode_schema, dia, encode_schema, encode_value, multiples, uncps

MODESETS = (("positive",), ("negative",), ("positive", "negative"))
CONTAINER = {"path": "path_parameters", "query": "query", "header": "headers", "cookie": "cookies"}
# methods offered to the coverage phase as candidates for "Unspecified HTTP method" cases (argument of _iter_coverage_cases);
# the operation's own method and a possibly documented sibling are deliberately among them
UNEXPECTED_METHODS = {"get", "put", "post", "patch"}
HTTP_METHODS = {"get", "put", "post", "delete", "options", "head", "patch", "trace"}
_PARAM_META = {"name", "in", "required", "description", "collectionFormat", "allowEmptyValue", "x-example", "x-examples"}


# ------------------------------------------------------------------------------------------------------------------
# descriptor -> real document (the families concretiser of DESIGN Appendix G)
# ------------------------------------------------------------------------------------------------------------------
def _fix_refs(x: Any, dialect: str) -> Any:
    if isinstance(x, dict):
        return {k: (("#/definitions/" if dialect == "2.0" else "#/components/schemas/") + v if k == "$ref" and isinstance(v, str) else _fix_refs(v, dialect))
                for k, v in x.items()}
    if isinstance(x, list):
        return [_fix_refs(v, dialect) for v in x]
    return x


def spell(schema_record: dict, dialect: str) -> Any:
    return _fix_refs(decode_schema(schema_record, dialect), dialect)


FORM_MEDIA = ("application/x-www-form-urlencoded", "multipart/form-data")
PLAIN_SPELL = {"params": "inline", "schemaIn": "schema", "body": "inline"}


def build_document(desc: dict) -> tuple[dict, str, str]:
    """Descriptor (as exported by GenData.tla) -> (raw OpenAPI document, path, method).

    Besides WHAT the operation declares, the descriptor says how the document spells it (desc.spell, desc.item): parameters inline /
    behind $ref / on the Path Item, parameter schema under `schema` or `content`, request body inline / behind $ref, form bodies
    (2.0: formData parameters), Path Item inline / behind $ref with sibling methods."""
    d = desc["dialect"]
    if desc["kind"] == "schema":
        params, bodies = [], [{"media": "application/json", "schema": desc["schema"], "required": True}]
    else:
        params, bodies = desc["params"], desc["bodies"]
    sp = desc.get("spell") or PLAIN_SPELL
    defs = {k: spell(v, d) for k, v in desc.get("defs", {}).items() if k != "none"}
    path = "/x" + "".join("/{%s}" % uncps(p["name"]) for p in params if p["loc"] == "path")
    plist: list[dict] = []
    for p in params:
        sch = spell(p["schema"], d)
        base = {"name": uncps(p["name"]), "in": p["loc"], "required": bool(p["required"])}
        if d == "2.0":
            plist.append({**base, **sch})
        elif sp["schemaIn"] == "content":
            plist.append({**base, "content": {"application/json": {"schema": sch}}})
        else:
            plist.append({**base, "schema": sch})
    operation: dict = {"responses": {"200": {"description": "ok"}}}
    body_params: list[dict] = []
    if d == "2.0":
        raw = {"swagger": "2.0", "info": {"title": "t", "version": "1"}, "paths": {path: {"post": operation}}}
        if bodies:
            operation["consumes"] = [b["media"] for b in bodies]
            b0 = bodies[0]
            if b0["media"] in FORM_MEDIA:        # a form is a set of formData parameters, one per property
                props = b0["schema"].get("props", {"k": [], "v": []})
                req = {uncps(n) for n in b0["schema"].get("required", [])}
                for n, ps in zip(props["k"], props["v"]):
                    body_params.append({"name": uncps(n), "in": "formData", "required": uncps(n) in req, **spell(ps, d)})
            else:
                body_params.append({"name": "body", "in": "body", "required": bool(b0["required"]), "schema": spell(b0["schema"], d)})
        if defs:
            raw["definitions"] = defs
        holder, prefix = raw.setdefault("parameters", {}), "#/parameters/"
    else:
        raw = {"openapi": "3.0.2" if d == "3.0" else "3.1.0", "info": {"title": "t", "version": "1"}, "paths": {path: {"post": operation}}}
        components = raw.setdefault("components", {})
        if bodies:
            request_body = {"required": all(bool(b["required"]) for b in bodies),
                            "content": {b["media"]: {"schema": spell(b["schema"], d)} for b in bodies}}
            if sp["body"] == "ref":
                components.setdefault("requestBodies", {})["Body"] = request_body
                request_body = {"$ref": "#/components/requestBodies/Body"}
            operation["requestBody"] = request_body
        if defs:
            components["schemas"] = defs
        holder, prefix = components.setdefault("parameters", {}), "#/components/parameters/"

    def place(plist_: list[dict], how: str) -> list[dict]:
        if how != "ref":
            return plist_
        out = []
        for p in plist_:
            key = "P%d" % len(holder)
            holder[key] = p
            out.append({"$ref": prefix + key})
        return out

    path_item = raw["paths"][path]
    own = place(body_params, sp["body"] if d == "2.0" else "inline")
    if sp["params"] == "path":
        if plist:
            path_item["parameters"] = plist
    else:
        own = place(plist, sp["params"]) + own
    if own:
        operation["parameters"] = own
    if not holder:
        (raw if d == "2.0" else raw["components"]).pop("parameters", None)
    if d != "2.0" and not raw["components"]:
        del raw["components"]
    item = desc.get("item") or {"ref": False, "also": []}
    for m in item["also"]:          # other methods documented on the same path
        path_item[m] = {"responses": {"200": {"description": "ok"}}}
        if any(p["in"] == "path" for p in plist) and sp["params"] != "path":
            path_item[m]["parameters"] = [p for p in plist if p["in"] == "path"]
    if item["ref"]:                 # the Path Item is given by a local reference
        raw["x-path-items"] = {"Item": path_item}
        raw["paths"][path] = {"$ref": "#/x-path-items/Item"}
    return raw, path, "POST"


def _deref(raw: dict, obj: Any) -> Any:
    from .encode import _resolve_pointer

    for _ in range(4):
        if isinstance(obj, dict) and isinstance(obj.get("$ref"), str) and obj["$ref"].startswith("#/"):
            obj = _resolve_pointer(raw, obj["$ref"])
    return obj


def path_item_of(raw: dict, path: str) -> dict:
    item = raw["paths"][path]
    for _ in range(4):
        if isinstance(item, dict) and isinstance(item.get("$ref"), str) and item["$ref"].startswith("#/"):
            from .encode import _resolve_pointer

            item = _resolve_pointer(raw, item["$ref"])
    return item


def declared_op(raw: dict, path: str, desc: dict) -> dict:
    """The operation as the DOCUMENT declares it, encoded for the oracle: everything is re-read from the raw document with the
    standard's meaning (Path Item / Parameter / Request Body references resolved, path-level parameters shared, `content`
    parameters, formData parameters = one object body)."""
    d = desc["dialect"]
    path_item = path_item_of(raw, path)
    operation = path_item["post"]
    params, bodies, encs, form = [], [], [], []
    declared = [_deref(raw, p) for p in path_item.get("parameters", [])]
    own = [_deref(raw, p) for p in operation.get("parameters", [])]
    declared = [p for p in declared if not any(o["name"] == p["name"] and o["in"] == p["in"] for o in own)] + own
    consumes = operation.get("consumes") or raw.get("consumes")
    for p in declared:
        if p["in"] == "body":
            for m in consumes or ["application/json"]:
                bodies.append({"media": m, "schema": p["schema"], "required": bool(p.get("required", False))})
            continue
        if p["in"] == "formData":
            form.append(p)
            continue
        is_json = False
        if d == "2.0":
            sch = {k: v for k, v in p.items() if k not in _PARAM_META}
        elif "schema" in p:
            sch = p["schema"]
        else:       # described by `content`: the value travels as text of that media type
            media, mt = next(iter(p["content"].items()))
            sch, is_json = mt.get("schema", {}), media == "application/json"
        params.append({"loc": p["in"], "name": cps(p["name"]), "required": bool(p.get("required", False)), "schema": sch, "json": is_json})
    if form:
        # formData parameters are a parameter location: like an undeclared query parameter, an undeclared form field is
        # undecided (DESIGN Appendix D) - expressed as an additionalProperties schema outside the oracle's fragment ("U")
        sch = {"type": "object", "properties": {p["name"]: {k: v for k, v in p.items() if k not in _PARAM_META} for p in form},
               "additionalProperties": {"x-verif-undeclared-form-field": True, "undecided": True}}
        if any(p.get("required") for p in form):
            sch["required"] = [p["name"] for p in form if p.get("required")]
        for m in consumes or ["multipart/form-data"]:
            bodies.append({"media": m, "schema": sch, "required": True})
    rb = _deref(raw, operation.get("requestBody"))
    if rb:
        for m, mt in rb["content"].items():
            bodies.append({"media": m, "schema": mt.get("schema", {}), "required": bool(rb.get("required", False))})
    defs: dict = {}
    for item in params + bodies:
        b = bundle(item["schema"], raw, d)
        item["schema"] = b["schema"]
        defs.update(b["defs"])
        encs.append(b["schema"])
    cfg = desc.get("cfg") or {"allow_x00": True, "codec": "utf-8", "security": False}
    return {"params": params, "bodies": bodies, "cfg": cfg, "defs": defs, "dia": dia(d), "mults": multiples(encs, defs),
            "methods": sorted(k.upper() for k in path_item if k.lower() in HTTP_METHODS)}


# ------------------------------------------------------------------------------------------------------------------
# real case -> observation (projection)
# ------------------------------------------------------------------------------------------------------------------
def _unquote(v: Any) -> Any:
    if isinstance(v, str):
        return urllib.parse.unquote(v)
    if isinstance(v, dict):
        return {k: _unquote(x) for k, x in v.items()}
    if isinstance(v, list):
        return [_unquote(x) for x in v]
    return v


def project_case(case: Any, op: dict, method: str, exempt: bool = False, given: dict | None = None) -> dict:
    from schemathesis.core import NotSet
    from schemathesis.generation.meta import ComponentKind

    meta = case.meta
    labels = {"case": meta.generation.mode.value if meta is not None else "none"}
    comps = meta.components if meta is not None else {}
    kinds = {"path": ComponentKind.PATH_PARAMETERS, "query": ComponentKind.QUERY, "header": ComponentKind.HEADERS,
             "cookie": ComponentKind.COOKIES, "body": ComponentKind.BODY}
    for part, kind in kinds.items():
        info = comps.get(kind)
        labels[part] = info.mode.value if info is not None else "none"
    parts, alt = {}, {}
    mults = op.get("mults", ())
    json_params = {(p["loc"], uncps(p["name"])) for p in op["params"] if p.get("json")}
    for loc, attr in CONTAINER.items():
        v = getattr(case, attr)
        if v is None or isinstance(v, NotSet):
            parts[loc] = alt[loc] = {"t": "absent"}
        else:
            v = dict(v) if not isinstance(v, dict) else v
            for name in [n for n in v if (loc, n) in json_params and isinstance(v[n], str)]:
                v = dict(v)
                try:        # JSON text of a `content: application/json` parameter -> the JSON value it denotes
                    v[name] = json.loads(urllib.parse.unquote(v[name]) if loc == "path" else v[name])
                except ValueError:
                    v[name] = _NotJson()
            parts[loc] = encode_value(v, mults)
            alt[loc] = encode_value(_unquote(v), mults) if loc == "path" else parts[loc]
    has_body = not isinstance(case.body, NotSet)
    declared_q = {uncps(p["name"]): p["schema"] for p in op["params"] if p["loc"] == "query"}
    q = case.query if isinstance(case.query, dict) else {}
    # a duplicated parameter shows as a list; for an array-typed parameter only a list of >= 2 equal entries can be one (benefit of doubt)
    dup = any(isinstance(v, list) and (declared_q.get(k, {}).get("type") != ["array"] or (len(v) >= 2 and all(x == v[0] for x in v)))
              for k, v in q.items())
    given_keys = {loc: [cps(k) for k in ((given or {}).get(attr) or {})] for loc, attr in CONTAINER.items()}
    return {"labels": labels, "parts": parts, "alt": alt, "hasBody": has_body, "given": given_keys,
            "body": encode_value(case.body, mults) if has_body else {"t": "absent"},
            "media": case.media_type or "", "dup": dup, "method": str(case.method).upper(), "exempt": exempt}


class _NotJson:
    """Text of a JSON-typed parameter that is not JSON (projected as opaque => undecided)."""


_STEP_PATTERNS = [
    (re.compile(r"^Value greater than maximum$"), "maximum"), (re.compile(r"^Value smaller than minimum$"), "minimum"),
    (re.compile(r"^Incorrect type$"), "type"), (re.compile(r"^Invalid enum value$"), "enum"),
    (re.compile(r"^String smaller than minLength$"), "minLength"), (re.compile(r"^String larger than maxLength$"), "maxLength"),
    (re.compile(r"^Value not matching the '.*' pattern$", re.S), "pattern"), (re.compile(r"^Value not matching the '.*' format$", re.S), "format"),
    (re.compile(r"^Non-multiple of "), "multipleOf"), (re.compile(r"^Non-unique items$"), "uniqueItems"),
    (re.compile(r"^Object with unexpected properties$"), "additional"),
]


def parse_description(text: str) -> list[dict]:
    """Description of a negative value -> the keyword path it claims (trusted projection; unknown text => only invalidity is required)."""
    steps: list[dict] = []
    for _ in range(8):
        m = re.match(r"^Object with invalid '(.*?)' value: (.*)$", text, re.S)
        if m:
            steps.append({"k": "prop", "kw": "", "name": cps(m.group(1))})
            text = m.group(2)
            continue
        m = re.match(r"^Array with invalid items: (.*)$", text, re.S)
        if m:
            steps.append({"k": "items", "kw": "", "name": []})
            text = m.group(1)
            continue
        break
    m = re.match(r"^Missing required property: (.*)$", text, re.S)
    if m:
        steps.append({"k": "kw", "kw": "required", "name": cps(m.group(1))})
        return steps
    for rx, kw in _STEP_PATTERNS:
        if rx.match(text):
            steps.append({"k": "kw", "kw": kw, "name": []})
            return steps
    steps.append({"k": "unknown", "kw": "", "name": []})
    return steps


def norm_description(text: str) -> str:
    return re.sub(r"'[^']*'", "'*'", text)[:90]


# ------------------------------------------------------------------------------------------------------------------
# running the real generators (one descriptor per call; module-level for pmap)
# ------------------------------------------------------------------------------------------------------------------
def _modes(names):
    from schemathesis.generation import GenerationMode

    return [GenerationMode.POSITIVE if n == "positive" else GenerationMode.NEGATIVE for n in names]


def observe_history(desc: dict) -> list[dict]:
    """A history descriptor: the operations' coverage cases are generated one after the other in THIS process (which must be fresh)."""
    return [observe(op, modesets=(("positive", "negative"), ("positive",))) for op in desc["ops"]]


def pmap(fn, items: list) -> list:
    """common.pmap; under tools/cov_audit.sh (coverage.py does not record what forked pool workers execute) serially in this process."""
    if os.environ.get("COVERAGE_RCFILE"):
        return [fn(x) for x in items]
    return common.pmap(fn, items)


def fresh_pmap(fn, items: list) -> list:
    """Like common.pmap, but every item runs in a process of its own (forked from this one, which has generated nothing)."""
    import multiprocessing as mp

    if not items:
        return []
    if os.environ.get("COVERAGE_RCFILE"):
        return [fn(x) for x in items]
    with mp.get_context("fork").Pool(common.NPROC, maxtasksperchild=1) as pool:
        return pool.map(fn, items, chunksize=1)


def observe(desc: dict, modesets=MODESETS) -> dict:
    """Run the coverage generators on one descriptor; returns {"op": declared op, "schema": .., "values": [...], "cases": [...], "errors": [...]}"""
    out: dict = {"values": [], "cases": [], "errors": []}
    try:
        import schemathesis
        from schemathesis.generation import coverage
        from schemathesis.generation.hypothesis.builder import _iter_coverage_cases

        raw, path, method = build_document(desc)
        op_decl = declared_op(raw, path, desc)
        out["op"] = op_decl
        operation = schemathesis.openapi.from_dict(raw)[path][method]
    except Exception as exc:
        out["errors"].append("load:%s:%s" % (type(exc).__name__, str(exc)[:120]))
        return out
    seen = set()
    for ms in modesets:
        if desc["kind"] == "schema":
            try:
                body = operation.body[0]
                js = body.as_json_schema(operation, update_quantifiers=False)
                ctx = coverage.CoverageContext(location="body", generation_modes=_modes(ms))
                for gv in coverage.cover_schema_iter(ctx, js):
                    ev = encode_value(gv.value, op_decl["mults"])
                    key = json.dumps([ev, gv.generation_mode.value, gv.description], sort_keys=True)
                    if key in seen:
                        continue
                    seen.add(key)
                    out["values"].append({"value": ev, "mode": gv.generation_mode.value, "description": gv.description,
                                          "modes": list(ms), "exempt": gv.description in ("Example value", "Default value")})
            except Exception as exc:
                out["errors"].append("cover_schema_iter:%s:%s:%s" % ("+".join(ms), type(exc).__name__, str(exc)[:120]))
        if desc["kind"] == "schema" and len(ms) == 1:
            continue  # the body values themselves were just judged; the case level is observed once, for {positive, negative}
        try:
            for case in _iter_coverage_cases(operation, _modes(ms), UNEXPECTED_METHODS):
                data = case.meta.phase.data
                c = project_case(case, op_decl, method, exempt=False)
                key = json.dumps([c, data.description], sort_keys=True)
                if key in seen:
                    continue
                seen.add(key)
                out["cases"].append({"c": c, "description": data.description, "modes": list(ms),
                                     "where": [data.parameter_location, data.parameter]})
        except Exception as exc:
            out["errors"].append("_iter_coverage_cases:%s:%s:%s" % ("+".join(ms), type(exc).__name__, str(exc)[:120]))
    return out


# ------------------------------------------------------------------------------------------------------------------
# judging
# ------------------------------------------------------------------------------------------------------------------
JUDGE_STATES_OVERHEAD = 65  # root + NB block states of GenDataJudge.tla


def _judge_chunk(args):
    f, n, timeout = args
    dis, und = {}, set()

    def cb(tag, d):
        if tag == "DISAGREE":
            dis[d["i"]] = (sorted(d["rules"]), d["detail"])
        elif tag == "UNDECIDED":
            und.add(d["i"])

    res = tlc.require_ok(tlc.run_tlc("GenDataJudge", "GenDataJudge.cfg", env={"OBS_FILE": f, "JAVA_TOOL_OPTIONS": "-XX:ParallelGCThreads=2"}, timeout=timeout, heap="10g", workers=1,
                                     on_json=cb, want_prints=False), "judge")
    if res.violated:
        raise tlc.TLCFailure("judge: unexpected invariant violation %s\n%s" % (res.violated, "\n".join(res.counterexample[:30])))
    if res.distinct != n + JUDGE_STATES_OVERHEAD:
        raise tlc.TLCFailure("judge visited %d states, expected %d - machinery inconsistency" % (res.distinct, n + JUDGE_STATES_OVERHEAD))
    if any(not 1 <= i <= n for i in list(dis) + list(und)):
        raise tlc.TLCFailure("judge reported an observation index out of range")
    return dis, und, res


def judge(ctx: Ctx, schemas: list, ops: list, obs: list, name: str = "obs.json", timeout: int = 1800):
    """TLC judges every observation (several single-worker TLC processes side by side: measured faster than one 16-worker run).

    Returns (disagreements {index: (rule, detail)}, undecided indexes, TLCResult-like summary)."""
    from concurrent.futures import ThreadPoolExecutor

    schemas = schemas or [{"defs": {"nodefs": {"sk": "opaque"}}, "schema": {"sk": "opaque"}, "dia": "d4"}]
    ops = ops or [{"params": [], "bodies": [], "cfg": {"allow_x00": True, "codec": "utf-8", "security": False},
                   "defs": {"nodefs": {"sk": "opaque"}}, "dia": "d4", "methods": ["POST"]}]
    k = max(1, min(4, len(obs) // 5000))
    size = (len(obs) + k - 1) // k if obs else 0
    jobs, offsets = [], []
    for j in range(k):
        part = obs[j * size:(j + 1) * size] if obs else []
        f = ctx.path("%s.%d" % (name, j))
        tlc.write_json(f, {"schemas": schemas, "ops": ops, "obs": part})
        jobs.append((f, len(part), timeout))
        offsets.append(j * size)
    t0 = time.time()
    with ThreadPoolExecutor(max_workers=k) as ex:
        parts = list(ex.map(_judge_chunk, jobs))
    dis, und = {}, set()
    distinct = generated = 0
    for off, (d, u, res) in zip(offsets, parts):
        dis.update({i + off: v for i, v in d.items()})
        und.update(i + off for i in u)
        distinct += res.distinct - JUDGE_STATES_OVERHEAD
        generated += res.generated
    if distinct != len(obs):
        raise tlc.TLCFailure("judge visited %d observations, expected %d - machinery inconsistency" % (distinct, len(obs)))
    summary = tlc.TLCResult(ok=True, generated=generated, distinct=distinct, wall_s=time.time() - t0)
    return dis, und, summary


def _detail_set(detail: Any) -> list:
    return sorted(detail, key=str) if isinstance(detail, list) else []


CHECKED_FORMATS = {"date", "date-time", "uuid", "ipv4", "ipv6", "uri", "uri-reference", "iri", "iri-reference", "uri-template", "regex", "json-pointer",
                   "relative-json-pointer", "hostname", "idn-hostname", "email", "idn-email", "time", "duration"}
_PRIORITY = ["no-witness", "oneOf", "anyOf", "nullable", "type-array", "exclusive-bool", "zero-bound", "allOf", "not", "format",
             "pattern+length", "zero-length", "minProperties", "multipleOf", "readOnly", "ref"]


def features(desc: dict) -> set:
    """Schema-shape features of a descriptor that finding signatures are built from (DESIGN Appendix E)."""
    out: set = set()
    d = desc["dialect"]

    def walk(e: Any) -> None:
        if isinstance(e, list):
            for x in e:
                walk(x)
            return
        if not isinstance(e, dict):
            return
        if e.get("sk") == "schema":
            if e.get("exclMin") or e.get("exclMax"):
                out.add("exclusive-bool" if d != "3.1" else "exclusive-num")
            if e.get("minimum") == 0 or e.get("maximum") == 0:
                out.add("zero-bound")
            if e.get("maxLength") == 0 or e.get("maxItems") == 0:
                out.add("zero-length")
            for k in ("oneOf", "anyOf", "allOf", "not", "minProperties", "multipleOf", "readOnly", "ref"):
                if k in e:
                    out.add(k)
            if "format" in e:      # formats a common checker implements are named; the rest (byte, custom) stay the class "format"
                out.add("format:" + e["format"] if e["format"] in CHECKED_FORMATS else "format")
            if e.get("nullable"):
                out.add("nullable" if d != "3.1" else "type-array")
            if "pattern" in e and ("minLength" in e or "maxLength" in e):
                # a repeated GROUP (outside the oracle's catalogue, carried verbatim) is its own class: repetitions are not characters
                out.add("pattern-group+length" if 40 in e["pattern"].get("src", []) else "pattern+length")
        for k, v in e.items():
            if k not in ("enum", "const", "pattern"):
                walk(v)

    walk([desc.get("schema"), desc.get("params"), desc.get("bodies"), desc.get("defs")])
    return out


def primary(feats: set) -> str:
    for f in _PRIORITY:
        if f in feats:
            return f
        if f == "format":
            named = sorted(x for x in feats if x.startswith("format:"))
            if named:
                return named[0]
    return "plain"


def value_signature(rule: str, description: str, detail: Any, desc: dict) -> str:
    feats = features(desc) | ({"no-witness"} if "no-witness" in _detail_set(detail) else set())
    steps = parse_description(description)
    claim = steps[-1]["kw"] if rule == "description-mismatch" and steps and steps[-1]["k"] == "kw" else ""
    return "C03:value:%s:%s%s" % (rule, claim + ":" if claim else "", primary(feats))


def case_signature(rule: str, description: str, detail: Any, desc: dict, where: Any = None) -> str:
    case_label = next((t[2] for t in _detail_set(detail) if isinstance(t, list) and len(t) == 3 and t[0] == "case"), "?")
    parts = [t for t in _detail_set(detail) if isinstance(t, list) and len(t) == 3 and t[0] != "case"]
    cls = lambda names: "+".join(sorted({"body" if n == "body" else "param" for n in names})) or "-"  # noqa: E731
    kind = "method" if description.startswith("Unspecified HTTP method") else "missing" if description.startswith("Missing `") else \
        "duplicate" if description.startswith("Duplicate `") else "value"
    if rule == "case-positive-something-invalid" and any(t[1] == "F" and t[2] == "negative" for t in parts):
        bad = {t[0] for t in parts if t[1] == "F" and t[2] == "negative"}
        varied = (where or [None])[0]
        if varied is not None and varied not in bad:
            # the case varies another part; the invalid, negative-labelled part is the operation's TEMPLATE value
            return "C03:case:negative-template-part-in-positive-case:" + cls(bad)
        return "C03:case:case-label-lags-part-label:" + cls(bad)
    if any(t[1] == "F" and t[2] == "none" for t in parts) and rule in ("case-positive-something-invalid", "part-positive-invalid"):
        return "C03:case:required-part-absent:" + cls(t[0] for t in parts if t[1] == "F" and t[2] == "none")
    if (desc.get("spell") or {}).get("schemaIn") == "content" and rule in ("case-positive-something-invalid", "part-positive-invalid") and \
            {t[0] for t in parts if t[1] == "F" and t[2] == "positive"} <= {"header", "cookie"}:
        return "C03:case:json-content-parameter-misencoded"
    if kind == "method" and rule == "case-negative-nothing-invalid":
        return "C03:case:documented-method-presented-as-unspecified"
    if rule == "part-negative-valid" and case_label == "positive":      # the case is presented as valid, one of its valid parts as invalid
        return "C03:case:negative-part-label-in-positive-case:%s" % cls(t[0] for t in parts if t[1] == "T" and t[2] == "negative")
    if rule in ("part-negative-valid", "case-negative-nothing-invalid") and where and where[0] in CONTAINER:
        # the parameter the case varies: a string-typed one is the registered "everything is a valid string on the wire" class;
        # a valid value presented as invalid for a parameter of another type is a different finding
        varied = next((p_ for p_ in desc.get("params", []) if p_["loc"] == where[0] and uncps(p_["name"]) == where[1]), None)
        if varied is not None and "string" not in varied["schema"].get("type", ["string"]) and not varied["schema"].get("nullable") and \
                any(t[0] == where[0] and t[1] == "T" and t[2] == "negative" for t in parts):
            return "C03:case:negative-label-valid-part:param:declared-" + "+".join(varied["schema"]["type"])
    if rule in ("part-negative-valid", "case-negative-nothing-invalid"):      # a negative label on content that is valid
        return "C03:case:negative-label-valid-part:%s" % cls(t[0] for t in parts if t[1] == "T" and t[2] == "negative")
    return "C03:case:%s:%s:%s:%s" % (rule, kind, cls(t[0] for t in parts if t[1] == "F" and t[2] == "positive"), primary(features(desc)))


def _short(desc: dict) -> str:
    d = desc["dialect"]
    if desc["kind"] == "schema":
        return "%s schema %s" % (d, json.dumps(spell(desc["schema"], d), sort_keys=True))
    return "%s op params=%s bodies=%s" % (d, [(p["loc"], uncps(p["name"]), p["required"], spell(p["schema"], d)) for p in desc["params"]],
                                           [(b["media"], spell(b["schema"], d)) for b in desc["bodies"]])


def assemble(descs: list[dict], results: list[dict]):
    """Flatten per-descriptor results into the judge's tables. Returns (schemas, ops, obs, back) with back[i] = (descriptor index, record)."""
    schemas, ops, obs, back = [], [], [], []
    for di, (desc, r) in enumerate(zip(descs, results)):
        if "op" not in r:
            continue
        op = {k: v for k, v in r["op"].items() if k != "mults"}
        ops.append(op)
        opi = len(ops)
        if desc["kind"] == "schema" and r["values"]:
            b = op["bodies"][0]
            schemas.append({"defs": op["defs"], "schema": b["schema"], "dia": op["dia"]})
            si = len(schemas)
            for v in r["values"]:
                obs.append({"kind": "value", "si": si, "value": v["value"], "mode": v["mode"], "steps": parse_description(v["description"]),
                            "exempt": v["exempt"]})
                back.append((di, v))
        for c in r["cases"]:
            obs.append({"kind": "case", "prop": "C03", "opi": opi, "c": c["c"]})
            back.append((di, c))
    return schemas, ops, obs, back


def enumerate_family(family: str, tier: str) -> tuple[list[dict], Any]:
    descs: list[dict] = []
    res = tlc.require_ok(tlc.run_tlc("GenData", "GenData_%s_%s.cfg" % (family, tier), workers=1, timeout=1500,
                                     on_json=lambda tag, d: descs.append(d), want_prints=False), "GenData enumeration " + family)
    return descs, res


def _spec_violations(pid: str, res: Any, out: Outcome) -> None:
    for inv in res.violated:
        out.violations.append(Violation("%s:spec:%s" % (pid, inv), "design invariant %s violated in GenData.tla" % inv,
                                        {"kind": "spec", "invariant": inv, "trace": res.counterexample[:60]}))


def setup_env(ctx: Ctx) -> None:
    # the generators draw their fixed sample values through an unseeded Hypothesis run unless this (supported) knob is set
    os.environ["SCHEMATHESIS_BENCHMARK_SEED"] = str(ctx.seed)


def run(ctx: Ctx) -> Outcome:
    setup_env(ctx)
    out = Outcome()
    rng = random.Random(ctx.seed)
    descs_s, res_s = enumerate_family("c03s", ctx.tier)
    descs_o, res_o = enumerate_family("c03o", ctx.tier)
    _spec_violations("C03", res_s, out)
    _spec_violations("C03", res_o, out)
    descs_h, res_h = enumerate_family("c03h", ctx.tier)
    _spec_violations("C03", res_h, out)
    descs = descs_s + descs_o
    t1 = time.time()
    results = pmap(observe, descs)
    for hd, hr in zip(descs_h, fresh_pmap(observe_history, descs_h)):       # histories: one fresh process each
        for k, (od, r) in enumerate(zip(hd["ops"], hr)):
            descs.append(dict(od, history=[_short(o)[:160] for o in hd["ops"][:k]], hist_desc=hd))
            results.append(r)
    t_gen = time.time() - t1
    schemas, ops, obs, back = assemble(descs, results)
    dis, und, jres = judge(ctx, schemas, ops, obs)
    errors: dict = {}
    for r in results:
        for e in r["errors"]:
            k = ":".join(e.split(":")[:3])
            errors[k] = errors.get(k, 0) + 1
    for i, rule in [(i, r) for i in sorted(dis) for r in dis[i][0]]:
        detail = dis[i][1]
        di, rec = back[i - 1]
        o = obs[i - 1]
        if o["kind"] == "value":
            sig = value_signature(rule, rec["description"], detail, descs[di])
            summary = "%s: value %r labelled %s (%s) for %s" % (rule, _decode(o["value"]), o["mode"], rec["description"], _short(descs[di]))
        else:
            sig = case_signature(rule, rec["description"], detail, descs[di], rec.get("where"))
            c = o["c"]
            summary = "%s: case labelled %s, parts %s, verdicts %s (%s; modes %s) for %s" % (
                rule, c["labels"]["case"], {k: v for k, v in c["labels"].items() if k != "case" and v != "none"},
                [tuple(t) for t in _detail_set(detail) if t[0] != "case"], rec["description"], "+".join(rec["modes"]), _short(descs[di]))
        if descs[di].get("history"):
            summary += " AFTER (same process) " + " ; ".join(descs[di]["history"])
        out.violations.append(Violation(sig, summary, {"desc": descs[di].get("hist_desc") or descs[di], "index_kind": o["kind"], "rule": rule,
                                                       "description": rec["description"], "modes": rec["modes"]}))
    n_values = sum(1 for o in obs if o["kind"] == "value")
    nontrivial = len(obs) - len(und)
    sample_pool = [j for j in range(len(obs)) if (j + 1) not in und]
    samples = []
    for j in common.sample(rng, sample_pool, 5):
        di, rec = back[j]
        samples.append({"descriptor": _short(descs[di])[:300], "kind": obs[j]["kind"], "description": rec["description"],
                        "label": obs[j].get("mode") or obs[j]["c"]["labels"], "rules": dis.get(j + 1, (["ok"],))[0]})
    out.coverage = {
        "states": res_s.distinct + res_o.distinct + res_h.distinct, "transitions": res_s.generated + res_o.generated + res_h.generated,
        "schema_descriptors": len(descs_s), "operation_descriptors": len(descs_o), "history_descriptors": len(descs_h),
        "groups": _count(d["group"] + "/" + d["dialect"] for d in descs),
        "traces_validated_against_impl": len(obs), "value_observations": n_values, "case_observations": len(obs) - n_values,
        "evaluations": len(obs), "distinct_nontrivial": nontrivial, "skipped_outside_fragment": len(und),
        "samples": samples, "disagreements": len(dis), "generator_errors": errors,
        "rule": "every descriptor reachable in GenData.tla (cfg GenData_c03s/c03o_%s: exhaustive inside each keyword group, pairwise across "
                "location groups) x mode sets {p},{n},{p,n}; the generator is deterministic, so every value/case it yields is judged "
                "(no sampling); non-trivial = the oracle gave a definite verdict for the value / some present part" % ctx.tier,
        "exhaustive": True, "constants": {"cfg": ["GenData_c03s_%s.cfg" % ctx.tier, "GenData_c03o_%s.cfg" % ctx.tier, "GenData_c03h_%s.cfg" % ctx.tier], "modesets": [list(m) for m in MODESETS]},
        "tlc_enumeration_s": round(res_s.wall_s + res_o.wall_s, 1), "generation_s": round(t_gen, 1), "tlc_judge_s": round(jres.wall_s, 1),
        "judge_states": jres.distinct,
    }
    out.assumptions = [
        "Hypothesis is only the driver of the generator's internal sample draws (seeded through SCHEMATHESIS_BENCHMARK_SEED), never the oracle",
        "the description -> keyword map (c03.parse_description) is a trusted projection; unknown descriptions only require invalidity",
        "path values are stored percent-encoded by the pipeline: a value is judged as stored and once decoded, disagreement => undecided",
        "an undeclared parameter in a location makes the location's verdict undecided (the standard and the implementation's reading differ)",
    ]
    if errors:
        out.notes.append("generator exceptions (not label findings, not judged): %s" % errors)
    return out


def _count(it) -> dict:
    c: dict = {}
    for x in it:
        c[x] = c.get(x, 0) + 1
    return dict(sorted(c.items()))


def _decode(e: dict) -> Any:
    from .encode import decode_value

    return decode_value(e)


def replay(ctx: Ctx, data: dict) -> Outcome:
    setup_env(ctx)
    out = Outcome()
    if data.get("kind") == "spec":
        return out
    desc = data["desc"]
    if desc["kind"] == "history":
        rs = fresh_pmap(observe_history, [desc])[0]
        ds = list(desc["ops"])
    else:
        rs, ds = [observe(desc)], [desc]
    schemas, ops, obs, back = assemble(ds, rs)
    dis, _, _ = judge(ctx, schemas, ops, obs)
    for i, rule in [(i, r) for i in sorted(dis) for r in dis[i][0]]:
        detail = dis[i][1]
        di, rec = back[i - 1]
        sig = value_signature(rule, rec["description"], detail, ds[di]) if obs[i - 1]["kind"] == "value" else case_signature(rule, rec["description"], detail, ds[di], rec.get("where"))
        if rule == data["rule"] and rec["description"] == data["description"]:
            out.violations.append(Violation(sig, "%s (%s)" % (rule, rec["description"]), data))
    return out


def selftest(ctx: Ctx) -> bool:
    """Binding: a corrupted label / value / description must be rejected by the TLA+ judge, the faithful one accepted."""
    sch = bundle({"type": "integer", "minimum": 0, "maximum": 3}, {}, "3.0")
    schemas = [{"defs": sch["defs"], "schema": sch["schema"], "dia": "d4"}]
    op = {"params": [{"loc": "query", "name": cps("q"), "required": True, "schema": sch["schema"]}],
          "bodies": [{"media": "application/json", "schema": sch["schema"], "required": True}],
          "cfg": {"allow_x00": True, "codec": "utf-8", "security": False}, "defs": sch["defs"], "dia": "d4", "methods": ["GET", "POST"]}
    absent = {"t": "absent"}

    def case(label, qv, body, blabel="positive", qlabel="positive", documented=True):
        q = encode_value({"q": qv}) if qv is not None else encode_value({})
        return {"kind": "case", "prop": "C03", "opi": 1, "c": {
            "labels": {"case": label, "path": "none", "query": qlabel, "header": "none", "cookie": "none", "body": blabel},
            "parts": {"path": absent, "query": q, "header": absent, "cookie": absent}, "alt": {"path": absent, "query": q, "header": absent, "cookie": absent},
            "hasBody": True, "body": encode_value(body), "media": "application/json", "dup": False, "method": "POST" if documented else "PUT", "exempt": False}}

    def val(v, mode, descr):
        return {"kind": "value", "si": 1, "value": encode_value(v), "mode": mode, "steps": parse_description(descr), "exempt": False}

    obs = [val(3, "positive", "Maximum value"), val(4, "negative", "Value greater than maximum"),           # 1, 2 faithful
           val(4, "positive", "Maximum value"), val(3, "negative", "Value greater than maximum"),           # 3, 4 corrupted label
           val(-1, "negative", "Value greater than maximum"),                                               # 5 wrong description
           case("positive", "2", 1), case("negative", "9", 1, qlabel="negative"), case("negative", None, 1, qlabel="negative"),   # 6, 7, 8 faithful
           case("negative", "2", 1, documented=False),                                                      # 9 faithful (method)
           case("positive", "2", 7, blabel="negative"), case("negative", "2", 1), case("positive", None, 1)]  # 10, 11, 12 corrupted
    dis, _, _ = judge(ctx, schemas, [op], obs, name="selftest.json")
    got = {i: dis[i][0][0] for i in dis}
    want = {3: "valid-label-invalid-value", 4: "invalid-label-valid-value", 5: "description-mismatch",
            10: "case-positive-something-invalid", 11: "case-negative-nothing-invalid", 12: "case-positive-something-invalid"}
    if got != want:
        print("selftest: judge said", got, "expected", want)
    return got == want


def main(argv=None) -> int:
    return common.main("C03", run, replay, selftest, argv)
