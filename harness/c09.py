"""C09 - the printed curl reproduction command re-sends the same request.

spec/Curl.tla models POSIX sh tokenisation and curl's option semantics and enumerates adversarial strings placed in a header
value, a query value, a path value, a cookie value or the body.  For every element the driver builds a real case, sends it
through the requests transport to the loopback server (the original request, as received), asks the real code for the
reproduction command (`Case.as_curl_command(headers=<headers of the request that was sent>)`, exactly what the CLI does) and
spec/CurlJudge.tla decides Interp(Tokens(command)) = original request.

Histories (Curl.tla `HistorySlots`, `EngineHistorySlots`): the same case OBJECT is sent and printed with the spec's `Prior(el)` in the
slot, changed in place (query / path / cookie / same-length body), sent and printed again - the last command is judged against the last
request (design invariant `StaleRefuted`: the first rendering is refuted for it); and engine test cases in which two checks fail on
different requests (own request, then an ignored_auth probe, and the reverse) - the command recorded for the later failure is judged
against the request recorded for its case id.

Environment binding: a stratified sample of the commands is executed by the real /bin/sh with the real curl against the loopback
server; what arrives must equal what the TLA+ model predicts (else the *model* is wrong: machinery failure, exit 2) and is
compared with the original request.  An independent Python reading (own tokenizer + option parser) cross-checks TLC's verdicts.
"""
from __future__ import annotations

import json
import os
import random
import shutil
import subprocess
import tempfile
import time

from . import common, tlc
from .common import Ctx, Outcome, Violation

FIXED_AUTH = "127.0.0.1:8080"
AUTO = {"host", "user-agent", "accept", "accept-encoding", "connection", "content-length", "transfer-encoding",
        "x-schemathesis-testcaseid"}
RAW = {
    "openapi": "3.0.2", "info": {"title": "t", "version": "1"},
    "paths": {"/x/{p}": {
        "parameters": [{"name": "p", "in": "path", "required": True, "schema": {"type": "string"}},
                       {"name": "q", "in": "query", "schema": {"type": "string"}},
                       {"name": "X-H", "in": "header", "schema": {"type": "string"}},
                       {"name": "c", "in": "cookie", "schema": {"type": "string"}}],
        **{m: {"responses": {"200": {"description": "ok"}}} for m in ("get", "delete")},
        **{m: {"requestBody": {"content": {"text/plain": {"schema": {"type": "string"}}, "application/json": {"schema": {}},
                                           "application/x-www-form-urlencoded": {"schema": {"type": "object"}},
                                           "multipart/form-data": {"schema": {"type": "object", "properties": {
                                               "a": {"type": "string"}, "b": {"type": "string"}}}}}},
               "responses": {"200": {"description": "ok"}}} for m in ("post", "put", "patch")},
    }},
}
METHOD = {"engine-cookie": "GET", "engine-after-removed": "GET", "engine-after-overridden": "GET", "engine-removed-then-own": "GET", "engine-own": "GET", "engine-removed": "GET", "engine-overridden": "GET", "header": "GET", "query": "GET", "path": "DELETE", "cookie": "PATCH", "body": "POST", "json": "PUT", "form": "POST", "auth": "GET", "multipart": "POST",
          "graphql": "POST", "wsgi": "GET"}
SANITIZED_LEN = 2   # elements with strings up to this length are also printed with output sanitisation on
_P: dict = {}


def text(cps: list[int]) -> str:
    return "".join(map(chr, cps))


def cps(s: str) -> list[int]:
    return [ord(c) for c in s]


def _server():
    if "srv" not in _P:
        from .server import LoopbackServer

        _P["srv"] = LoopbackServer().start()
    return _P["srv"]


def _schema(sanitize: bool = False, base: str = ""):
    key = ("schema", sanitize, base)
    if key not in _P:
        import schemathesis
        from schemathesis.core.output import OutputConfig

        s = schemathesis.openapi.from_dict(json.loads(json.dumps(RAW)))
        s.configure(base_url=_server().base_url + base, output=OutputConfig(sanitize=sanitize))
        _P[key] = s
    return _P[key]


PAYLOAD = {"form-empty": ({}, "application/x-www-form-urlencoded"), "form-min": ({"k": "a"}, "application/x-www-form-urlencoded"),
           "text-empty": ("", "text/plain"), "json-object": ({}, "application/json"), "json-array": ([], "application/json"),
           "json-null": (None, "application/json")}


def method_of(el: dict) -> str:
    return el["m"] if el.get("m", "-") != "-" else METHOD[el["slot"]]


def case_kwargs(el: dict) -> dict:
    s = text(el["s"])
    slot = el["slot"]
    kw: dict = {"path_parameters": {"p": "a"}}
    if slot in PAYLOAD:
        body, media = PAYLOAD[slot]
        kw.update(body=json.loads(json.dumps(body)), media_type=media)
    elif slot == "header":
        kw["headers"] = {"X-H": s}
    elif slot == "auth":
        kw["headers"] = {"Authorization": s}
    elif slot == "query":
        kw["query"] = {"q": s}
    elif slot == "path":
        kw["path_parameters"] = {"p": s}
    elif slot == "cookie":
        kw["cookies"] = {"c": s}
    elif slot == "body":
        kw.update(body=s, media_type="text/plain")
    elif slot == "json":
        kw.update(body=s, media_type="application/json")
    elif slot == "multipart":
        kw.update(body={"a": s, "b": "z"}, media_type="multipart/form-data")   # text-only fields: a text payload
    else:
        kw.update(body={"k": s}, media_type="application/x-www-form-urlencoded")
    return kw


def project(rec, auth: str, keep_auto: bool) -> dict:
    hs = []
    for k, v in rec.headers:
        if not keep_auto and k.lower() in AUTO:
            continue  # size only: Curl.tla's `Auto` drops the very same names again
        hs.append({"n": cps(k), "v": cps(v.replace(auth, FIXED_AUTH) if k.lower() == "host" else v)})
    return {"method": cps(rec.method), "target": cps(rec.target), "headers": hs, "body": list(rec.body)}


FRONT = {"api-header": "header", "api-body": "body", "base-slash": "path", "cookie-session": "cookie", "cookie-call": "cookie",
         "cookie-header": "cookie", "api-cookie-session": "cookie",
         "again-query": "query", "again-path": "path", "again-cookie": "cookie", "again-body": "body"}
HISTORY = {"again-query", "again-path", "again-cookie", "again-body"}   # Curl.tla HistorySlots: render, change in place, render again
SET_COOKIE = (200, [("Content-Type", "application/json"), ("Set-Cookie", "sid=abc123; Path=/")], b"{}")
MARKER = "Reproduce with: \n\n    "


def _check_fails(ctx, response, case):
    raise AssertionError("verif")


def _wsgi_app(environ, start_response):
    _P["environ"] = ({k: v for k, v in environ.items() if isinstance(v, str)}, environ["wsgi.input"].read())
    start_response("200 OK", [("Content-Type", "application/json")])
    return [b"{}"]


class _Rec:
    """The request an in-process WSGI application received, in the shape of a server log entry."""

    def __init__(self, env: dict, body: bytes):
        self.method = env["REQUEST_METHOD"]
        self.target = env.get("SCRIPT_NAME", "") + env["PATH_INFO"] + ("?" + env["QUERY_STRING"] if env.get("QUERY_STRING") else "")
        self.headers = [[k[5:].replace("_", "-"), v] for k, v in env.items() if k.startswith("HTTP_")]
        self.headers += [[k.replace("_", "-"), env[k]] for k in ("CONTENT_TYPE", "CONTENT_LENGTH") if env.get(k)]
        self.body = body


def change_in_place(case, inner: dict) -> None:
    """The case object that was sent and printed gets the element's string in its slot - the same object, changed in place."""
    kw = case_kwargs(inner)
    slot = inner["slot"]
    if slot == "query":
        case.query["q"] = kw["query"]["q"]
    elif slot == "path":
        case.path_parameters["p"] = kw["path_parameters"]["p"]
    elif slot == "cookie":
        case.cookies["c"] = kw["cookies"]["c"]
    else:
        case.body = kw["body"]


def observe(el: dict) -> dict:
    """Send the case (original request, as received by the server) and obtain the reproduction command from the real code."""
    import schemathesis
    from schemathesis.core.output import OutputConfig

    srv = _server()
    slot = el["slot"]
    inner = dict(el, slot=FRONT.get(slot, slot))
    if slot in HISTORY and not el["fragment"]:
        return {"unsendable": "history element outside the property's fragment"}
    auth = srv.base_url.split("://", 1)[1]
    if slot == "graphql":
        if "graphql" not in _P:
            _P["graphql"] = schemathesis.graphql.from_file("type Query { f(a: String): String }").configure(
                base_url=srv.base_url + "/graphql", output=OutputConfig(sanitize=False))
        case = _P["graphql"]["Query"]["f"].Case(body=text(el["s"]))
    elif slot == "wsgi":
        if "wsgi" not in _P:
            _P["wsgi"] = schemathesis.openapi.from_dict(json.loads(json.dumps(RAW))).configure(app=_wsgi_app, output=OutputConfig(sanitize=False))
        case = _P["wsgi"]["/x/{p}"]["GET"].Case(path_parameters={"p": "a"}, query={"q": text(el["s"])})
    else:
        first = dict(inner, s=el["prior"]) if slot in HISTORY else inner   # a history element starts with the spec's Prior(el) in the slot
        case = _schema(False, "/api/" if slot == "base-slash" else "")["/x/{p}"][method_of(inner)].Case(**case_kwargs(first))
    verify = len(el["s"]) % 2 == 0 or slot.startswith("api-")
    srv.clear()
    _P.pop("environ", None)
    message = None
    try:
        if slot == "api-body":
            # Python API in one step: the failure message of call_and_validate carries the command
            from schemathesis.core.failures import FailureGroup

            try:
                case.call_and_validate(checks=[_check_fails])
                return {"cmd_error": "call_and_validate did not raise"}
            except FailureGroup as exc:
                message = exc.message
            response = None
        elif slot in ("cookie-session", "api-cookie-session"):
            # a shared session (as the engine uses) on which an earlier response set a cookie
            import requests
            from .server import default_behaviour

            session = requests.Session()
            srv.behaviour = lambda rec: SET_COOKIE
            try:
                session.get(srv.base_url + "/login")
            finally:
                srv.behaviour = default_behaviour
            srv.clear()
            response = case.call(session=session)
            session.close()
        elif slot == "cookie-call":
            response = case.call(cookies={"d": "2"})
        elif slot == "cookie-header":
            response = case.call(headers={"Cookie": "sid=abc123"})
        elif slot in HISTORY:
            # render, change in place, render: the first request is sent and its command printed, then the very same object is changed,
            # sent again and (below) printed again with the headers of the request that went out now and the same `verify`
            before = case.call()
            stale = case.as_curl_command(headers=dict(before.request.headers), verify=verify)
            change_in_place(case, inner)
            srv.clear()
            response = case.call()
            history = {"stale_cmd": cps(stale.replace(auth, FIXED_AUTH)),
                       "headers_equal": dict(before.request.headers) == dict(response.request.headers)}
        else:
            response = case.call()
    except Exception as exc:
        return {"unsendable": "%s: %s" % (type(exc).__name__, str(exc)[:120])}
    if slot == "wsgi":
        original = _Rec(*_P["environ"])
        auth = "\0no-port-to-normalise"
    else:
        log = srv.snapshot()
        if len(log) != 1:
            return {"unsendable": "%d requests recorded" % len(log)}
        original = log[0]
    if slot in FRONT and FRONT[slot] == "cookie" and "cookie" not in {k.lower() for k, _ in original.headers}:
        return {"unsendable": "no Cookie header went out"}
    try:
        if slot.startswith("api-"):
            # the Python API front door: the command is what the failure message tells the user to run
            from schemathesis.core.failures import FailureGroup

            if message is None:
                try:
                    case.validate_response(response, checks=[_check_fails])
                    return {"cmd_error": "validate_response did not raise"}
                except FailureGroup as exc:
                    message = exc.message
            if MARKER not in message:
                return {"cmd_error": "no 'Reproduce with' block in the failure message"}
            cmd = message.split(MARKER, 1)[1]
        else:
            cmd = case.as_curl_command(headers=dict(response.request.headers), verify=verify)
    except Exception as exc:
        return {"cmd_error": "%s: %s" % (type(exc).__name__, str(exc)[:120])}
    out = {"cmd": cps(cmd.replace(auth, FIXED_AUTH)), "orig": project(original, auth, False), "orig_full": project(original, auth, True),
           "verify": verify, "no_exec": slot == "wsgi"}
    if slot in HISTORY:
        out.update(history)
    if len(el["s"]) <= SANITIZED_LEN and slot not in FRONT and slot not in ("graphql", "wsgi"):
        # the same request printed with output sanitisation on: only redacted values may differ
        case_s = _schema(True)["/x/{p}"][method_of(el)].Case(**case_kwargs(el))
        try:
            out["cmd_sanitized"] = cps(case_s.as_curl_command(headers=dict(response.request.headers), verify=verify).replace(auth, FIXED_AUTH))
        except Exception as exc:
            out["cmd_sanitized_error"] = "%s: %s" % (type(exc).__name__, str(exc)[:120])
    return out


ENGINE_RAW = {
    "openapi": "3.0.2", "info": {"title": "t", "version": "1"},
    "components": {"securitySchemes": {"ApiKey": {"type": "apiKey", "in": "header", "name": "X-Access"}}},
    "paths": {"/x/a": {"get": {"security": [{"ApiKey": []}], "responses": {"200": {"description": "ok"}, "401": {"description": "no"}}}}},
}
ID_HEADER = "x-schemathesis-testcaseid"


def _always_fails(ctx, response, case):
    raise AssertionError("verif: failure on the case's own request")


def observe_engine(el: dict) -> dict:
    """Run the real engine (fuzzing phase, one example) with explicit credentials and a configured header carrying the string; take
    the code sample the engine attaches to the failure and the request the server recorded for the failing case id."""
    import hypothesis
    import schemathesis
    from schemathesis.core.output import OutputConfig
    from schemathesis.engine import from_schema
    from schemathesis.engine.config import EngineConfig, ExecutionConfig, NetworkConfig
    from schemathesis.engine.events import ScenarioFinished
    from schemathesis.engine.phases import PhaseName
    from schemathesis.specs.openapi.checks import ignored_auth

    srv = _server()
    auth = srv.base_url.split("://", 1)[1]
    kind = el["slot"].split("-", 1)[1]
    # history of failures inside one test case (Curl.tla EngineHistorySlots): two checks fail, on different requests; the judged command
    # is the one recorded for the later failure
    checks_of = {"own": [_always_fails], "cookie": [_always_fails], "after-removed": [_always_fails, ignored_auth], "after-overridden": [_always_fails, ignored_auth],
                 "removed-then-own": [ignored_auth, _always_fails]}
    order = kind
    kind = {"after-removed": "removed", "after-overridden": "overridden", "removed-then-own": "own"}.get(kind, kind)
    enforce = order in ("overridden", "after-overridden")
    cookie_run = kind == "cookie"   # a configured Cookie header next to a generated cookie parameter; the failure is on the own request
    if cookie_run:
        kind = "own"
    ok = (200, [("Content-Type", "application/json")], b"{}")
    deny = (401, [("Content-Type", "application/json")], b"{}")
    # removed: auth never enforced -> the no-credentials probe fails the check; overridden: any credential accepted -> the invalid-credentials
    # probe fails it; own: a check that fails on the case's own response
    srv.behaviour = (lambda rec: ok if rec.header("X-Access") is not None else deny) if enforce else (lambda rec: ok)
    srv.clear()
    try:
        raw = json.loads(json.dumps(ENGINE_RAW))
        net_headers = {"X-Access": "letmein", "X-H": text(el["s"])}
        if cookie_run:
            raw["paths"]["/x/a"]["get"]["parameters"] = [{"name": "c", "in": "cookie", "required": True, "schema": {"type": "string", "enum": [text(el["s"])]}}]
            net_headers = {"X-Access": "letmein", "Cookie": "sid=abc123"}
        schema = schemathesis.openapi.from_dict(raw)
        schema.configure(base_url=srv.base_url, output=OutputConfig(sanitize=False))
        config = EngineConfig(
            execution=ExecutionConfig(
                phases=[PhaseName.FUZZING], checks=checks_of.get(order, [ignored_auth]),
                hypothesis_settings=hypothesis.settings(max_examples=1, deadline=None, database=None, derandomize=True),
                generation=schema.generation_config),
            network=NetworkConfig(headers=net_headers))
        events = list(from_schema(schema, config=config).execute())
    except Exception as exc:
        return {"unsendable": "%s: %s" % (type(exc).__name__, str(exc)[:120])}
    finally:
        from .server import default_behaviour

        srv.behaviour = default_behaviour
    log = {}
    for rec in srv.snapshot():
        log[rec.header(ID_HEADER)] = rec
    found = []
    for event in events:
        if isinstance(event, ScenarioFinished):
            for case_id, checks in event.recorder.checks.items():
                for check in checks:
                    if check.failure_info is not None and case_id in log:
                        parent = event.recorder.cases[case_id].parent_id
                        found.append((parent is not None, check.failure_info.code_sample, log[case_id]))
    # the failure this element is about: on a derived request for removed / overridden, on the own request otherwise
    wanted = [f for f in found if f[0] == (kind != "own")]
    if not wanted:
        return {"unsendable": "the engine reported no %s failure (%d failures)" % (kind, len(found))}
    derived, cmd, rec = wanted[0]
    has_cred = rec.header("X-Access") is not None
    if (kind == "removed" and has_cred) or (kind == "overridden" and (not has_cred or rec.header("X-Access") == "letmein")):
        return {"unsendable": "the failing request is not the expected %s probe" % kind}
    return {"cmd": cps(cmd.replace(auth, FIXED_AUTH)), "orig": project(rec, auth, False), "orig_full": project(rec, auth, True), "verify": True}


def _work(el: dict) -> dict:
    return observe_engine(el) if el["slot"].startswith("engine-") else observe(el)


def execute(cmd_cps: list[int]) -> dict:
    """Run the printed command with the real /bin/sh and the real curl against this process's loopback server."""
    srv = _server()
    auth = srv.base_url.split("://", 1)[1]
    cmd = text(cmd_cps).replace(FIXED_AUTH, auth)
    d = tempfile.mkdtemp(prefix="verif-c09-")
    srv.clear()
    try:
        proc = subprocess.run(["/bin/sh", "-c", cmd], cwd=d, env={"PATH": os.environ.get("PATH", "/usr/bin:/bin"), "HOME": d},
                              stdout=subprocess.PIPE, stderr=subprocess.PIPE, timeout=30)
        rc = proc.returncode
    except subprocess.TimeoutExpired:
        rc = -9
    finally:
        shutil.rmtree(d, ignore_errors=True)
    time.sleep(0.01)
    log = srv.snapshot()
    out = {"nexec": len(log), "rc": rc}
    out["exec"] = project(log[0], auth, True) if log else {"method": [], "target": [], "headers": [], "body": []}
    return out


def _exec_work(cmd_cps: list[int]) -> dict:
    return execute(cmd_cps)


# ---------------------------------------------------------------------------------------------------------------------
# independent Python reading (cross-check of the TLA+ judge): own tokenizer and option parser
# ---------------------------------------------------------------------------------------------------------------------
def py_tokens(cmd: str):
    words, cur, inw, mode = [], [], False, "U"
    op = glob = False
    for ch in cmd:
        if mode == "U":
            if ch == "'":
                mode, inw = "S", True
            elif ch == '"':
                mode, inw = "D", True
            elif ch == "\\":
                mode = "UE"
            elif ch in " \t":
                if inw:
                    words.append("".join(cur))
                    cur, inw = [], False
            elif ch in "\n;&|<>()$`" or (ch == "#" and not inw):
                op = True
            elif ch in "*?[" or (ch == "~" and not inw):
                glob = True
                cur.append(ch)
                inw = True
            else:
                cur.append(ch)
                inw = True
        elif mode == "UE":
            mode = "U"
            if ch != "\n":
                cur.append(ch)
                inw = True
        elif mode == "S":
            if ch == "'":
                mode = "U"
            else:
                cur.append(ch)
        elif mode == "D":
            if ch == '"':
                mode = "U"
            elif ch == "\\":
                mode = "DE"
            elif ch in "$`":
                op = True
            else:
                cur.append(ch)
        else:
            mode = "D"
            if ch in '$`"\\':
                cur.append(ch)
            elif ch != "\n":
                cur.extend(["\\", ch])
    if inw:
        words.append("".join(cur))
    return mode == "U", words, op, glob


_WS = " \t\n\r\x0b\x0c"


def py_interp(words: list[str]) -> dict:
    it = iter(words[1:])
    method = None
    hdrs, datas, urls = [], [], []
    unknown = missing = False
    for w in it:
        if w in ("-X", "-H", "-d", "--data-raw"):
            arg = next(it, None)
            if arg is None:
                missing = True
                break
            if w == "-X":
                method = arg
            elif w == "-H":
                hdrs.append(arg)
            else:
                datas.append((w == "--data-raw", arg))
        elif w in ("--insecure", "-k"):
            pass
        elif len(w) > 1 and w[0] == "-":
            unknown = True
        else:
            urls.append(w)
    sent, mentioned = [], set()
    for h in hdrs:
        if ":" in h:
            n, v = h.split(":", 1)
            v = v.lstrip(_WS)
            mentioned.add(n.lower())
            if v:
                sent.append((n.lower(), v.strip(_WS)))
        elif ";" in h and not h.split(";", 1)[1].lstrip(_WS):
            n = h.split(";", 1)[0].lower()
            mentioned.add(n)
            sent.append((n, ""))
    body = b"&".join(b"" if (not raw and d[:1] == "@") else d.encode("utf-8") for raw, d in datas)
    reads = any(not raw and d[:1] == "@" for raw, d in datas)
    auth = target = ""
    dots = globby = False
    if len(urls) == 1:
        u = urls[0]
        rest = u.split("://", 1)[1] if ":" in u and u.split(":", 1)[1].startswith("//") else u
        i = min([rest.index(c) for c in "/?#" if c in rest] or [len(rest)])
        auth, rest = rest[:i], rest[i:]
        rest = rest.split("#", 1)[0]
        target = rest if rest.startswith("/") else "/" + rest
        dots = any(seg in (".", "..") for seg in target.split("?", 1)[0].split("/"))
        globby = any(c in u for c in "[]{}")
    wire = [("host", auth)]
    if "user-agent" not in mentioned:
        wire.append(("user-agent", "curl/7.88.1"))
    if "accept" not in mentioned:
        wire.append(("accept", "*/*"))
    wire += [h for h in sent if h[0] != "host"]
    if datas:
        wire.append(("content-length", str(len(body))))
        if "content-type" not in mentioned:
            wire.append(("content-type", "application/x-www-form-urlencoded"))
    return {"ok": bool(words) and words[0] == "curl" and not missing and len(urls) == 1, "unknown": unknown or dots or globby,
            "method": method if method is not None else ("POST" if datas else "GET"), "target": target, "body": body,
            "reads": reads, "wire": wire}


def _own(headers) -> list:
    return sorted((n.lower(), v.strip(_WS)) for n, v in headers if n.lower() not in AUTO)


def _same_headers(a, b, redact: bool = False) -> bool:
    ha, hb = any(n.lower() == "content-type" for n, _ in a), any(n.lower() == "content-type" for n, _ in b)
    oa, ob = _own(a), _own(b)
    red = {n for n, v in oa if v == "[Filtered]"} if redact else set()
    if sorted(n for n, _ in oa if n in red) != sorted(n for n, _ in ob if n in red):
        return False
    oa, ob = [h for h in oa if h[0] not in red], [h for h in ob if h[0] not in red]
    if ha == hb:
        return oa == ob
    return [h for h in oa if h[0] != "content-type"] == [h for h in ob if h[0] != "content-type"] and not hb


def _req(p: dict):
    return text(p["method"]), text(p["target"]), [(text(h["n"]), text(h["v"])) for h in p["headers"]], bytes(p["body"])


def py_verdict(o: dict) -> dict:
    cmd = text(o["cmd"])
    ok, words, op, glob = py_tokens(cmd)
    rq = py_interp(words)
    om, ot, oh, ob = _req(o["orig"])
    if not ok:
        same, why = "F", "shell-unterminated-quote"
    elif op:
        same, why = "F", "shell-operator-unquoted"
    elif glob:
        same, why = "U", "shell-expansion-unquoted"
    elif not rq["ok"]:
        same, why = "F", "curl-usage"
    elif rq["unknown"]:
        same, why = "U", "curl-outside-model"
    else:
        same_target = rq["target"] == ot
        if o.get("lax"):
            from urllib.parse import unquote_to_bytes

            same_target = rq["target"].split("?", 1)[0] == ot.split("?", 1)[0] and unquote_to_bytes(rq["target"]) == unquote_to_bytes(ot)
        d = (rq["method"] == om, same_target, rq["body"] == ob, _same_headers(rq["wire"], oh, o.get("redact", False)))
        same = "T" if all(d) else "F"
        why = "" if all(d) else "method" if not d[0] else "url" if not d[1] else (
            "body-read-from-file" if rq["reads"] else "body") if not d[2] else "headers"
    definite = ok and not op and not glob and rq["ok"] and not rq["unknown"]
    if not o["hasExec"]:
        model = ex = "-"
    else:
        em, et, eh, eb = _req(o["exec"])
        if not definite:
            model = "U"
        else:
            model = "T" if (o["nexec"] == 1 and em == rq["method"] and et == rq["target"] and eb == rq["body"]
                            and sorted((n.lower(), v.strip(_WS)) for n, v in eh) == sorted((n, v.strip(_WS)) for n, v in rq["wire"])) else "F"
        ex = "T" if o["nexec"] == 1 and (em, et, eb) == (om, ot, ob) and _same_headers(eh, oh) else "F"
    return {"same": same, "why": why, "model": model, "exec": ex}


# ---------------------------------------------------------------------------------------------------------------------
CLASS = {39: "squote", 34: "dquote", 92: "backslash", 36: "dollar", 96: "backtick", 32: "space", 10: "newline", 64: "at",
         59: "semicolon", 58: "colon", 38: "amp", 37: "percent"}


def features(el: dict) -> frozenset:
    s = el["s"]
    out = {CLASS[c] for c in s if c in CLASS}
    if not s:
        out.add("empty")
    elif s[0] == 64:
        out.discard("at")
        out.add("leading-at")
    return frozenset(out)


def attribute(fails: list[dict]) -> None:
    """Minimal necessary character class: a failing string with several classes is attributed to a class that fails alone in the
    same slot for the same reason; only if none does, the combination is the input class."""
    by_site: dict[str, list[dict]] = {}
    for f in fails:
        by_site.setdefault(f["site"], []).append(f)
    for fs in by_site.values():
        single = {next(iter(f["features"])) for f in fs if len(f["features"]) == 1}
        anyv = any(not f["features"] for f in fs)
        for f in fs:
            ft = f["features"]
            f["feature"] = "any-value" if anyv else sorted(ft & single)[0] if ft & single else "+".join(sorted(ft))


def judge(ctx: Ctx, observations: list[dict], name: str = "obs.json"):
    f = ctx.path(name)
    empty = {"method": [], "target": [], "headers": [], "body": []}
    tlc.write_json(f, [{"cmd": o["cmd"], "orig": o["orig"], "mode": "redact" if o.get("redact") else "lax" if o.get("lax") else "exact", "hasExec": o["hasExec"], "nexec": o.get("nexec", 0),
                        "exec": o.get("exec", empty)} for o in observations])
    verdicts: dict[int, dict] = {}
    res = tlc.require_ok(tlc.run_tlc("CurlJudge", "CurlJudge.cfg", env={"OBS_FILE": f}, timeout=3000, want_prints=False,
                                     on_json=lambda tag, d: verdicts.__setitem__(d["i"], d)), "CurlJudge")
    if len(verdicts) != len(observations):
        raise tlc.TLCFailure("CurlJudge judged %d of %d observations" % (len(verdicts), len(observations)))
    return [verdicts[i + 1] for i in range(len(observations))], res


def stratified(rng, items: list[tuple], k: int) -> list:
    """Round-robin over strata (slot, character classes) so that every class combination is executed before any repeats."""
    strata: dict[tuple, list] = {}
    for key, it in items:
        strata.setdefault(key, []).append(it)
    for v in strata.values():
        rng.shuffle(v)
    out = []
    # strata with the fewest character classes first (every class alone in every slot, every empty / minimal payload), the rest shuffled
    keys = sorted(strata, key=lambda t: (t[0], sorted(t[1])))
    rng.shuffle(keys)
    keys.sort(key=lambda t: len(t[1]))
    while len(out) < k and any(strata[key] for key in keys):
        for key in keys:
            if strata[key] and len(out) < k:
                out.append(strata[key].pop())
    return out


def run(ctx: Ctx) -> Outcome:
    out = Outcome()
    rng = random.Random(ctx.seed)
    cfg = "Curl_quick.cfg" if ctx.quick else "Curl_thorough.cfg"
    cases: list[dict] = []
    res = tlc.require_ok(tlc.run_tlc("Curl", cfg, workers=1, timeout=3000, want_prints=False,
                                     on_json=lambda tag, d: cases.append(d)), "Curl enumeration")
    for inv in res.violated:
        out.violations.append(Violation("C09:spec:" + inv, "design invariant %s violated in Curl.tla" % inv,
                                        {"kind": "spec", "invariant": inv, "trace": res.counterexample[:60]}))
    cases.sort(key=lambda c: (c["slot"], c["m"], c["s"]))
    t1 = time.time()
    observed = common.pmap(_work, cases)
    t_replay = time.time() - t1
    sendable = [(i, o) for i, o in enumerate(observed) if "cmd" in o]
    unsendable = sum(1 for o in observed if "unsendable" in o)
    for i, o in enumerate(observed):
        # the request was sent but no command could be printed for it: a failure only inside the property's fragment
        if "cmd_error" in o and cases[i]["fragment"]:
            out.violations.append(Violation("C09:cmd:exception:%s:%s" % (cases[i]["slot"], "+".join(sorted(features(cases[i]))) or "plain"),
                                            "no command printed for %s=%r: %s" % (cases[i]["slot"], text(cases[i]["s"]), o["cmd_error"]),
                                            {"element": cases[i]}))
    cmd_errors_outside = sum(1 for i, o in enumerate(observed) if "cmd_error" in o and not cases[i]["fragment"])
    # environment binding: execute a stratified sample with the real sh + curl
    n_exec = 150 if ctx.quick else 3000
    # every engine-attached command is executed; the rest of the budget is stratified
    forced = [i for i, _ in sendable if cases[i]["slot"].startswith("engine-")]
    runnable = {i for i, o in sendable if not o.get("no_exec")}   # an in-process application has no socket for curl to reach
    picks = forced + stratified(rng, [((cases[i]["slot"] + ":" + cases[i]["m"], features(cases[i])), i) for i, _ in sendable
                                      if not cases[i]["slot"].startswith("engine-") and i in runnable], max(0, n_exec - len(forced)))
    t2 = time.time()
    execs = dict(zip(picks, common.pmap(_exec_work, [observed[i]["cmd"] for i in picks], chunk=4)))
    t_exec = time.time() - t2
    obs = []
    for i, o in sendable:
        if i in execs:
            obs.append({"cmd": o["cmd"], "orig": o["orig_full"], "hasExec": True, **execs[i]})
        else:
            obs.append({"cmd": o["cmd"], "orig": o["orig"], "hasExec": False, "lax": bool(o.get("no_exec"))})
    n_plain = len(obs)
    sanitized = [(i, o) for i, o in sendable if "cmd_sanitized" in o]
    obs += [{"cmd": o["cmd_sanitized"], "orig": o["orig"], "hasExec": False, "redact": True} for _, o in sanitized]
    all_verdicts, jres = judge(ctx, obs)
    verdicts, verdicts_s = all_verdicts[:n_plain], all_verdicts[n_plain:]
    obs, obs_s = obs[:n_plain], obs[n_plain:]
    mismatch = []
    for (i, _), o, v in list(zip(sendable, obs, verdicts)) + list(zip(sanitized, obs_s, verdicts_s)):
        pv = py_verdict(o)
        if any(pv[k] != v[k] for k in ("same", "why", "model", "exec")):
            mismatch.append((cases[i]["slot"], text(cases[i]["s"]), pv, {k: v[k] for k in pv}))
    if mismatch:
        raise tlc.TLCFailure("TLC judge and the Python cross-check disagree on %d commands, e.g. %s" % (len(mismatch), mismatch[:3]))
    # the sh / curl model must predict what the real tools did; if not, the spec is wrong - never a verdict about /repo
    bad_model = [(cases[i]["slot"], text(cases[i]["s"]), text(o["cmd"]), {"nexec": o["nexec"], "rc": o.get("rc"),
                  "received": _req(o["exec"]) if o["nexec"] else None})
                 for (i, _), o, v in zip(sendable, obs, verdicts) if v["model"] == "F"]
    if bad_model:
        raise tlc.TLCFailure("the TLA+ model of /bin/sh + curl mispredicts %d of %d executed commands (fix Curl.tla), e.g. %s" % (
            len(bad_model), len(picks), bad_model[:3]))
    inconsistent = [(cases[i]["slot"], text(cases[i]["s"])) for (i, _), v in zip(sendable, verdicts)
                    if v["model"] == "T" and v["same"] in "TF" and v["exec"] != v["same"]]
    if inconsistent:
        raise tlc.TLCFailure("model-validated executions contradict the command verdict: %s" % inconsistent[:3])
    skipped: dict[str, int] = {}
    fails = []
    for (i, _), o, v in zip(sendable, obs, verdicts):
        if v["same"] == "U":
            skipped[v["why"]] = skipped.get(v["why"], 0) + 1
        elif v["same"] == "F":
            fails.append({"i": i, "why": v["why"], "site": "%s:%s" % (v["why"], cases[i]["slot"]), "features": features(cases[i]),
                          "exec": v["exec"], "obs": o})
    for (i, _), o, v in zip(sanitized, obs_s, verdicts_s):
        if v["same"] == "U":
            skipped[v["why"]] = skipped.get(v["why"], 0) + 1
        elif v["same"] == "F":
            fails.append({"i": i, "why": v["why"], "site": "sanitized:%s:%s" % (v["why"], cases[i]["slot"]), "features": features(cases[i]),
                          "exec": "-", "obs": o})
    for i, o in sendable:
        if "cmd_sanitized_error" in o and cases[i]["fragment"]:
            out.violations.append(Violation("C09:cmd:sanitized:exception:%s" % cases[i]["slot"], "no sanitised command printed for %s=%r: %s" % (
                cases[i]["slot"], text(cases[i]["s"]), o["cmd_sanitized_error"]), {"element": cases[i]}))
    attribute(fails)
    for f in sorted(fails, key=lambda f: (f["site"], f["feature"], f["i"])):
        el = cases[f["i"]]
        o = f["obs"]
        om, ot, oh, ob = _req(o["orig"])
        extra = ""
        if o["hasExec"]:
            em, et, eh, eb = _req(o["exec"]) if o["nexec"] else ("-", "-", [], b"")
            extra = "; executed by sh+curl: received %s %s headers=%s body=%r" % (em, et, _own(eh), eb)
        out.violations.append(Violation(
            "C09:cmd:%s:%s" % (f["site"], f["feature"]),
            "command does not re-send the request (%s): %s=%r -> %s ; original %s %s headers=%s body=%r%s" % (
                f["why"], el["slot"], text(el["s"]), text(o["cmd"]), om, ot, _own(oh), ob, extra),
            {"element": el}))
    n_t = sum(1 for v in verdicts if v["same"] == "T")
    pool = [(cases[i], o, v) for (i, _), o, v in zip(sendable, obs, verdicts) if v["same"] == "T" and features(cases[i])]
    out.coverage = {
        "states": res.distinct, "transitions": res.generated,
        "traces_validated_against_impl": len(obs) + len(obs_s),
        "commands_with_sanitisation_on": len(obs_s),
        "commands_with_sanitisation_on_same_up_to_redaction": sum(1 for v in verdicts_s if v["same"] == "T"),
        "samples": [{"slot": c["slot"], "string": text(c["s"]), "command": text(o["cmd"]), "verdict": v["same"], "executed": o["hasExec"]}
                    for c, o, v in common.sample(rng, pool, 5)],
        "evaluations": len(obs) + len(obs_s),
        "distinct_nontrivial": len({(cases[i]["slot"], cases[i]["m"], tuple(cases[i]["s"])) for i, _ in sendable if features(cases[i])}),
        "rule": "every element of Curl.tla's family under %s (TLC-enumerated strings over {a ' \" \\ $ ` space newline @ ; : & %%} in the "
                "header-value, Authorization, query, path, cookie, text/JSON/form body slots; and in a configured header of real engine runs whose failure is on the "
                "case's own request / on an ignored_auth probe with the credential removed / overridden - there the command is the engine's code sample and the "
                "original is the request recorded for the failing case id; and after another check already failed on the other request of the same test case); "
                "histories on one case object (again-*: sent and printed with the spec's Prior string, changed in place in the query / path / cookie / "
                "same-length body, sent and printed again - the last command against the last request); each built into a real case, sent, and its printed command "
                "judged; plus empty / minimal payloads ({} and {k: a} as form, the empty text, {} [] null as JSON) for POST, PUT and PATCH; non-trivial = "
                "the string contains a shell / curl significant character or is empty; strings of length <= %d are also printed with "
                "output sanitisation on and compared up to [Filtered] values" % (cfg, SANITIZED_LEN),
        "exhaustive": True,
        "constants": {"cfg": cfg, "curl": "7.88.1", "sh": "/bin/sh"},
        "elements": len(cases),
        "commands_same": n_t,
        "commands_differ": len(fails),
        "executed_by_real_sh_and_curl": len(picks),
        "executed_strata": len({(cases[i]["slot"], cases[i]["m"], features(cases[i])) for i in picks}),
        "strata_total": len({(cases[i]["slot"], cases[i]["m"], features(cases[i])) for i, _ in sendable}),
        "executed_slots": sorted({cases[i]["slot"] for i in picks}),
        "empty_or_minimal_payload_elements": sum(1 for c in cases if c["m"] != "-"),
        "history_elements_rendered_changed_rendered": sum(1 for i, _ in sendable if cases[i]["slot"] in HISTORY),
        "history_elements_with_equal_headers_on_both_requests": sum(1 for _, o in sendable if o.get("headers_equal")),
        "history_elements_where_the_first_command_differs_from_the_last": sum(1 for _, o in sendable if "stale_cmd" in o and o["stale_cmd"] != o["cmd"]),
        "engine_failure_history_commands_judged": sum(1 for i, _ in sendable if cases[i]["slot"] in ("engine-after-removed", "engine-after-overridden", "engine-removed-then-own")),
        "engine_attached_commands_judged": sum(1 for i, _ in sendable if cases[i]["slot"].startswith("engine-")),
        "model_matches_real_tools": sum(1 for v in verdicts if v["model"] == "T"),
        "model_indefinite_on_executed": sum(1 for v in verdicts if v["model"] == "U"),
        "executed_same_as_original": sum(1 for v in verdicts if v["exec"] == "T"),
        "skipped_outside_fragment": dict(skipped, unsendable_original=unsendable, no_command_for_illegal_field_value=cmd_errors_outside),
        "tlc_enumeration_s": round(res.wall_s, 1), "replay_s": round(t_replay, 1), "exec_s": round(t_exec, 1), "tlc_judge_s": round(jres.wall_s, 1),
    }
    out.assumptions = [
        "the loopback http.server reports the received request line, headers and body faithfully",
        "the original request is what the server received when the case was sent through the requests transport; the command is printed "
        "from the headers of that very request (as the CLI does), output sanitisation off; with sanitisation on, a header printed as "
        "[Filtered] matches any value of that header, everything else must be equal",
        "headers the HTTP clients add on their own (Host, User-Agent, Accept, Accept-Encoding, Connection, Content-Length, Transfer-Encoding, the "
        "test-case id header; curl's default Content-Type when the original has none) are not compared; field values are compared modulo "
        "surrounding blanks",
        "curl runs in an empty working directory, so `-d @name` finds no file (empty piece); URL globbing characters and dot segments are outside the model",
        "non-ASCII header values and binary payloads are excluded by the property itself",
    ]
    return out


def replay(ctx: Ctx, data: dict) -> Outcome:
    out = Outcome()
    if data.get("kind") == "spec":
        return out
    el = data["element"]
    o = _work(el)
    if "cmd" not in o:
        return out
    ob = {"cmd": o["cmd"], "orig": o["orig_full"], "hasExec": True, **execute(o["cmd"])}
    (v,), _ = judge(ctx, [ob])
    if v["same"] == "F":
        out.violations.append(Violation("C09:cmd:%s:%s" % (v["why"], el["slot"]), "%s=%r -> %s (%s; executed: exec=%s model=%s)" % (
            el["slot"], text(el["s"]), text(o["cmd"]), v["why"], v["exec"], v["model"]), data))
    return out


def selftest(ctx: Ctx) -> bool:
    """Binding: faithful commands are accepted and each corrupted command / observation is rejected by the TLA+ judge."""
    def req(method, target, headers, body):
        return {"method": cps(method), "target": cps(target), "headers": [{"n": cps(n), "v": cps(v)} for n, v in headers], "body": list(body)}

    orig = req("POST", "/x/a?q=%24", [("Host", FIXED_AUTH), ("User-Agent", "schemathesis/dev"), ("X-H", "it's $HOME"),
                                      ("Content-Type", "text/plain"), ("Content-Length", "3")], b"a\nb")
    url = "http://%s/x/a?q=%%24" % FIXED_AUTH
    head = "curl -X POST -H 'X-H: it'\"'\"'s $HOME' -H 'Content-Type: text/plain' -d 'a\nb' "
    good = head + "'" + url + "'"
    cmds = [good,
            good.replace("'X-H: it'\"'\"'s $HOME'", "\"X-H: it's $HOME\""),          # $ inside double quotes expands
            good.replace("-X POST", "-X PUT"),
            good.replace("-d 'a\nb'", "-d '@a'"),
            good.replace(" -H 'Content-Type: text/plain'", ""),                       # curl's default content type replaces text/plain
            head + url,                                                               # unquoted '?': pathname expansion
            good.replace("'X-H: it'\"'\"'s $HOME'", "'X-H: it'\"'\"'s $HOME"),        # unterminated quote
            ]
    empty = {"method": [], "target": [], "headers": [], "body": []}
    obs = [{"cmd": cps(c), "orig": orig, "hasExec": False, "nexec": 0, "exec": empty} for c in cmds]
    # an "executed" observation whose received request contradicts the model must be flagged model=F
    obs.append({"cmd": cps(good), "orig": orig, "hasExec": True, "nexec": 1,
                "exec": req("POST", "/x/a?q=%24", [("Host", FIXED_AUTH), ("User-Agent", "curl/7.88.1"), ("Accept", "*/*"), ("X-H", "it's $HOME"),
                                                   ("Content-Type", "text/plain"), ("Content-Length", "3")], b"a\nb")})
    obs.append(dict(obs[-1], exec=req("POST", "/x/a?q=%24", [("Host", FIXED_AUTH), ("User-Agent", "curl/7.88.1"), ("Accept", "*/*"),
                                                             ("Content-Type", "text/plain"), ("Content-Length", "3")], b"a\nb")))
    verdicts, _ = judge(ctx, obs, "selftest.json")
    got = [(v["same"], v["why"], v["model"], v["exec"]) for v in verdicts]
    want = [("T", "", "-", "-"), ("F", "shell-operator-unquoted", "-", "-"), ("F", "method", "-", "-"), ("F", "body-read-from-file", "-", "-"),
            ("F", "headers", "-", "-"), ("U", "shell-expansion-unquoted", "-", "-"), ("F", "shell-unterminated-quote", "-", "-"),
            ("T", "", "T", "T"), ("T", "", "F", "F")]
    if got != want:
        print("selftest: judge", got, "expected", want)
        return False
    for o, v in zip(obs, verdicts):
        pv = py_verdict(o)
        if any(pv[k] != v[k] for k in pv):
            print("selftest: cross-check differs", pv, v)
            return False
    return True


def main(argv=None) -> int:
    return common.main("C09", run, replay, selftest, argv)
