"""C10 - stateful links pass exactly the data their expressions denote.

spec/Links.tla (TLC) enumerates (a) link response keys x documented key sets with the statuses a link may be followed from,
(b) runtime-expression strings (well-formed, every JSON pointer up to a bound, the edit-distance-1 neighbourhood of a base set)
x source exchanges with the value the reference evaluator gives.  The driver replays (a) into the real state machine's response
matchers, (b) into `expressions.parser.parse` / `expressions.evaluate` and - for malformed ones - into link construction, and
(c) runs the stateful phase of the real engine against the loopback server on small link families and reads every link-derived
request back from the SERVER LOG.  All observations are judged by spec/LinksJudge.tla.
"""
from __future__ import annotations

import copy
import json
import os
import random
import re
import time
import urllib.parse

from . import common, tlc
from .common import Ctx, Outcome, Violation


# --------------------------------------------------------------------------------------------------
# tagged values (spec <-> python)
# --------------------------------------------------------------------------------------------------
def cps(s: str) -> list[int]:
    return [ord(c) for c in s]


def txt(a: list[int]) -> str:
    return "".join(map(chr, a))


def enc(v) -> dict:
    """Python JSON value -> the spec's tagged value (total: anything else is opaque)."""
    if v is None:
        return {"t": "null"}
    if isinstance(v, bool):
        return {"t": "bool", "b": v}
    if isinstance(v, int) and abs(v) < 2 ** 31:
        return {"t": "int", "n": v}
    if isinstance(v, str):
        return {"t": "str", "s": cps(v)}
    if isinstance(v, list):
        return {"t": "arr", "a": [enc(x) for x in v]}
    if isinstance(v, dict) and all(isinstance(k, str) for k in v):
        return {"t": "obj", "k": [cps(k) for k in v], "a": [enc(x) for x in v.values()]}
    return {"t": "opaque"}


def dec(v: dict):
    t = v["t"]
    if t == "null":
        return None
    if t == "bool":
        return v["b"]
    if t == "int":
        return v["n"]
    if t == "str":
        return txt(v["s"])
    if t == "arr":
        return [dec(x) for x in v["a"]]
    if t == "obj":
        return {txt(k): dec(x) for k, x in zip(v["k"], v["a"])}
    raise ValueError(t)


NONE = {"t": "none"}

# --------------------------------------------------------------------------------------------------
# (b) expressions: the real evaluator on a spec exchange
# --------------------------------------------------------------------------------------------------
EVAL_RAW = {
    "openapi": "3.0.2", "info": {"title": "t", "version": "1"},
    "paths": {"/users/{id}": {
        "parameters": [{"name": "id", "in": "path", "required": True, "schema": {"type": "string"}},
                       {"name": "q", "in": "query", "schema": {"type": "string"}},
                       {"name": "a.b", "in": "query", "schema": {"type": "string"}},
                       {"name": "X-Id", "in": "header", "schema": {"type": "string"}}],
        "post": {"operationId": "postUser", "requestBody": {"content": {"application/json": {"schema": {}}}},
                 "responses": {"201": {"description": "ok"}}},
        "get": {"operationId": "getUser", "responses": {"200": {"description": "ok"}}},
    }},
}
_st: dict = {}
_EXCHANGES: dict = {}  # id -> spec record (as exported by TLC); filled before forking


def _setup() -> dict:
    if not _st:
        import requests
        import schemathesis
        from schemathesis.core.transforms import UNRESOLVABLE
        from schemathesis.core.transport import Response
        from schemathesis.generation.stateful.state_machine import StepOutput
        from schemathesis.specs.openapi import expressions

        schema = schemathesis.openapi.from_dict(copy.deepcopy(EVAL_RAW)).configure(base_url="http://127.0.0.1/api")
        _st.update(schema=schema, Response=Response, StepOutput=StepOutput, expressions=expressions, UNRESOLVABLE=UNRESOLVABLE,
                   req=requests.Request("GET", "http://127.0.0.1/").prepare(), outputs={})
    return _st


def _output(xid: str):
    """The real StepOutput (Case + Response) for a spec exchange."""
    st = _setup()
    if xid not in st["outputs"]:
        x = _EXCHANGES[xid]
        op = st["schema"]["/users/{id}"][txt(x["method"])]
        pairs = lambda ps: {txt(p["n"]): dec(p["v"]) for p in ps}
        kw: dict = {"path_parameters": pairs(x["path"])}
        if x["query"]:
            kw["query"] = pairs(x["query"])
        if x["headers"]:
            kw["headers"] = pairs(x["headers"])
        if x["body"]["t"] != "none":
            kw["body"] = dec(x["body"])
            kw["media_type"] = "application/json"
        case = op.Case(**kw)
        response = st["Response"](status_code=x["status"], headers={txt(p["n"]): [dec(p["v"])] for p in x["rheaders"]},
                                  content=json.dumps(dec(x["rbody"])).encode(), request=st["req"], elapsed=0.0, verify=False)
        st["outputs"][xid] = st["StepOutput"](response, case)
    return st["outputs"][xid]


def observe_expr(expr: str, xid: str) -> dict:
    st = _setup()
    ex = st["expressions"]
    try:
        ex.parser.parse(expr)
    except Exception as exc:  # what link construction turns into a schema error
        return {"k": "rejected", "v": NONE, "exc": type(exc).__name__}
    try:
        value = ex.evaluate(expr, _output(xid))
    except Exception as exc:
        return {"k": "error", "v": NONE, "exc": type(exc).__name__}
    if value is st["UNRESOLVABLE"]:
        return {"k": "unres", "v": NONE}
    return {"k": "val", "v": enc(value)}


def agree_expr(exp: dict, o: dict) -> bool:
    k = exp["k"]
    if k == "U":
        return True
    if k == "val":
        return o["k"] == "val" and o["v"] == exp["v"]
    if k == "unres":
        return o["k"] in ("unres", "error")
    if k == "malformed":
        return o["k"] == "rejected"
    if k == "litorrej":
        return o["k"] == "rejected" or (o["k"] == "val" and o["v"] == exp["v"])
    return o["k"] in ("rejected", "unres", "error")


def _work_expr(c: tuple) -> dict:
    return observe_expr(c[0], c[1])


def observe_tree(tree: dict, xid: str) -> dict:
    """A requestBody-like JSON tree through the real nested evaluation."""
    st = _setup()
    try:
        value = st["expressions"].evaluate(dec(tree), _output(xid), evaluate_nested=True)
    except Exception as exc:
        return {"k": "error", "v": NONE, "exc": type(exc).__name__}
    if value is st["UNRESOLVABLE"]:
        return {"k": "unres", "v": NONE}
    return {"k": "val", "v": enc(value)}


def _work_tree(c: tuple) -> dict:
    return observe_tree(c[0], c[1])


def tree_class(tree: dict) -> str:
    """Container kinds on the way to the deepest string, e.g. obj-arr-obj."""
    def walk(d: dict, path: tuple) -> list:
        if d["t"] in ("arr", "obj"):
            return [p for v in d["a"] for p in walk(v, path + (d["t"],))]
        return [path] if d["t"] == "str" else []
    paths = walk(tree, ())
    return "-".join(max(paths, key=len)) or "leaf" if paths else "no-string"


def link_schema(expr) -> dict:
    raw = copy.deepcopy(EVAL_RAW)
    raw["paths"]["/users/{id}"]["post"]["responses"]["201"]["links"] = {
        "l": {"operationId": "getUser", "parameters": {"path.id": expr}}}
    return raw


def _work_link(shape: dict) -> str:
    """Is a link of this shape refused when the state machine is built? -> 'rejected' / 'accepted'."""
    import schemathesis

    target = {"id": {"operationId": "getUser"}, "ref": {"operationRef": "#/paths/~1users~1{id}/get"},
              "unknown-id": {"operationId": "noSuchOperation"}, "unknown-ref": {"operationRef": "#/paths/~1nowhere/get"}}[shape["target"]]
    raw = copy.deepcopy(EVAL_RAW)
    raw["paths"]["/users/{id}"]["post"]["responses"]["201"]["links"] = {"l": dict(target, parameters={shape["pname"]: "$response.body#/id"})}
    try:
        schemathesis.openapi.from_dict(raw).as_state_machine()
    except Exception:
        return "rejected"
    return "accepted"


def _work_construct(expr: str) -> str:
    """Is a link whose parameter is `expr` refused when the state machine is built? -> 'rejected' / 'accepted'."""
    import schemathesis

    try:
        schemathesis.openapi.from_dict(link_schema(expr)).as_state_machine()
    except Exception:
        return "rejected"
    return "accepted"


# --------------------------------------------------------------------------------------------------
# (a) status matching through the real state machine's response matcher
# --------------------------------------------------------------------------------------------------
def _work_status(c: tuple) -> list[int]:
    import schemathesis
    from types import SimpleNamespace

    key, keys = c
    responses = {k: {"description": k} for k in keys}
    responses[key]["links"] = {"l": {"operationId": "getUser", "parameters": {"path.id": "$request.path.id"}}}
    raw = copy.deepcopy(EVAL_RAW)
    raw["paths"]["/users/{id}"]["post"]["responses"] = responses
    schema = schemathesis.openapi.from_dict(raw)
    machine = schema.as_state_machine()
    op = schema["/users/{id}"]["POST"]
    matcher = machine._response_matchers[op.label]
    case = SimpleNamespace(operation=op)
    bundle = "%s -> %s" % (op.label, key)
    return [s for s in range(100, 600) if matcher(SimpleNamespace(case=case, response=SimpleNamespace(status_code=s))) == bundle]


# --------------------------------------------------------------------------------------------------
# (c) live: stateful phase against the loopback server
# --------------------------------------------------------------------------------------------------
NAME = {"type": "string", "pattern": "^[a-z]{1,5}$"}
USER_BODY = {"required": True, "content": {"application/json": {"schema": {
    "type": "object", "properties": {"name": NAME}, "required": ["name"], "additionalProperties": False}}}}
PUT_BODY = {"required": True, "content": {"application/json": {"schema": {
    "type": "object", "properties": {"name": NAME, "extra": {"type": "integer", "minimum": 0, "maximum": 9}},
    "required": ["extra"], "additionalProperties": False}}}}


def live_schema(links: dict, responses_extra: tuple = ()) -> dict:
    """POST /users (source) with `links` = {response key: {link name: link}}; targets GET/PUT/DELETE /users/{id}."""
    responses = {k: {"description": k} for k in responses_extra}
    for key, ls in links.items():
        responses[key] = {"description": key, "links": ls}
    return {
        "openapi": "3.0.2", "info": {"title": "t", "version": "1"},
        "paths": {
            "/users": {"post": {"operationId": "createUser", "requestBody": USER_BODY, "responses": responses}},
            "/users/{id}": {
                "parameters": [{"name": "id", "in": "path", "required": True, "schema": {"type": "integer", "minimum": 1, "maximum": 9}}],
                "get": {"operationId": "getUser", "responses": {"200": {"description": "ok"}},
                        "parameters": [{"name": "q", "in": "query", "schema": {"type": "string", "pattern": "^[a-z]{1,3}$"}},
                                       {"name": "via", "in": "query", "schema": {"type": "string", "pattern": "^[a-z]{1,3}$"}},
                                       {"name": "X-Trace", "in": "header", "schema": {"type": "string", "pattern": "^[a-z]{1,3}$"}}]},
                "put": {"operationId": "putUser", "requestBody": PUT_BODY, "responses": {"200": {"description": "ok"}}},
                "delete": {"responses": {"204": {"description": "ok"}}},
            },
        },
    }


def twin_raw() -> dict:
    """Two SOURCE operations whose labels differ only in a non-word character, each with its own link under the same key."""
    raw = live_schema({})
    post = raw["paths"].pop("/users")["post"]
    geta = L(BY_ID("getUser"), {"id": "$response.body#/id", "query.via": "aa"})
    putb = L(BY_REF("put"), {"path.id": "$response.body#/id"}, {"name": "$response.body#/name", "tag": "bb"})
    for path, op_id, links in (("/user-profiles", "createA", {"geta": geta}), ("/user_profiles", "createB", {"putb": putb})):
        raw["paths"][path] = {"post": dict(copy.deepcopy(post), operationId=op_id,
                                           responses={"201": {"description": "ok", "links": links}, "default": {"description": "err"}})}
    return raw


def L(target: dict, parameters: dict | None = None, body=None, merge: bool | None = None) -> dict:
    link = dict(target)
    if parameters is not None:
        link["parameters"] = parameters
    if body is not None:
        link["requestBody"] = body
    if merge is not None:
        link["x-schemathesis"] = {"merge_body": merge}
    return link


BY_ID = lambda name: {"operationId": name}
BY_REF = lambda method: {"operationRef": "#/paths/~1users~1{id}/" + method}
FAMILIES: dict[str, dict] = {
    # operationId target, implicit + explicit locations, header with embedded expressions, regex extractor
    "id-target": {"links": {"201": {
        "get": L(BY_ID("getUser"), {"id": "$response.body#/id", "query.q": "$response.header.X-Rid",
                                    "header.X-Trace": "t-{$request.body#/name}-{$statusCode}",
                                    "query.via": "$response.header.Location#regex:/users/(.+)"})}}},
    # operationRef target, explicit path.id, nested request body with literal + expressions, merge (default)
    "ref-target-body": {"links": {"201": {
        "put": L(BY_REF("put"), {"path.id": "$response.body#/id"},
                 {"name": "$response.body#/name", "tag": "lit", "nested": {"ref": "$response.body#/tags/1", "m": "$method"}})}}},
    # merge_body off: the body is exactly the link's
    "body-no-merge": {"links": {"201": {
        "put": L(BY_ID("putUser"), {"id": "$response.body#/id"}, {"extra": "$response.body#/id", "name": "$request.body#/name"}, merge=False)}}},
    # pointer escapes, array index, unresolvable values, constants
    "pointers": {"links": {"201": {
        "get": L(BY_ID("getUser"), {"path.id": "$response.body#/id", "query.q": "$response.body#/k~11",
                                    "query.via": "$response.body#/missing", "header.X-Trace": "$response.body#/tags/0"}),
        "del": L(BY_REF("delete"), {"id": "$response.body#/nested/ids/1"})}}},
    # two DIFFERENT links out of the same response: each derived request must carry its own link's data
    "two-links": {"links": {"201": {
        "get": L(BY_ID("getUser"), {"id": "$response.body#/id", "query.q": "$response.header.X-Rid"}),
        "put": L(BY_REF("put"), {"path.id": "$response.body#/nested/ids/0"}, {"name": "$response.body#/name", "tag": "second"}),
        "del": L(BY_REF("delete"), {"id": "$response.body#/nested/ids/1"})}}},
    # expressions below an array inside the body (depth >= 2 through an array); a second link whose nested value denotes nothing
    "nested-array-body": {"links": {"201": {
        "put": L(BY_ID("putUser"), {"id": "$response.body#/id"},
                 {"items": [{"sku": "$request.body#/name", "n": ["$response.body#/tags/1", "k"]}, "$statusCode"], "name": "$response.body#/name"}),
        "del": L(BY_REF("delete"), {"id": "$response.body#/id"}, {"items": [{"sku": "$response.body#/missing"}]})}}},
    # a link body that is not an object: the whole body is one expression (type kept: an object) / an array (replaces the generated body)
    "whole-body-expression": {"links": {"201": {
        "put": L(BY_ID("putUser"), {"id": "$response.body#/id"}, "$response.body#/nested")}}},
    "array-body": {"links": {"201": {
        "put": L(BY_REF("put"), {"path.id": "$response.body#/id"}, ["$response.body#/id", {"k": "$response.body#/name"}, "x"])}}},
    # the same links declared through the Python API (schema.add_link) instead of the document
    "added-by-api": {"api": True, "links": {"201": {
        "get": L(BY_ID("getUser"), {"id": "$response.body#/id", "query.q": "$response.header.X-Rid"}),
        "put": L(BY_REF("put"), {"path.id": "$response.body#/nested/ids/0"}, {"name": "$response.body#/name", "tag": "api"}),
        "del": L(BY_REF("delete"), {"id": "$response.body#/nested/ids/1"})}}},   # target given as an operation WITHOUT operationId
    # positive AND negative data generation: link-supplied values still win
    "two-links-both-modes": {"modes": "both", "links": {"201": {
        "get": L(BY_ID("getUser"), {"id": "$response.body#/id", "query.q": "$response.header.X-Rid"}),
        "put": L(BY_REF("put"), {"path.id": "$response.body#/nested/ids/0"}, {"name": "$response.body#/name", "tag": "second"})}}},
    # the link body IS the source's response / request body (an object, merged with generated keys); a second link reads a member the
    # source never had
    "response-as-body": {"links": {"201": {
        "put": L(BY_ID("putUser"), {"id": "$response.body#/id"}, "$response.body"),
        "get": L(BY_ID("getUser"), {"id": "$response.body#/id", "query.q": "$response.body#/extra", "query.via": "$request.body#/extra"})}}},
    "request-as-body": {"links": {"201": {
        "put": L(BY_REF("put"), {"path.id": "$response.body#/id"}, "$request.body"),
        "get": L(BY_ID("getUser"), {"id": "$response.body#/id", "query.q": "$response.body#/extra", "query.via": "$request.body#/extra"})}}},
    # two source operations with labels that only differ in "-" / "_": a link may only be fed by responses of ITS OWN source
    "twin-sources": {"raw": "twin", "sources": {"geta": "/user-profiles", "putb": "/user_profiles"}, "extra": ("default",), "links": {"201": {
        "geta": L(BY_ID("getUser"), {"id": "$response.body#/id", "query.via": "aa"}),
        "putb": L(BY_REF("put"), {"path.id": "$response.body#/id"}, {"name": "$response.body#/name", "tag": "bb"})}}},
    # status routing: exact, wildcard and default keys next to documented keys without links
    "status-keys": {"links": {"201": {"exact": L(BY_ID("getUser"), {"id": "$response.body#/id", "query.via": "ex"})},
                              "4XX": {"wild": L(BY_ID("getUser"), {"id": "$response.body#/id", "query.via": "wi"})},
                              "default": {"dflt": L(BY_ID("getUser"), {"id": "$response.body#/id", "query.via": "df"})}},
                    "extra": ("200", "5XX"), "statuses": [201, 400, 404, 200, 500, 201, 422, 503, 299, 409]},
}


def build_schema(fam: dict):
    """The family's document, loaded by the real loader; links come from the document or, for `api` families, from schema.add_link."""
    import schemathesis

    if fam.get("raw") == "twin":
        return schemathesis.openapi.from_dict(twin_raw())
    if not fam.get("api"):
        return schemathesis.openapi.from_dict(live_schema(fam["links"], fam.get("extra", ())))
    schema = schemathesis.openapi.from_dict(live_schema({}, tuple(fam["links"]) + tuple(fam.get("extra", ()))))
    for key, ls in fam["links"].items():
        for lname, ldef in ls.items():
            target = {"getUser": schema["/users/{id}"]["GET"], "putUser": schema["/users/{id}"]["PUT"]}.get(ldef.get("operationId"), ldef.get("operationRef"))
            if lname == "del":
                target = schema["/users/{id}"]["DELETE"]  # no operationId: add_link has to derive the operationRef itself
            schema.add_link(source=schema["/users"]["POST"], target=target, status_code=int(key) if key.isdigit() else key,
                            parameters=ldef.get("parameters"), request_body=ldef.get("requestBody"), name=lname)
    return schema


def run_live(name: str, fam: dict, seed: int, examples: int) -> list[dict]:
    """Run the stateful phase on one family; return one judge record per link-derived request (from the server log)."""
    import hypothesis
    import schemathesis
    from schemathesis.engine import events, from_schema
    from schemathesis.engine.config import EngineConfig, ExecutionConfig
    from schemathesis.engine.phases import PhaseName

    from .compat import enable_links
    from .server import LoopbackServer

    enable_links()
    from schemathesis.generation import GenerationConfig, GenerationMode

    statuses = fam.get("statuses", [201])
    sent: dict[int, tuple] = {}
    counter = [0]

    def behaviour(rec):
        if rec.method == "POST" and rec.path in ("/users", "/user-profiles", "/user_profiles"):
            counter[0] += 1
            n = (counter[0] - 1) % 9 + 1
            if rec.path != "/users":  # the twin sources hand out distinguishable ids: 1-4 and 5-9
                n = (counter[0] - 1) % 4 + 1 if rec.path == "/user-profiles" else (counter[0] - 1) % 5 + 5
            status = statuses[(counter[0] - 1) % len(statuses)]
            body = {"id": n, "name": "n%d" % n, "tags": ["ta", "tb"], "k/1": "sx", "nested": {"ids": [7, n]}}
            out = (status, [("Content-Type", "application/json"), ("Location", "/users/%d" % n), ("X-Rid", "r%d" % n)], json.dumps(body).encode())
        else:
            out = (204, [], b"") if rec.method == "DELETE" else (200, [("Content-Type", "application/json")], b"{}")
        sent[rec.seq] = out
        return out

    links = {(key, lname): ldef for key, ls in fam["links"].items() for lname, ldef in ls.items()}
    target_method = lambda ldef: {"getUser": "GET", "putUser": "PUT"}.get(ldef.get("operationId"), ldef.get("operationRef", "/").rsplit("/", 1)[-1].upper())
    foreign = []
    all_keys = sorted(set(fam["links"]) | set(fam.get("extra", ())))
    records = []
    with LoopbackServer(behaviour) as srv:
        schema = build_schema(fam).configure(base_url=srv.base_url)
        if fam.get("modes") == "both":  # the state machine reads the modes from the schema's own configuration
            schema.configure(generation=GenerationConfig(modes=[GenerationMode.POSITIVE, GenerationMode.NEGATIVE]))
        generation = GenerationConfig(modes=[GenerationMode.POSITIVE, GenerationMode.NEGATIVE]) if fam.get("modes") == "both" else GenerationConfig()
        cfg = EngineConfig(execution=ExecutionConfig(
            phases=[PhaseName.STATEFUL_TESTING], checks=[], seed=seed, generation=generation,
            hypothesis_settings=hypothesis.settings(max_examples=examples, deadline=None, database=None, derandomize=True,
                                                    suppress_health_check=list(hypothesis.HealthCheck))))
        recorders = []
        errors = []
        stream = from_schema(schema, config=cfg).execute()
        t0 = time.time()
        for ev in stream:
            if isinstance(ev, events.ScenarioFinished):
                recorders.append(ev.recorder)
                if len(recorders) >= 4 * examples or time.time() - t0 > 2.0 * examples:
                    stream.stop()  # the engine re-runs the state machine after some outcomes; bound the run by the official stop
            elif isinstance(ev, (events.NonFatalError, events.FatalError)):
                errors.append(repr(getattr(ev, "value", ev))[:200])
        log = {r.header("X-Schemathesis-TestCaseId"): r for r in srv.snapshot()}
        base = srv.base_url
    for rec in recorders:
        for cid, node in rec.cases.items():
            if node.transition is None or cid not in log or node.parent_id not in log:
                continue
            m = re.match(r"^.* -> \[(.+?)\] (.+?) -> (\S+) (\S+)$", node.transition.id)
            if not m or (m.group(1), m.group(2)) not in links:
                raise RuntimeError("unknown transition id %r" % node.transition.id)
            key, lname = m.group(1), m.group(2)
            # the link that was followed is the one whose target is the operation requested (unique per key in most families)
            by_target = [kl for kl, ldef in links.items() if kl[0] == key and target_method(ldef) == log[cid].method]
            if len(by_target) == 1 and by_target[0] != (key, lname):
                foreign.append("request %s %s carries the recorded transition %r" % (log[cid].method, log[cid].target, node.transition.id))
                key, lname = by_target[0]
            r = live_record(name, key, lname, links[(key, lname)], all_keys, log[node.parent_id], sent, log[cid], base)
            r["src"], r["from"] = fam.get("sources", {}).get(lname, "/users"), log[node.parent_id].path
            records.append(r)
    return [{"family": name, "errors": errors, "requests": len(log), "records": records, "foreign": foreign}]


def run_extract(name: str, fam: dict) -> list[dict]:
    """link.extract(output) of the REAL links of a family on one stored StepOutput: every link alone and every ordered pair of
    different links on the SAME output (the second call must not see the first link's data).  Records have the live shape; the
    'sent' side is what the returned Transition holds (strict: an unresolvable body must be absent)."""
    import requests
    import schemathesis
    from schemathesis.core.result import Ok
    from schemathesis.core.transforms import UNRESOLVABLE
    from schemathesis.core.transport import Response
    from schemathesis.generation.stateful.state_machine import StepOutput
    from schemathesis.specs.openapi.stateful.links import get_all_links

    base = "http://127.0.0.1/api"
    if fam.get("raw"):
        return []  # a different source layout: covered live only
    schema = build_schema(fam).configure(base_url=base)
    op = schema["/users"]["POST"]
    real = {}
    for key, res in get_all_links(op):
        real[(key, res.ok().name)] = res.ok()
    all_keys = sorted(set(fam["links"]) | set(fam.get("extra", ())))
    rbody = {"id": 3, "name": "n3", "tags": ["ta", "tb"], "k/1": "sx", "nested": {"ids": [7, 3]}}
    rheaders = [("Content-Type", "application/json"), ("Location", "/users/3"), ("X-Rid", "r3")]
    req = requests.Request("POST", base + "/users").prepare()
    container = {"path": "path_parameters", "query": "query", "header": "headers"}

    def record(kl: tuple, tr, status: int, case, position: str, is_json: bool = True, x: dict | None = None) -> dict:
        ldef = fam["links"][kl[0]][kl[1]]
        x = x or {"method": cps("POST"), "url": cps(base + "/users"), "status": status, "path": [], "query": [], "headers": [],
                  "body": enc(case.body), "rheaders": _pairs(rheaders), "rbody": enc(rbody) if is_json else {"t": "text"}}
        params = []
        for pname, expr in (ldef.get("parameters") or {}).items():
            loc, _, n = pname.partition(".") if "." in pname else ("", "", pname)
            loc = loc or ("path" if n == "id" else "query")
            got = tr.parameters.get(container[loc], {}).get(n)
            value = got.value.ok() if got is not None and isinstance(got.value, Ok) else None
            ok = value is not None and value is not UNRESOLVABLE
            params.append({"name": pname, "expr": cps(expr), "sent": ok, "text": cps(str(value) if ok else "")})
        body = {"has": False, "merge": False, "strict": True, "def": NONE, "sent": NONE}
        if "requestBody" in ldef:
            got = tr.request_body
            ok = got is not None and isinstance(got.value, Ok) and got.value.ok() is not UNRESOLVABLE
            body = {"has": True, "merge": False, "strict": True, "def": enc(ldef["requestBody"]), "sent": enc(got.value.ok()) if ok else NONE}
        return {"kind": "live", "site": "extract", "position": position, "family": name, "link": kl[1], "key": kl[0], "keys": all_keys,
                "x": x, "params": params, "body": body, "derived": "Transition %s" % tr.id, "tid_ok": tr.id.split("] ")[-1].startswith(kl[1] + " ->")}

    out = []
    status_of = lambda key: {"201": 201, "4XX": 404, "default": 299}[key]
    for a in real:
        for b in [None] + [b for b in real if b != a and b[0] == a[0]]:
            status = status_of(a[0])
            case = op.Case(body={"name": "ab"}, media_type="application/json")
            output = StepOutput(Response(status_code=status, headers={k.lower(): [v] for k, v in rheaders}, content=json.dumps(rbody).encode(),
                                         request=req, elapsed=0.0, verify=False), case)
            first = real[a].extract(output)
            if b is None:
                out.append(record(a, first, status, case, "alone"))
                # the same link on a response whose payload is not JSON: nothing of $response.body may be passed on
                case2 = op.Case(body={"name": "ab"}, media_type="application/json")
                plain = StepOutput(Response(status_code=status, headers={k.lower(): [v] for k, v in rheaders}, content=b"oops, not JSON",
                                            request=req, elapsed=0.0, verify=False), case2)
                out.append(record(a, real[a].extract(plain), status, case2, "alone", is_json=False))
            else:
                out.append(record(b, real[b].extract(output), status, case, "after-another-link-on-the-same-output"))

    # derivation histories: the real into_step_input on ONE stored output, the same link twice and then every other link of the key.
    # After each derivation: the derived case = link values over generated ones; the link data recorded in the Transition is exactly
    # what the expressions denote on the ORIGINAL source; the source request / response bodies are unchanged.
    import hypothesis
    from schemathesis.generation import GenerationMode
    from schemathesis.specs.openapi.stateful import into_step_input

    def draw(strategy):
        got = []

        @hypothesis.settings(max_examples=1, database=None, derandomize=True, deadline=None, phases=[hypothesis.Phase.generate],
                             suppress_health_check=list(hypothesis.HealthCheck))
        @hypothesis.given(strategy)
        def one(value):
            got.append(value)

        one()
        return got[0]

    def case_record(kl: tuple, step, x: dict, position: str) -> dict:
        ldef = fam["links"][kl[0]][kl[1]]
        c = step.case
        got = {"path": c.path_parameters or {}, "query": c.query or {}, "header": {k.lower(): v for k, v in (c.headers or {}).items()}}
        params = []
        for pname, expr in (ldef.get("parameters") or {}).items():
            loc, _, n = pname.partition(".") if "." in pname else ("", "", pname)
            loc = loc or ("path" if n == "id" else "query")
            value = got[loc].get(n.lower() if loc == "header" else n)
            params.append({"name": pname, "expr": cps(expr), "sent": value is not None, "text": cps("" if value is None else str(value))})
        body = {"has": False, "merge": True, "strict": False, "def": NONE, "sent": NONE}
        if "requestBody" in ldef:
            body = {"has": True, "strict": False, "merge": (ldef.get("x-schemathesis") or {}).get("merge_body", True),
                    "def": enc(ldef["requestBody"]), "sent": enc(c.body) if isinstance(c.body, (dict, list, str, int, bool)) or c.body is None else NONE}
        return {"kind": "live", "site": "derive", "position": position, "family": name, "link": kl[1], "key": kl[0], "keys": all_keys, "x": x,
                "params": params, "body": body, "derived": "case %s %s body=%s" % (c.method, c.path, json.dumps(c.body, default=str)[:160]), "tid_ok": True}

    for a in real:
        if "requestBody" not in fam["links"][a[0]][a[1]]:
            continue
        status = status_of(a[0])
        case = op.Case(body={"name": "ab"}, media_type="application/json")
        output = StepOutput(Response(status_code=status, headers={k.lower(): [v] for k, v in rheaders}, content=json.dumps(rbody).encode(),
                                     request=req, elapsed=0.0, verify=False), case)
        x0 = {"method": cps("POST"), "url": cps(base + "/users"), "status": status, "path": [], "query": [], "headers": [],
              "body": enc({"name": "ab"}), "rheaders": _pairs(rheaders), "rbody": enc(rbody)}
        sequence = [a, a] + [b for b in real if b != a and b[0] == a[0]]
        for n, kl in enumerate(sequence, 1):
            position = "derivation-%d-from-the-same-source" % min(n, 3)
            step = draw(into_step_input(target=real[kl].target, link=real[kl], modes=[GenerationMode.POSITIVE])(output))
            out.append(case_record(kl, step, x0, position))
            out.append(dict(record(kl, step.transition, status, case, position, x=x0), site="recorded-transition"))
            out.append({"kind": "same", "site": "source", "position": position, "family": name, "link": kl[1], "what": "response body",
                        "a": x0["rbody"], "b": enc(output.response.json())})
            out.append({"kind": "same", "site": "source", "position": position, "family": name, "link": kl[1], "what": "request body",
                        "a": x0["body"], "b": enc(case.body)})
    return out


def _pairs(items) -> list[dict]:
    return [{"n": cps(k), "v": enc(v)} for k, v in items]


def _path_id(path: str) -> list:
    m = re.match(r"^/users/([^/]+)$", path)
    return [("id", urllib.parse.unquote(m.group(1)))] if m else []


def _json_or_none(body: bytes) -> dict:
    try:
        return enc(json.loads(body)) if body else NONE
    except ValueError:
        return {"t": "opaque"}


def live_record(fam: str, key: str, lname: str, ldef: dict, all_keys: list[str], src, sent: dict, derived, base: str) -> dict:
    """Everything taken from the server's side: the source request as received, the response as sent, the derived request as received."""
    status, rheaders, rbody = sent[src.seq]
    x = {"method": cps(src.method), "url": cps(base + src.target), "status": status,
         "path": _pairs(_path_id(src.path)), "query": _pairs(urllib.parse.parse_qsl(src.query, keep_blank_values=True)),
         "headers": _pairs((k, v) for k, v in src.headers), "body": _json_or_none(src.body),
         "rheaders": _pairs(rheaders), "rbody": _json_or_none(rbody)}
    got = {"path": dict(_path_id(derived.path)), "query": dict(urllib.parse.parse_qsl(derived.query, keep_blank_values=True)),
           "header": {k.lower(): v for k, v in derived.headers}}
    params = []
    for pname, expr in (ldef.get("parameters") or {}).items():
        loc, _, n = pname.partition(".") if "." in pname else ("", "", pname)
        if not loc:
            loc = "path" if n == "id" else "query"  # implicit location: where the target declares it
        value = got[loc].get(n.lower() if loc == "header" else n)
        params.append({"name": pname, "expr": cps(expr), "sent": value is not None, "text": cps(value or "")})
    body = {"has": False, "merge": True, "strict": False, "def": NONE, "sent": NONE}
    if "requestBody" in ldef:
        body = {"has": True, "strict": False, "merge": (ldef.get("x-schemathesis") or {}).get("merge_body", True),
                "def": enc(ldef["requestBody"]), "sent": _json_or_none(derived.body)}
    return {"kind": "live", "family": fam, "link": lname, "key": key, "keys": all_keys, "x": x, "params": params, "body": body,
            "derived": "%s %s %s" % (derived.method, derived.target, derived.body.decode("latin-1")[:200])}


# A second, deliberately tiny reading of the expression forms used by the live families (pointer into a body, header, $statusCode,
# $method, embedded text, the catalogue regex).  It exists only to cross-check the TLA+ judge's verdicts on live records.
def _py_ptr(doc, pointer: str):
    cur = doc
    for raw in pointer.split("/")[1:] if pointer else []:
        tok = raw.replace("~1", "/").replace("~0", "~")
        if isinstance(cur, dict) and tok in cur:
            cur = cur[tok]
        elif isinstance(cur, list) and re.fullmatch(r"0|[1-9][0-9]*", tok) and int(tok) < len(cur):
            cur = cur[int(tok)]
        else:
            return _MISSING
    return cur


_MISSING = object()


def py_eval(expr: str, x: dict):
    """-> python value, _MISSING (denotes nothing) or raises KeyError for forms outside this mini reading."""
    if "{" in expr:
        parts = re.split(r"\{([^{}]*)\}", expr)
        vals = [p if i % 2 == 0 else py_eval(p, x) for i, p in enumerate(parts)]
        if any(v is _MISSING for v in vals):
            return _MISSING
        return "".join(str(v) for v in vals)
    if not expr.startswith("$"):
        return expr
    if expr == "$statusCode":
        return str(x["status"])
    if expr == "$method":
        return txt(x["method"])
    m = re.fullmatch(r"\$(request|response)\.body(?:#(.*))?", expr)
    if m:
        doc = x["body" if m.group(1) == "request" else "rbody"]
        if doc["t"] == "text":
            return _MISSING
        return _py_ptr(dec(doc), m.group(2) or "")
    m = re.fullmatch(r"\$response\.header\.([A-Za-z-]+)(?:#regex:(.*)\(\.\+\))?", expr)
    if m:
        hs = {txt(p["n"]).lower(): dec(p["v"]) for p in x["rheaders"]}
        v = hs.get(m.group(1).lower(), _MISSING)
        if v is _MISSING or m.group(2) is None:
            return v
        i = v.find(m.group(2))
        return v[i + len(m.group(2)):] if i >= 0 and len(v) > i + len(m.group(2)) else _MISSING
    raise KeyError(expr)


def _py_tree(d, x: dict):
    if isinstance(d, str):
        return py_eval(d, x)
    if isinstance(d, list):
        items = [_py_tree(v, x) for v in d]
        return _MISSING if any(v is _MISSING for v in items) else items
    if isinstance(d, dict):
        items = {k: _py_tree(v, x) for k, v in d.items()}
        return _MISSING if any(v is _MISSING for v in items.values()) else items
    return d


def py_status_matches(key: str, status: int, keys: list[str]) -> bool:
    def m(k: str) -> bool:
        return all(c in "xX" or c == d for c, d in zip(k, str(status)))

    return not any(m(k) for k in keys if k != "default") if key == "default" else m(key)


def py_live_verdicts(r: dict) -> set:
    """The driver's own verdicts on one live record, in the judge's vocabulary."""
    bad = set()
    if not py_status_matches(r["key"], r["x"]["status"], r["keys"]):
        bad.add(("live-status", 0))
    if r.get("src", "") != r.get("from", ""):
        bad.add(("live-source", 0))
    for n, p in enumerate(r["params"], 1):
        v = py_eval(txt(p["expr"]), r["x"])
        if v is _MISSING:
            if "Unresolvable" in txt(p["text"]) or (r["body"].get("strict") and p["sent"]):
                bad.add(("live-param", n))
        elif isinstance(v, (str, int)) and not isinstance(v, bool):
            if not p["sent"] or txt(p["text"]) != str(v):
                bad.add(("live-param", n))
    b = r["body"]
    if b["has"]:
        exp = _py_tree(dec(b["def"]), r["x"])
        sent = dec(b["sent"]) if b["sent"]["t"] not in ("none", "opaque") else _MISSING
        if exp is _MISSING:
            if b.get("strict") and b["sent"]["t"] != "none":
                bad.add(("live-body", 0))
        else:
            if b["merge"] and isinstance(exp, dict) and isinstance(sent, dict):
                if any(k not in sent or enc(sent[k]) != enc(v) for k, v in exp.items()):
                    bad.add(("live-body", 0))
            elif sent is _MISSING or enc(sent) != enc(exp):
                bad.add(("live-body", 0))
    return bad


# --------------------------------------------------------------------------------------------------
# signatures
# --------------------------------------------------------------------------------------------------
def _index_class(tok: str) -> str:
    if tok == "-":
        return "dash"
    if re.fullmatch(r"\s*[-+]?[0-9]+\s*", tok) and not re.fullmatch(r"0|[1-9][0-9]*", tok):
        return "lenient-integer"  # leading zero, sign, surrounding white space: int() takes it, RFC 6901 does not
    if re.fullmatch(r"[0-9]+", tok):
        return "out-of-range"
    return "non-numeric"


def _walk(doc, pointer: str):
    """Follow `pointer` with RFC 6901 semantics; returns the token class at which an ARRAY refuses the token, if any."""
    if not pointer.startswith("/"):
        return None
    cur = doc
    for raw in pointer.split("/")[1:]:
        tok = raw.replace("~1", "/").replace("~0", "~")
        if isinstance(cur, dict):
            if tok not in cur:
                return None
            cur = cur[tok]
        elif isinstance(cur, list):
            if re.fullmatch(r"0|[1-9][0-9]*", tok) and int(tok) < len(cur):
                cur = cur[int(tok)]
            else:
                return _index_class(tok)
        else:
            return None
    return None


_VALID_GROUP = re.compile(r"\$(?:url|method|statusCode|request\.(?:path|query|header)\.[^.}#$]+(?:#regex:[^}]*)?|response\.header\.[^.}#$]+(?:#regex:[^}]*)?"
                          r"|(?:request|response)\.body(?:#[^}]*)?)")


def expr_class(expr: str, xid: str, value_related: bool = False, pointer_syntax: bool = False) -> str:
    """Input class of an expression = the feature the verdict hinges on (Appendix E: production or pointer token class)."""
    x = _EXCHANGES.get(xid)
    for m in re.finditer(r"\$(request|response)\.body#([^}]*)", expr) if (value_related or pointer_syntax) else ():
        field = "body" if m.group(1) == "request" else "rbody"
        if value_related and x and x[field]["t"] != "none":
            cls = _walk(dec(x[field]), m.group(2))
            if cls:
                return "pointer:array-index:" + cls
        if re.search(r"~(?![01])", m.group(2)):
            return "pointer:bad-escape"
        if m.group(2) and not m.group(2).startswith("/"):
            return "pointer:no-leading-slash"
    groups = re.findall(r"\{([^{}]*)\}", expr)
    outside = re.sub(r"\{[^{}]*\}", "", expr)
    if "{" in expr or "}" in expr:
        if "{" in outside or "}" in outside:
            return "embedded:unbalanced-or-nested"
        if any(g == "" for g in groups):
            return "embedded:empty-group"
        if "#" in outside:
            return "text-with-hash"
        if any(not g.startswith("$") for g in groups):
            return "embedded:group-without-expression"
        if any(not _VALID_GROUP.fullmatch(g) for g in groups):
            return "embedded:text-after-expression" if any(_VALID_GROUP.match(g) for g in groups if not _VALID_GROUP.fullmatch(g)) else "embedded:unknown-expression"
        return "embedded"
    if not expr.startswith("$"):
        return "text-with-hash" if "#" in expr else "constant"
    if re.fullmatch(r"\$re\w+\.(?:path|query|header)\.[^#]*\.[^#]*(?:#.*)?", expr):
        return "name-with-dot"
    if "#regex:" in expr:
        return "regex-extractor"
    return "bare:" + re.match(r"\$[A-Za-z]*(?:\.(?:path|query|header|body))?", expr).group(0)


def expr_signature(exp: dict, o: dict, expr: str, xid: str) -> str:
    if exp["k"] in ("malformed", "litorrej"):
        direction = "malformed-evaluates" if o["k"] in ("val", "unres") else "malformed-fails-late"
    elif exp["k"] == "badptr":
        direction = "invalid-pointer-yields-value"
    elif exp["k"] == "unres":
        direction = "unresolvable-yields-value" if o["k"] == "val" else "valid-rejected"
    elif o["k"] == "rejected":
        direction = "valid-rejected"
    elif o["k"] in ("unres", "error"):
        direction = "value-lost:" + o["k"]
    else:
        direction = "wrong-value"
    value_related = o["k"] == "val" and exp["k"] in ("unres", "val")
    return "C10:expr:%s:%s" % (direction, expr_class(expr, xid, value_related, exp["k"] == "badptr"))


# --------------------------------------------------------------------------------------------------
TREES: list[tuple] = []  # (tree, exchange id, expected) of the last enumeration
LINKS: list[tuple] = []  # (link shape, expected verdict)


def _enumerate(cfg: str):
    cases, statuses, exchanges = [], [], {}
    TREES.clear()
    LINKS.clear()

    def on(tag: str, c: dict) -> None:
        if tag == "CASE":
            cases.append((txt(c["e"]), c["x"], c["exp"]))
        elif tag == "TREE":
            TREES.append((c["tree"], c["x"], c["exp"]))
        elif tag == "LINK":
            LINKS.append((c["link"], c["exp"]))
        elif tag == "STATUS":
            statuses.append((c["key"], tuple(sorted(c["keys"])), sorted(c["matched"])))
        elif tag == "EXCHANGE":
            exchanges.update(c)

    res = tlc.require_ok(tlc.run_tlc("Links", cfg, workers=16, timeout=3000, on_json=on, want_prints=False), "Links enumeration")
    if len({(c[0], c[1]) for c in cases}) != len(cases) or len(cases) + len(statuses) + len(TREES) + len(LINKS) != res.distinct // 2 or not exchanges:
        raise tlc.TLCFailure("Links export incomplete: %d expression cases, %d status cases, %d states" % (len(cases), len(statuses), res.distinct))
    return res, cases, statuses, exchanges


def _judge(ctx: Ctx, records: list[dict], name: str = "obs.json"):
    f = ctx.path(name)
    tlc.write_json(f, records)
    res = tlc.require_ok(tlc.run_tlc("LinksJudge", "LinksJudge.cfg", env={"OBS_FILE": f}, timeout=2400), "LinksJudge")
    return res, {tuple(p[1:]) for p in res.prints if isinstance(p, list) and p and p[0] == "DISAGREE"}


def _expr_record(expr: str, xid: str, o: dict) -> dict:
    return {"kind": "expr", "e": cps(expr), "x": _EXCHANGES[xid], "obs": {"k": o["k"], "v": o["v"]}}


def _clean_live(r: dict) -> dict:
    return {"kind": "live", "key": r["key"], "keys": r["keys"], "x": r["x"], "body": dict(r["body"], strict=r["body"].get("strict", False)),
            "src": r.get("src", ""), "from": r.get("from", ""),
            "params": [{"expr": p["expr"], "sent": p["sent"], "text": p["text"]} for p in r["params"]]}


def run(ctx: Ctx) -> Outcome:
    out = Outcome()
    rng = random.Random(ctx.seed)
    cfg = "Links_quick.cfg" if ctx.quick else "Links_thorough.cfg"
    res, cases, statuses, exchanges = _enumerate(cfg)
    for inv in res.violated:
        out.violations.append(Violation("C10:spec:" + inv, "design invariant %s violated in Links.tla" % inv,
                                        {"kind": "spec", "invariant": inv, "trace": res.counterexample[:60]}))
    _EXCHANGES.update(exchanges)
    t1 = time.time()
    # (b) expressions through the real parser / evaluator
    obs = common.pmap(_work_expr, [(c[0], c[1]) for c in cases])
    trees = list(TREES)
    tobs = common.pmap(_work_tree, [(t[0], t[1]) for t in trees])
    shapes = list(LINKS)
    sobs = [_work_link(sh[0]) for sh in shapes]
    # (b') malformed expressions as link parameters: the state machine must refuse the schema
    malformed = sorted({c[0] for c in cases if c[2]["k"] == "malformed"})
    if ctx.quick:  # building a state machine per expression is the slowest step: quick takes a seeded third, thorough all
        malformed = sorted(common.sample(rng, malformed, 240))
    built = dict(zip(malformed, common.pmap(_work_construct, malformed)))
    # (a) status keys through the real response matcher
    matched = common.pmap(_work_status, [(s[0], s[1]) for s in statuses])
    t_replay = time.time() - t1
    # (c) live
    t2 = time.time()
    live = []
    examples = 6 if ctx.quick else 25
    import multiprocessing as mp

    jobs = [(name, fam, ctx.seed + 1, examples) for name, fam in FAMILIES.items()]
    if os.environ.get("COVERAGE_RCFILE") or os.environ.get("VERIF_SERIAL_LIVE"):  # under coverage.py forked engines may not shut down
        for job in jobs:
            live.extend(run_live(*job))
    else:
        with mp.get_context("fork").Pool(min(8, len(jobs))) as pool:  # one engine + loopback server per family, side by side
            for part in pool.starmap(run_live, jobs):
                live.extend(part)
    # (d) link.extract on one stored output: every link alone and after a different link
    extract_records = [r for name, fam in FAMILIES.items() for r in run_extract(name, fam)]
    t_live = time.time() - t2
    same_records = [r for r in extract_records if r["kind"] == "same"]
    extract_records = [r for r in extract_records if r["kind"] == "live"]
    live_records = [r for fam in live for r in fam["records"]] + extract_records

    # ---- python-side comparison
    dis_expr = [i for i, (c, o) in enumerate(zip(cases, obs)) if not agree_expr(c[2], o)]
    # a malformed expression that the parser itself accepts is reported once, under (b); here: refused by the parser, yet the link is accepted
    parse_accepts = {c[0] for c, o in zip(cases, obs) if o["k"] != "rejected"}
    dis_build = [e for e, r in built.items() if r != "rejected" and e not in parse_accepts]
    dis_status = [i for i, (s, m) in enumerate(zip(statuses, matched)) if not set(m) <= set(s[2])]
    dis_tree = [i for i, (t, o) in enumerate(zip(trees, tobs)) if not agree_expr(t[2], o)]
    dis_link = [i for i, (sh, o) in enumerate(zip(shapes, sobs)) if sh[1] not in ("U", o)]
    incomplete_status = sum(1 for s, m in zip(statuses, matched) if set(m) != set(s[2]))

    # ---- code -> spec: TLC judges all disagreements, a sample of agreeing expression observations, every status and live observation
    cap = 2500 if ctx.quick else 20000
    dset = set(dis_expr)
    chosen = common.sample(rng, dis_expr, cap) + common.sample(rng, [i for i in range(len(cases)) if i not in dset], cap)
    records = [_expr_record(cases[i][0], cases[i][1], obs[i]) for i in chosen]
    n_expr = len(records)
    records += [{"kind": "status", "key": s[0], "keys": list(s[1]), "matched": m} for s, m in zip(statuses, matched)]
    records += [{"kind": "tree", "tree": t[0], "x": _EXCHANGES[t[1]], "obs": {"k": o["k"], "v": o["v"]}} for t, o in zip(trees, tobs)]
    records += [{"kind": "link", "link": sh[0], "obs": o} for sh, o in zip(shapes, sobs)]
    n_status = len(statuses) + len(trees) + len(shapes)
    records += [_clean_live(r) for r in live_records]
    n_live = len(live_records)
    records += [{"kind": "same", "a": r["a"], "b": r["b"]} for r in same_records]
    jres, tlc_dis = _judge(ctx, records)
    py_dis = {(n, "expr", 0) for n, i in enumerate(chosen, 1) if i in dset} | {(n_expr + 1 + i, "status", 0) for i in dis_status}
    py_dis |= {(n_expr + len(statuses) + 1 + i, "tree", 0) for i in dis_tree}
    py_dis |= {(n_expr + len(statuses) + len(trees) + 1 + i, "link", 0) for i in dis_link}
    tlc_live = {d for d in tlc_dis if d[1].startswith("live")}
    base_n = n_expr + n_status
    py_dis |= {(base_n + 1 + n, what, idx) for n, r in enumerate(live_records) for what, idx in py_live_verdicts(r)}
    py_dis |= {(base_n + n_live + 1 + n, "source-changed", 0) for n, r in enumerate(same_records) if r["a"] != r["b"]}
    if tlc_dis != py_dis:
        diff = tlc_dis ^ py_dis
        raise tlc.TLCFailure("judge (TLC) and driver disagree on %d observations - machinery inconsistency: %s" % (len(diff), sorted(diff)[:5]))

    # ---- violations
    emitted: dict[str, int] = {}

    def emit(sig: str, summary: str, data: dict) -> None:
        emitted[sig] = emitted.get(sig, 0) + 1
        if emitted[sig] <= 3:
            out.violations.append(Violation(sig, summary, data))

    for i in sorted(dis_expr, key=lambda i: (len(cases[i][0]), cases[i][0])):
        e, xid, exp = cases[i]
        emit(expr_signature(exp, obs[i], e, xid), "evaluate(%r) on %s: spec %s%s, implementation %s%s" % (
            e, xid, exp["k"], " " + json.dumps(dec(exp["v"])) if exp["k"] == "val" else "", obs[i]["k"],
            " " + (json.dumps(dec(obs[i]["v"])) if obs[i]["v"]["t"] != "opaque" else "<non-JSON value>") if obs[i]["k"] == "val" else " (" + obs[i].get("exc", "") + ")"),
            {"kind": "expr", "e": e, "x": xid, "exp": exp, "exchange": exchanges[xid]})
    for e in sorted(dis_build, key=lambda e: (len(e), e)):
        emit("C10:link-construction:malformed-accepted:" + expr_class(e, "X1"),
             "a link with parameter expression %r is accepted when the state machine is built" % e, {"kind": "construct", "e": e})
    for i in dis_tree:
        tree, xid, exp = trees[i]
        o = tobs[i]
        direction = "unresolvable-yields-value" if exp["k"] == "unres" else "wrong-value" if o["k"] == "val" else "value-lost:" + o["k"]
        emit("C10:nested:%s:%s" % (direction, tree_class(tree)), "evaluate(%s, nested) on %s: spec %s%s, implementation %s%s" % (
            json.dumps(dec(tree)), xid, exp["k"], " " + json.dumps(dec(exp["v"])) if exp["k"] == "val" else "", o["k"],
            " " + json.dumps(dec(o["v"])) if o["k"] == "val" and o["v"]["t"] != "opaque" else ""),
            {"kind": "tree", "tree": tree, "x": xid, "exp": exp, "exchange": exchanges[xid]})
    for i in dis_link:
        sh, exp = shapes[i]
        emit("C10:link-construction:%s:target=%s,parameter=%s" % ("unusable-link-accepted" if exp == "rejected" else "usable-link-rejected", sh["target"],
                                                                  "explicit" if "." in sh["pname"] else "implicit"),
             "a link with target %s and parameter %r is %s when the state machine is built (spec: %s)" % (sh["target"], sh["pname"], sobs[i], exp),
             {"kind": "link", "link": sh, "exp": exp})
    for i in dis_status:
        key, keys, exp_m = statuses[i]
        extra = sorted(set(matched[i]) - set(exp_m))
        emit("C10:status:followed-from-non-matching:key=%s" % ("default" if key == "default" else "NXX" if "X" in key.upper() else "exact"),
             "link under %r (documented keys %s) is fed by statuses %s which the key does not match" % (key, list(keys), extra[:8]),
             {"kind": "status", "key": key, "keys": list(keys), "expected": exp_m})
    for d in sorted(tlc_live):
        r = live_records[d[0] - base_n - 1]
        site = r.get("site", "live") + (":" + r["position"] if r.get("position", "alone") != "alone" else "")
        if d[1] == "live-param":
            p = r["params"][d[2] - 1]
            sig = "C10:%s:param:%s:%s" % (site, r["family"], expr_class(txt(p["expr"]), ""))
            summary = "family %s link %s: parameter %s = %r arrived as %r in '%s' (source: %s -> %d)" % (
                r["family"], r["link"], p["name"], txt(p["expr"]), txt(p["text"]) if p["sent"] else None, r["derived"], txt(r["x"]["url"]), r["x"]["status"])
        elif d[1] == "live-source":
            sig = "C10:live:followed-from-another-operation:%s" % r["family"]
            summary = "family %s: link %s (declared on POST %s) was followed from a response of POST %s: '%s'" % (
                r["family"], r["link"], r["src"], r["from"], r["derived"])
        elif d[1] == "live-body":
            sig = "C10:%s:body:%s:%s" % (site, r["family"], "merge" if r["body"]["merge"] else "no-merge")
            summary = "family %s link %s: requestBody %s arrived as '%s'" % (r["family"], r["link"], json.dumps(dec(r["body"]["def"])), r["derived"])
        else:
            sig = "C10:live:status:key=%s" % ("default" if r["key"] == "default" else "NXX" if "X" in r["key"].upper() else "exact")
            summary = "family %s: link %s under key %r followed from a %d response (documented keys %s)" % (
                r["family"], r["link"], r["key"], r["x"]["status"], r["keys"])
        emit(sig, summary, {"kind": "extract" if r.get("site") == "extract" else "live", "record": _clean_live(r), "what": list(d[1:]),
                            "family": r["family"]})
    for sig, n in emitted.items():
        if n > 3:
            out.notes.append("%d further instances of %s not listed" % (n - 3, sig))
    for d in sorted(x for x in tlc_dis if x[1] == "source-changed"):
        r = same_records[d[0] - base_n - n_live - 1]
        emit("C10:derive:source-changed:%s:%s" % (r["what"].replace(" ", "-"), r["position"]),
             "family %s: after following link %s the source %s is %s (was %s)" % (r["family"], r["link"], r["what"], json.dumps(dec(r["b"]))[:200],
                                                                               json.dumps(dec(r["a"]))[:200]), {"kind": "extract", "family": r["family"]})
    for r in extract_records:
        if not r["tid_ok"]:
            emit("C10:extract:transition-of-another-link" + (":" + r["position"] if r["position"] != "alone" else ""),
                 "family %s: link %s .extract(output) returned '%s'" % (r["family"], r["link"], r["derived"]), {"kind": "extract", "family": r["family"]})
    for fam in live:
        for msg in fam["foreign"][:1]:
            emit("C10:live:transition-of-another-link", "family %s: %s" % (fam["family"], msg), {"kind": "live-foreign", "family": fam["family"]})
        for err in fam["errors"][:1]:  # with links working, the stateful phase on these families raises nothing
            emit("C10:live:engine-error:%s" % re.sub(r"\W.*", "", err), "stateful phase on family %s reported an internal error: %s" % (fam["family"], err),
                 {"kind": "live-error", "family": fam["family"]})
        if not fam["records"] and not fam["errors"]:
            raise tlc.TLCFailure("live family %s produced no link-derived request (errors: %s)" % (fam["family"], fam["errors"][:2]))

    kinds: dict[str, int] = {}
    for c in cases:
        kinds[c[2]["k"]] = kinds.get(c[2]["k"], 0) + 1
    live_keys: dict[str, int] = {}
    for r in live_records:
        live_keys["%s/%s" % (r["family"], r["key"])] = live_keys.get("%s/%s" % (r["family"], r["key"]), 0) + 1
    samples = [{"expression": cases[i][0], "exchange": cases[i][1], "spec": cases[i][2]["k"], "implementation": obs[i]["k"]}
               for i in common.sample(rng, [i for i, c in enumerate(cases) if c[2]["k"] in ("val", "malformed", "unres")], 4)]
    if live_records:
        r = live_records[0]
        samples.append({"live_family": r["family"], "link": r["link"], "source_status": r["x"]["status"], "derived_request": r["derived"],
                        "parameters": {p["name"]: [txt(p["expr"]), txt(p["text"])] for p in r["params"]}})
    out.coverage = {
        "states": res.distinct, "transitions": res.generated,
        "traces_validated_against_impl": len(records),
        "samples": samples,
        "evaluations": len(cases) + len(statuses) * 500 + len(malformed) + len(live_records) + len(trees),
        "distinct_nontrivial": len(cases) - kinds.get("U", 0) + len(statuses) + len(live_records) + len(trees),
        "expression_cases": len(cases), "expected_kinds": kinds, "skipped_outside_fragment": kinds.get("U", 0),
        "status_cases": len(statuses), "status_codes_per_case": 500, "status_key_sets_where_real_matcher_is_narrower_than_spec": incomplete_status,
        "malformed_as_link_parameter": len(malformed), "value_tree_cases": len(trees), "link_shape_cases": len(shapes),
        "extract_records": len(extract_records),
        "live": {"families": {f["family"]: {"requests": f["requests"], "link_derived": len(f["records"]), "engine_errors": len(f["errors"])} for f in live},
                 "derived_requests_by_family_and_key": live_keys},
        "rule": "Links.tla under %s: every (link key, documented key set of <=3 of 8 keys) x all statuses 100..599; every expression of "
                "the family (well-formed bare forms, both body references with every pointer of <= PtrLen tokens over 17 token shapes, "
                "embedded templates, all strings within one structural edit of the base set) x 2 exchanges; malformed ones also as a "
                "link parameter (quick: seeded sample of 240, thorough: all); every value tree (7 shapes up to depth 4 through arrays x 5 leaves^2) x 2 exchanges through nested "
                "evaluation; live: every link-derived request of the stateful phase on %d link families (incl. several links out of one "
                "response), plus link.extract of every link alone and after every other link on the same stored output; non-trivial = spec "
                "verdict is not U" % (cfg, len(FAMILIES)),
        "exhaustive": True,
        "constants": {"cfg": cfg, "live_examples_per_family": examples},
        "disagreements": {"expr": len(dis_expr), "construction": len(dis_build), "status": len(dis_status), "tree": len(dis_tree), "live": len(tlc_live)},
        "tlc_enumeration_s": round(res.wall_s, 1), "replay_s": round(t_replay, 1), "live_s": round(t_live, 1), "tlc_judge_s": round(jres.wall_s, 1),
        "judge_states": jres.distinct,
    }
    out.assumptions = [
        "harness/compat.enable_links() was used for the live runs: on the installed Hypothesis 6.168 the state machine's bundle routing hook "
        "(_add_result_to_targets) is never called, so without the shim no link would be followed at all",
        "status matching is judged as 'followed only from matching statuses' (implication); a matcher narrower than the key is counted, not reported",
        "a '$...' string without braces that is no runtime expression may be meant as a constant (OpenAPI: 'constant or expression'): not judged; "
        "'}' right after a '#...' part, '{' inside one, '$' in literal text, single '{expr}' with a non-string value, printing of non-string/int values: not judged",
        "an invalid JSON pointer may be refused or be unresolvable; an unresolvable value may surface as an evaluation error - neither is ever a value",
        "live: source exchange and derived request are taken from the loopback server's log (request as received, response as sent); the link a "
        "request was derived through is read from the recorded transition id",
    ]
    return out


def replay(ctx: Ctx, data: dict) -> Outcome:
    out = Outcome()
    kind = data.get("kind")
    if kind == "expr":
        _EXCHANGES[data["x"]] = data["exchange"]
        o = observe_expr(data["e"], data["x"])
        if not agree_expr(data["exp"], o):
            out.violations.append(Violation(expr_signature(data["exp"], o, data["e"], data["x"]),
                                            "evaluate(%r): spec %s, implementation %s" % (data["e"], data["exp"]["k"], o["k"]), data))
    elif kind == "construct":
        if _work_construct(data["e"]) != "rejected":
            out.violations.append(Violation("C10:link-construction:malformed-accepted:" + expr_class(data["e"], "X1"),
                                            "link parameter %r accepted" % data["e"], data))
    elif kind == "status":
        m = _work_status((data["key"], tuple(data["keys"])))
        if not set(m) <= set(data["expected"]):
            out.violations.append(Violation("C10:status:followed-from-non-matching:key=%s" % (
                "default" if data["key"] == "default" else "NXX" if "X" in data["key"].upper() else "exact"),
                "statuses %s" % sorted(set(m) - set(data["expected"]))[:8], data))
    elif kind == "link":
        if data["exp"] not in ("U", _work_link(data["link"])):
            out.violations.append(Violation("C10:link-construction:%s" % data["link"]["target"], "reproduced", data))
    elif kind == "tree":
        _EXCHANGES[data["x"]] = data["exchange"]
        o = observe_tree(data["tree"], data["x"])
        if not agree_expr(data["exp"], o):
            out.violations.append(Violation("C10:nested:%s:%s" % ("unresolvable-yields-value" if data["exp"]["k"] == "unres" else "wrong-value",
                                                                  tree_class(data["tree"])), "nested evaluation: implementation %s" % o["k"], data))
    elif kind in ("extract", "live-foreign"):
        fam = data["family"]
        every = run_extract(fam, FAMILIES[fam])
        recs = [r for r in every if r["kind"] == "live"]
        _, dis = _judge(ctx, [_clean_live(r) for r in recs])
        if dis or any(r["a"] != r["b"] for r in every if r["kind"] == "same") or any(not r["tid_ok"] for r in recs) or (kind == "live-foreign" and run_live(fam, FAMILIES[fam], ctx.seed + 1, 6)[0]["foreign"]):
            out.violations.append(Violation("C10:%s:%s" % (kind, fam), "reproduced", data))
    elif kind == "live-error":
        for f in run_live(data["family"], FAMILIES[data["family"]], ctx.seed + 1, 6):
            for err in f["errors"][:1]:
                out.violations.append(Violation("C10:live:engine-error:%s" % re.sub(r"\W.*", "", err), err, data))
    elif kind == "live":
        fam = data["family"]
        recs = [r for f in run_live(fam, FAMILIES[fam], ctx.seed + 1, 6) for r in f["records"]]
        _, dis = _judge(ctx, [_clean_live(r) for r in recs])
        for d in sorted(dis):
            if list(d[1:2]) == data["what"][:1]:
                out.violations.append(Violation("C10:live:%s:%s" % (d[1], fam), "reproduced on %s" % recs[d[0] - 1]["derived"], data))
                break
    return out


def selftest(ctx: Ctx) -> bool:
    """Binding: the text constants of the spec decode to what their comments say; real observations are accepted by the judge and
    each single corruption (wrong value, value for an unresolvable pointer, extra status, altered live parameter / body / status) is rejected."""
    res, cases, statuses, exchanges = _enumerate("Links_quick.cfg")
    _EXCHANGES.update(exchanges)
    fam = {c[0] for c in cases}
    ok_text = (txt(exchanges["X1"]["url"]) == "http://127.0.0.1/api/users/7?q=x&a.b=d" and "$response.body#/id" in fam
               and "ab{$response.body#/a/0/b}-{$statusCode}" in fam and "$request.header.X-Id" in fam and "$response.body#/b~1c" in fam)
    by = {(c[0], c[1]): c[2] for c in cases}
    good1 = ("$response.body#/a/0/b", "X1")
    good2 = ("$response.body#/a/2", "X1")
    ok_spec = by[good1] == {"k": "val", "v": enc("x")} and by[good2]["k"] == "unres" and by[("{$response.body#/id", "X1")]["k"] == "malformed" \
        and by[("$response.body#/~01", "X1")] == {"k": "val", "v": enc(3)}
    o1, o2 = observe_expr(*good1), observe_expr(*good2)
    s = next(s for s in statuses if s[0] == "default" and s[1] == ("2XX", "404", "default"))
    live = run_live("ref-target-body", FAMILIES["ref-target-body"], 1, 3)[0]["records"]
    if not live:
        print("selftest: no live record")
        return False
    lr = _clean_live(live[0])
    bad_param = copy.deepcopy(lr)
    bad_param["params"][0]["text"] = cps("999")
    bad_body = copy.deepcopy(lr)
    bad_body["body"]["sent"]["a"][bad_body["body"]["sent"]["k"].index(cps("tag"))] = enc("other")
    bad_status = copy.deepcopy(lr)
    bad_status["x"]["status"] = 404
    records = [
        _expr_record(*good1, o1), _expr_record(*good1, {"k": "val", "v": enc("y")}),
        _expr_record(*good2, o2), _expr_record(*good2, {"k": "val", "v": enc("y")}),
        {"kind": "status", "key": s[0], "keys": list(s[1]), "matched": s[2]},
        {"kind": "status", "key": s[0], "keys": list(s[1]), "matched": s[2] + [204]},
        lr, bad_param, bad_body, bad_status,
    ]
    _, dis = _judge(ctx, records, "selftest.json")
    if {(7 + n, w, i) for n, r in enumerate([lr, bad_param, bad_body, bad_status]) for w, i in py_live_verdicts(r)} != {d for d in dis if d[0] >= 7}:
        print("selftest: driver and judge disagree on live records")
        return False
    want = {(2, "expr", 0), (4, "expr", 0), (6, "status", 0), (8, "live-param", 1), (9, "live-body", 0), (10, "live-status", 0)}
    if not (ok_text and ok_spec and dis == want):
        print("selftest: text", ok_text, "spec", ok_spec, "judge", sorted(dis))
    return ok_text and ok_spec and dis == want


def main(argv=None) -> int:
    return common.main("C10", run, replay, selftest, argv)
