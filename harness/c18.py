"""C18 - resource-lifecycle findings follow from the observed history.

spec/Lifecycle.tla enumerates scenario trees (TLC), each is replayed into the real ScenarioRecorder / CheckContext /
use_after_free / ensure_resource_availability, and the observations are judged by spec/LifecycleJudge.tla.
"""
from __future__ import annotations

import json
import random
import time

from . import common, tlc
from .common import Ctx, Outcome, Violation

RAW = {
    "openapi": "3.0.2",
    "info": {"title": "t", "version": "1"},
    "paths": {
        "/users": {"post": {"responses": {"201": {"description": "ok"}}}},
        "/users/{id}": {
            "parameters": [{"name": "id", "in": "path", "required": True, "schema": {"type": "string"}}],
            "get": {"responses": {"200": {"description": "ok"}}},
            "delete": {"responses": {"204": {"description": "ok"}}},
        },
        "/users/{id}/posts": {
            "parameters": [{"name": "id", "in": "path", "required": True, "schema": {"type": "string"}}],
            "get": {"parameters": [{"name": "expand", "in": "query", "required": False, "schema": {"type": "string"}}],
                    "responses": {"200": {"description": "ok"}}},
            "post": {"responses": {"201": {"description": "ok"}}},
        },
        "/orders/{id}": {
            "parameters": [{"name": "id", "in": "path", "required": True, "schema": {"type": "string"}}],
            "get": {"responses": {"200": {"description": "ok"}}},
            "delete": {"responses": {"204": {"description": "ok"}}},
        },
    },
}
KIND = {
    "POST users": ("/users", "POST"),
    "GET user": ("/users/{id}", "GET"),
    "DELETE user": ("/users/{id}", "DELETE"),
    "GET user posts": ("/users/{id}/posts", "GET"),
    "POST user posts": ("/users/{id}/posts", "POST"),
    "DELETE order": ("/orders/{id}", "DELETE"),
    "GET order": ("/orders/{id}", "GET"),
}
_state: dict = {}


def _setup() -> dict:
    if not _state:
        import requests
        import schemathesis
        from schemathesis.checks import CheckContext
        from schemathesis.core.transport import Response
        from schemathesis.engine.recorder import ScenarioRecorder
        from schemathesis.generation import GenerationMode
        from schemathesis.generation.meta import CaseMetadata, ComponentInfo, ComponentKind, GenerationInfo, PhaseInfo
        from schemathesis.generation.stateful.state_machine import Transition
        from schemathesis.specs.openapi.checks import ensure_resource_availability, use_after_free

        _state.update(
            schema=schemathesis.openapi.from_dict(RAW),
            req=requests.Request("GET", "http://127.0.0.1/").prepare(),
            Response=Response, Recorder=ScenarioRecorder, CheckContext=CheckContext, Transition=Transition,
            uaf=use_after_free, rna=ensure_resource_availability,
            gen_meta=lambda kinds=("path",): CaseMetadata(
                generation=GenerationInfo(time=0.0, mode=GenerationMode.POSITIVE),
                components={{"path": ComponentKind.PATH_PARAMETERS, "query": ComponentKind.QUERY}[k]: ComponentInfo(mode=GenerationMode.POSITIVE)
                            for k in kinds},
                phase=PhaseInfo.generate(),
            ),
        )
    return _state


def observe(tree: list[dict], link: bool, extra: bool = False, rep: str = "str") -> tuple[bool, bool]:
    """Build the real recorder for `tree` and run both checks on its last node. Returns (uaf reported, rna reported).
    rep = how identifier values are held by the Case objects: all strings (generated values), all ints (values a link took from a
    JSON body), or alternating - the same identifier on the wire either way, so the expectation does not depend on it."""
    st = _setup()
    s = st["schema"]
    rec = st["Recorder"](label="x")
    cases = []
    last = None
    for i, n in enumerate(tree):
        path, method = KIND[n["kind"]]
        as_int = rep == "int" or (rep == "alt" and i % 2 == 0)
        kw = {} if n["kind"] == "POST users" else {"path_parameters": {"id": n["id"] if as_int else str(n["id"])}}
        if i == len(tree) - 1 and not link and kw:
            kw["meta"] = st["gen_meta"]()  # path parameters were generated, nothing overridden by a link
        if i == len(tree) - 1 and n["kind"] == "GET user posts":
            # the link supplies the path parameter only; the optional query parameter is either omitted (the link-derived case was
            # built with an explicit empty query) or filled in by the generator (extra)
            kw["query"] = {"expand": "1"} if extra else {}
            if extra:
                kw["meta"] = st["gen_meta"](("query",) if link else ("path", "query"))
        case = s[path][method].Case(**kw)
        cases.append(case)
        if n["parent"] == 0:
            rec.record_case(parent_id=None, transition=None, case=case)
        else:
            pid = cases[n["parent"] - 1].id
            rec.record_case(
                parent_id=pid,
                transition=st["Transition"](id="l", parent_id=pid, parameters={}, request_body=None),
                case=case,
            )
        last = st["Response"](status_code=n["status"], headers={}, content=b"", request=st["req"], elapsed=0.0, verify=False)
        rec.record_response(case_id=case.id, response=last)
    ctx = st["CheckContext"](override=None, auth=None, headers=None, config={}, transport_kwargs=None, recorder=rec)
    out = []
    for chk in (st["uaf"], st["rna"]):
        try:
            chk(ctx, last, cases[-1])
            out.append(False)
        except AssertionError:
            out.append(True)
    return out[0], out[1]


def _work(case: dict) -> tuple[bool, bool]:
    return observe(case["tree"], case["link"], case.get("extra", False))


def _work_rep(item: tuple) -> tuple[bool, bool]:
    case, rep = item
    return observe(case["tree"], case["link"], case.get("extra", False), rep)


def _short(tree: list[dict], link: bool) -> str:
    return " -> ".join("%s#%s:%s^%s" % (n["kind"], n["id"], n["status"], n["parent"]) for n in tree) + (
        "" if link else " [generated params]")


def _status_class(s: int) -> str:
    return "2xx" if 200 <= s < 300 else "3xx" if s < 400 else "404" if s == 404 else "4xx" if s < 500 else "5xx"


def signature(case: dict, which: str, direction: str) -> str:
    """Tree reduced to what the verdict depends on: for the checked node its status class; whether some DELETE of the
    same resource exists, whether it succeeded, whether its parent's response was 2xx (the thing the defective code looked at)."""
    tree = case["tree"]
    n = tree[-1]
    feats = []
    if which == "uaf":
        dels = [d for d in tree[:-1] if KIND[d["kind"]][1] == "DELETE"]
        own_ok = any(200 <= d["status"] < 300 for d in dels)
        parent_ok = any(d["parent"] and 200 <= tree[d["parent"] - 1]["status"] < 300 for d in dels)
        root_del = any(d["parent"] == 0 and 200 <= d["status"] < 300 for d in dels)
        feats = ["delete-ok" if own_ok else "delete-failed", "delete-parent-2xx" if parent_ok else "delete-parent-not-2xx"]
        if root_del:
            feats.append("root-delete")
    else:
        feats = ["status-" + _status_class(n["status"]), "link" if case["link"] else "generated"] + (["extra-generated-optional"] if case.get("extra") else [])
    if case.get("rep", "str") != "str":
        feats.append("identifiers-held-as-" + case["rep"])
    return "C18:%s:%s:%s" % (which, direction, "+".join(feats))


def run(ctx: Ctx) -> Outcome:
    out = Outcome()
    rng = random.Random(ctx.seed)
    cfg = "Lifecycle_quick.cfg" if ctx.quick else "Lifecycle_thorough.cfg"
    cases: list[dict] = []
    res = tlc.require_ok(
        tlc.run_tlc("Lifecycle", cfg, workers=1, timeout=3000, on_json=lambda tag, d: cases.append(d), want_prints=False),
        "Lifecycle enumeration",
    )
    # deeper forests over a smaller alphabet (4 nodes; thorough: full status set on every node): shapes where the deleted resource hangs under an
    # intermediate node, chains of depth 4, several trees in one scenario
    deep_cfg = "Lifecycle_quick4.cfg" if ctx.quick else "Lifecycle_thorough5.cfg"
    seen_keys = {json.dumps(c, sort_keys=True) for c in cases} if not ctx.quick else set()
    deep: list[dict] = []
    res2 = tlc.require_ok(
        tlc.run_tlc("Lifecycle", deep_cfg, workers=1, timeout=3000, on_json=lambda tag, d: deep.append(d), want_prints=False),
        "Lifecycle deep enumeration",
    )
    n3 = 3
    cases += [c for c in deep if len(c["tree"]) > n3]
    res.distinct += res2.distinct
    res.generated += res2.generated
    for inv in res2.violated:
        res.violated.append(inv)
    if res.violated:
        for inv in res.violated:
            out.violations.append(Violation("C18:spec:" + inv, "design invariant %s violated in Lifecycle.tla" % inv,
                                            {"kind": "spec", "invariant": inv, "trace": res.counterexample[:60]}))
    t1 = time.time()
    obs = common.pmap(_work, cases)
    t_replay = time.time() - t1
    dis = []
    nontrivial = 0
    for c, (u, r) in zip(cases, obs):
        if c["uaf"] or c["rna"] or u or r:
            nontrivial += 1
        if u != c["uaf"]:
            dis.append((c, "uaf", "unsound" if u else "incomplete", u, r))
        if r and not c["rna"]:
            dis.append((c, "rna", "unsound", u, r))
    # the same forests with the identifiers held as ints / alternating int and str by the Case objects (every forest in which the spec
    # or the implementation reports something, plus a sample of the silent ones): the verdicts must not move
    loud = [c for c, (u, r) in zip(cases, obs) if c["uaf"] or u or r]
    quiet = [c for c, (u, r) in zip(cases, obs) if not (c["uaf"] or u or r)]
    rep_items = [(c, rep) for rep in ("int", "alt") for c in common.sample(rng, loud, 15000 if ctx.quick else 100000) + common.sample(rng, quiet, 5000 if ctx.quick else 50000)]
    rep_obs = common.pmap(_work_rep, rep_items)
    rep_dis = 0
    for (c, rep), (u, r) in zip(rep_items, rep_obs):
        if u != c["uaf"]:
            rep_dis += 1
            dis.append((dict(c, rep=rep), "uaf", "unsound" if u else "incomplete", u, r))
        if r and not c["rna"]:
            rep_dis += 1
            dis.append((dict(c, rep=rep), "rna", "unsound", u, r))
    # code -> spec: TLC re-judges every disagreement plus a random sample of agreeing observations
    idx_dis = {id(d[0]) for d in dis}
    pool = [(c, o) for c, o in zip(cases, obs) if id(c) not in idx_dis]
    k = 20000 if ctx.quick else 100000
    judged = [(d[0], (d[3], d[4])) for d in dis][:20000] + common.sample(rng, pool, k)
    obs_file = ctx.path("obs.json")
    tlc.write_json(obs_file, [{"tree": c["tree"], "link": c["link"], "extra": c.get("extra", False), "obsUaf": o[0], "obsRna": o[1]} for c, o in judged])
    jres = tlc.require_ok(tlc.run_tlc("LifecycleJudge", "LifecycleJudge.cfg", env={"OBS_FILE": obs_file}, timeout=1800, workers=1), "judge")
    tlc_dis = {(p[1], p[2]) for p in jres.prints if isinstance(p, list) and p and p[0] == "DISAGREE"}
    py_dis = set()
    for i, (c, o) in enumerate(judged, 1):
        if o[0] != c["uaf"]:
            py_dis.add((i, "uaf"))
        if o[1] and not c["rna"]:
            py_dis.add((i, "rna"))
    if tlc_dis != py_dis:
        raise tlc.TLCFailure("judge (TLC) and exporter disagree on %d observations - machinery inconsistency: %s" % (
            len(tlc_dis ^ py_dis), sorted(tlc_dis ^ py_dis)[:5]))
    for c, which, direction, u, r in dis:
        out.violations.append(Violation(
            signature(c, which, direction),
            "%s %s: spec=%s impl=%s for %s" % (which, direction, c[which], u if which == "uaf" else r, _short(c["tree"], c["link"])),
            {"tree": c["tree"], "link": c["link"], "extra": c.get("extra", False), "rep": c.get("rep", "str"),
             "expected": {"uaf": c["uaf"], "rna_allowed": c["rna"]}},
        ))
    out.coverage = {
        "states": res.distinct,
        "transitions": res.generated,
        "traces_validated_against_impl": len(judged),
        "samples": [{"tree": c["tree"], "link": c["link"], "spec": {"uaf": c["uaf"], "rna_allowed": c["rna"]},
                     "impl": {"uaf": o[0], "rna": o[1]}} for c, o in common.sample(rng, [x for x in zip(cases, obs) if x[0]["uaf"] or x[1][1]] or list(zip(cases, obs)), 5)],
        "evaluations": len(cases),
        "distinct_nontrivial": nontrivial,
        "rule": "every scenario forest reachable in Lifecycle.tla under %s (TLC-enumerated, each replayed once into the real "
                "recorder + both checks); non-trivial = spec or implementation reports a finding for the last node" % cfg,
        "exhaustive": True,
        "constants": {"cfg": [cfg, deep_cfg], "kinds": sorted(KIND), "ids": [1, 11]},
        "disagreements": len(dis), "identifier_representation_runs": len(rep_items), "identifier_representation_disagreements": rep_dis,
        "tlc_enumeration_s": round(res.wall_s, 1), "replay_s": round(t_replay, 1), "tlc_judge_s": round(jres.wall_s, 1),
        "judge_states": jres.distinct,
    }
    out.assumptions = [
        "hand-built Case/Response/Transition objects are what the stateful runner records",
        "the checked node is the most recent one, so every other node of its tree is 'earlier'",
        "singular/plural fuzzy matching of literal path segments is outside the modelled fragment (all literals equal or unrelated)",
    ]
    return out


def replay(ctx: Ctx, data: dict) -> Outcome:
    out = Outcome()
    if data.get("kind") == "spec":
        return out
    u, r = observe(data["tree"], data["link"], data.get("extra", False), data.get("rep", "str"))
    exp = data["expected"]
    c = {"tree": data["tree"], "link": data["link"], "rep": data.get("rep", "str")}
    if u != exp["uaf"]:
        out.violations.append(Violation(signature(c, "uaf", "unsound" if u else "incomplete"), "uaf impl=%s spec=%s" % (u, exp["uaf"]), data))
    if r and not exp["rna_allowed"]:
        out.violations.append(Violation(signature(c, "rna", "unsound"), "rna reported but not allowed", data))
    return out


def selftest(ctx: Ctx) -> bool:
    """Binding: a corrupted observation must be rejected by the TLA+ judge."""
    tree = [{"kind": "POST users", "id": 1, "status": 201, "parent": 0},
            {"kind": "DELETE user", "id": 1, "status": 204, "parent": 1},
            {"kind": "GET user", "id": 1, "status": 200, "parent": 2}]
    good = {"tree": tree, "link": True, "extra": False, "obsUaf": True, "obsRna": False}
    bad = dict(good, obsUaf=False)
    f = ctx.path("obs.json")
    tlc.write_json(f, [good, bad])
    r = tlc.require_ok(tlc.run_tlc("LifecycleJudge", "LifecycleJudge.cfg", env={"OBS_FILE": f}), "selftest")
    dis = [p for p in r.prints if isinstance(p, list) and p and p[0] == "DISAGREE"]
    return dis == [["DISAGREE", 2, "uaf", "incomplete"]]


def main(argv=None) -> int:
    return common.main("C18", run, replay, selftest, argv)
