"""Shared machinery of the engine checks C05 / C11 / C12.

design model:  spec/Engine.tla (TLC, exhaustive, small constants)              -> does the design admit a bad state?
family:        spec/EngineFamily.tla (TLC enumerates abstract run descriptors) -> which runs exist
spec -> code:  every sampled descriptor (x every disturbance position) is executed by the REAL engine (engine_driver.run_one)
code -> spec:  every recorded run is validated line by line by spec/EngineStream.tla (EventProtocol automaton + accounting)
"""
from __future__ import annotations

import random
import time

from . import common, tlc
from .common import Ctx, Outcome, Violation

CLAUSE_OWNER = {"C05": "C05", "C11": "C11", "C12": "C12"}
OLD_DESIGNS = [("Engine_olddrain.cfg", "NoProblemLost"), ("Engine_oldworkererr.cfg", "NoProblemLost"),
               ("Stateful_olddrain.cfg", "ProtocolOK"), ("Stateful_oldctrlc.cfg", "ProtocolOK"), ("Stateful_olddrainexec.cfg", "ProtocolOK"),
               ("Stateful_oldsetup.cfg", "AtMostOneScenarioAfterStop"), ("Stateful_oldworst.cfg", "ProtocolOK"),
               ("Stateful_mf_error.cfg", "FailureLimit"),
               ("Engine_live_noalive.cfg", "Termination"), ("Stateful_live_noalive.cfg", "Termination")]


def _norm(d: dict) -> dict:
    out = dict(d)
    out["links"] = False if d.get("links") in ("none", False, None) else d["links"]
    return out


def load_family() -> tuple[list[dict], tlc.TLCResult]:
    fam: list[dict] = []
    res = tlc.require_ok(tlc.run_tlc("EngineFamily", "EngineFamily.cfg", workers=1, on_json=lambda tag, d: fam.append(d),
                                     want_prints=False, timeout=600), "EngineFamily enumeration")
    fam.sort(key=lambda d: repr(sorted(d.items())))
    return fam, res


def _run(desc: dict) -> dict:
    from .engine_driver import run_one

    try:
        return run_one(desc)
    except BaseException as exc:  # machinery problem inside a worker process: surfaced by the caller
        return {"hdr": None, "lines": [], "desc": desc, "machinery": repr(exc)}


def n_events(run: dict) -> int:
    return sum(1 for ln in run["lines"] if ln["e"] == "Y")


def judge(ctx: Ctx, runs: list[dict], tag: str) -> tuple[dict[int, list[tuple[int, str]]], set[int], tlc.TLCResult]:
    """Validate runs with EngineStream.tla. Returns ({run index: [(first line, clause), ...]} - one entry per violated clause -,
    accepted set, result)."""
    path = ctx.path("runs_%s.json" % tag)
    tlc.write_json(path, [{"hdr": r["hdr"], "lines": r["lines"]} for r in runs])
    res = tlc.require_ok(tlc.run_tlc("EngineStream", "EngineStream.cfg", env={"OBS_FILE": path}, timeout=1800, heap="8g", workers=1),
                         "EngineStream validation")
    rejected: dict[int, list[tuple[int, str]]] = {}
    accepted: set[int] = set()
    first: dict[tuple[int, str], int] = {}
    for p in res.prints:
        if not isinstance(p, list) or not p:
            continue
        if p[0] == "REJECT":
            i, line, clause = p[1] - 1, p[2], p[3]
            key = (i, clause.split(":")[0] if clause.startswith("C11 ProtocolOK") else clause)
            if key not in first or line < first[key]:
                first[key] = line
                rejected.setdefault(i, [])
                rejected[i] = [x for x in rejected[i] if (x[1].split(":")[0] if x[1].startswith("C11 ProtocolOK") else x[1]) != key[1]] + [(line, clause)]
        elif p[0] == "ACCEPT":
            accepted.add(p[1] - 1)
    accepted -= set(rejected)
    missing = set(range(len(runs))) - accepted - set(rejected)
    if missing:
        raise tlc.TLCFailure("EngineStream produced no verdict for runs %s" % sorted(missing)[:5])
    return rejected, accepted, res


def _run_cli(desc: dict) -> dict:
    from .engine_driver import run_cli

    try:
        return run_cli(desc)
    except BaseException as exc:
        return {"hdr": None, "lines": [], "desc": desc, "machinery": repr(exc)}


def variant_of(desc: dict) -> str:
    if desc.get("cli"):
        return "cli" + ("+handler-fault" if desc.get("handler_fault") else "")
    if "env_stop" in desc:
        return "forced-schedule" + ("+fault" if desc.get("fault") else "") + ("+stop" if desc.get("env_stop") else "")
    if desc.get("fault"):
        return "fault:%s:%s" % (desc["fault"]["site"], desc["fault"]["exc"])
    if desc.get("stop_at"):
        return "stop"
    if desc.get("ctrlc_at") or desc.get("ctrlc_empty_at"):
        return "ctrlc"
    return "plain"


def signature(pid: str, clause: str, run: dict, line: int) -> str:
    d = run["desc"]
    ph = 0
    if 0 < line <= len(run["lines"]):
        ph = run["lines"][line - 1].get("ph", 0)
    fault_lines = [ln for ln in run["lines"] if ln["e"] == "FAULT"]
    if fault_lines:      # a clause evaluated at the end of the run is attributed to the phase in which the fault fired
        ph = fault_lines[0].get("ph", ph)
    phase = {0: "none", 1: "probing", 2: "unit", 3: "unit", 4: "unit", 5: "stateful"}.get(ph, "none")
    head = clause.split(":")[0]
    detail = clause.split(": ", 1)[1] if ": " in clause else ""
    var = variant_of(d)
    if phase == "stateful":
        if var.startswith("fault:"):
            var = "fault:" + var.split(":")[2]      # one state-machine thread: the site inside a step does not matter
        feats = [var, "phase=stateful"]
    else:
        feats = [var, "phase=" + phase, "workers>1" if d.get("workers", 1) > 1 else "workers=1"]
    if d.get("max_failures"):
        feats.append("maxfail")
    return "%s:%s%s:%s" % (pid, head.replace(" ", "-"), ("(" + detail + ")") if detail else "", "+".join(feats))


def expand(ctx: Ctx, pid: str, fam: list[dict], rng: random.Random) -> tuple[list[dict], list[dict]]:
    """Choose base descriptors (stratified, seeded) and return (plain runs to execute first, recipe for variants)."""
    quick = ctx.quick
    def pick(pred, k, shaped=False):
        pool = [d for d in fam if pred(d) and (shaped or d["shape"] == "plain")]   # the other document shapes are picked explicitly
        return common.sample(rng, pool, k)

    if pid == "C11":
        nb = 10 if quick else 60
        bases = (pick(lambda d: d["phases"] == ["coverage", "fuzzing"] and d["workers"] >= 2, nb // 3 + 1)
                 + pick(lambda d: "stateful" in d["phases"] and len(d["phases"]) == 2 and d["links"] != "none", nb // 3 + 1)
                 + pick(lambda d: len(d["phases"]) == 4, nb // 5 + 1)
                 + pick(lambda d: d["phases"][0] == "probing", nb // 5 + 1)
                 + pick(lambda d: d["phases"] == ["stateful"] and d["links"] != "none", nb // 5 + 1)
                 + pick(lambda d: "stateful" in d["phases"] and d["links"] == "none", 2 if quick else 8))     # stateful selected, API without links
        # quick: a seeded sample of the stop / Ctrl-C positions of every base run; thorough: every position
        recipe = {"stop": 14 if quick else "all", "ctrlc": 9 if quick else "all", "faults": 2 if quick else 6}
        # user code that raises after a scenario was closed (a target metric Hypothesis rejects): the stream stays well-formed
        bases = bases + [{"ops": ["ok"], "links": lk, "phases": ph, "workers": 1, "max_failures": 0, "cof": False, "unique": False,
                          "nan_target": True} for lk, ph in (("ok", ["stateful"]), ("bad", ["stateful"]), ("ok", ["fuzzing", "stateful"]))]
        # transient internal errors inside stateful steps (status consistency between scenario, suite and phase)
        bases = bases + [{"ops": ["ok"], "links": lk, "phases": ["stateful"], "workers": 1, "max_failures": 0, "cof": False,
                          "unique": False, "mf_fault": occ} for lk in ("ok", "bad") for occ in ((1, 2, 3) if quick else (1, 2, 3, 4, 5, 6, 8))]
    elif pid == "C05":
        nb = 36 if quick else 160
        bases = (pick(lambda d: any(b in ("bad", "neterr", "invalid", "weird") for b in d["ops"]) and d["max_failures"] == 0, nb // 2)
                 + pick(lambda d: any(b == "weird" for b in d["ops"]), nb // 8 + 1)
                 + pick(lambda d: d["max_failures"] > 0 and d["workers"] >= 2 and any(b == "bad" for b in d["ops"])
                        and d["phases"] in (["fuzzing"], ["coverage", "fuzzing"]), nb // 6 + 1)
                 + pick(lambda d: d["links"] == "bad", nb // 6 + 1)
                 + pick(lambda d: all(b == "ok" for b in d["ops"]) and d["links"] != "bad", nb // 6 + 1)
                 + pick(lambda d: any(b == "badif" for b in d["ops"]), nb // 6 + 1)
                 # requests equal up to the method under unique-inputs; failures that belong to a request a check derived
                 + pick(lambda d: d["shape"] == "twin" and d["unique"] and all(b == "ok" for b in d["ops"]), nb // 9 + 1, shaped=True)
                 + pick(lambda d: d["shape"] == "twin" and not d["unique"], 2 if quick else 6, shaped=True)
                 + pick(lambda d: d["shape"] == "authprobe" and all(b in ("ok", "badif") for b in d["ops"]), nb // 9 + 1, shaped=True))
        recipe = {"stop": 0, "ctrlc": 0, "faults": 7 if quick else 16}
    else:  # C12
        nb = 60 if quick else 250
        bases = (pick(lambda d: d["max_failures"] > 0 and any(b in ("bad", "neterr") for b in d["ops"]), nb // 3)
                 + pick(lambda d: d["unique"], nb // 4)
                 + pick(lambda d: d["max_failures"] == 0 and all(b in ("ok", "badif") for b in d["ops"]), nb // 4)
                 + pick(lambda d: "stateful" in d["phases"] and d["links"] != "none", nb // 6 + 1))
        # stateful-only bases are cheap and the "scenario announced after the stop" class needs the stop to land right before a
        # scenario without steps: every stop position is tried for them
        recipe = {"stop": 6 if quick else 25, "ctrlc": 0, "faults": 0, "stateful_stop_all": True}
        # rate limit: a few runs long enough to overflow one window, several worker counts
        rate_bases = [{"ops": ["ok", "ok", "ok"], "links": "none", "phases": ["coverage", "fuzzing"], "workers": w, "max_failures": 0,
                       "cof": False, "unique": False, "rate": r} for w, r in ([(1, 15), (3, 15)] if quick else [(1, 10), (2, 20), (3, 15), (4, 30), (4, 10)])]
        bases = bases + rate_bases
        # an explicit max_examples equal to Hypothesis' built-in default while a profile with a larger value is active
        bases = bases + [{"ops": ["ok"], "links": "none", "phases": ["fuzzing"], "workers": 1, "max_failures": 0, "cof": False,
                          "unique": False, "profile_max": 130}]
        # Ctrl-C at the consumer of the stateful phase (a stop request like EventStream.stop)
        bases = bases + [{"ops": ["ok"], "links": lk, "phases": ["stateful"], "workers": 1, "max_failures": 0, "cof": False,
                          "unique": False, "ctrlc_positions": True} for lk in ("ok", "bad")]
        # a step whose answer fails two checks at once: the failure counter jumps over the limit within one step
        bases = bases + [{"ops": ["ok"], "links": "bad", "phases": ["stateful"], "workers": 1, "max_failures": mf, "cof": False,
                          "unique": False, "two_checks": True} for mf in ((1, 2) if quick else (1, 2, 3))]
        bases = bases + [{"ops": ["bad", "ok"], "links": "none", "phases": ["fuzzing"], "workers": w, "max_failures": 1, "cof": False,
                          "unique": False, "two_checks": True} for w in (1, 2)]
        # stateful phase + --max-failures + a transient internal error (errored scenarios vs. the limit)
        bases = bases + [{"ops": ["ok"], "links": "bad", "phases": ["stateful"], "workers": 1, "max_failures": 1, "cof": False,
                          "unique": False, "mf_fault": occ} for occ in ((1, 2) if quick else (1, 2, 3, 4, 6))]
    plain = []
    for i, b in enumerate(bases):
        d = _norm(b)
        d["seed"] = ctx.seed * 1000 + i + 1
        d["max_examples"] = rng.choice([1, 2, 3, 5]) if pid == "C12" else 3
        if d.get("rate"):
            d["max_examples"] = 8
        d["step_count"] = rng.choice([2, 3, 6]) if pid == "C12" else 3
        d["params"] = rng.random() < 0.5
        if d.get("profile_max"):
            d["max_examples"] = 100
            d["params"] = True
        plain.append(d)
    return plain, [recipe] * len(plain)


FAULT_SITES_UNIT = ["builder.create_test", "unit.worker.case", "unit.worker.send", "checks.run"]
FAULT_EXC = ["Exception", "ConnectionError", "AssertionError"]


def variants(base: dict, ref: dict, recipe: dict, rng: random.Random) -> list[dict]:
    out = []
    nev = n_events(ref)
    stops = list(range(1, nev))  # stopping after the last event is a no-op
    if base.get("rate") or base.get("profile_max") or base.get("nan_target"):
        return []      # (user code raising in teardown is run undisturbed: combined with a stop request it is outside the modelled fragment)
    if base.get("ctrlc_positions"):
        return [dict(base, ctrlc_at=k) for k in (2, 4, 6, 9, 13, 18)]
    if base.get("mf_fault"):
        return [dict(base, fault={"site": "checks.run", "occ": base["mf_fault"], "exc": "Exception"}, max_examples=6)]
    if recipe.get("stateful_stop_all") and base["phases"] == ["stateful"]:
        stops = stops[:60]
    elif recipe["stop"] != "all":
        stops = common.sample(rng, stops, recipe["stop"])
    for k in stops:
        out.append(dict(base, stop_at=k))
    if recipe["ctrlc"]:
        ngets = max(1, nev - 12)  # consumer gets are fewer than yields; positions past the end simply never fire
        positions = list(range(1, min(ngets, 25) + 1))
        if recipe["ctrlc"] != "all":
            positions = sorted(common.sample(rng, positions, recipe["ctrlc"]))
        out += [dict(base, ctrlc_at=k) for k in positions]
        out += [dict(base, ctrlc_empty_at=k) for k in (1, 2, 4)]      # Ctrl-C during the consumer's idle poll
    if recipe["faults"]:
        sites = list(FAULT_SITES_UNIT)   # checks.run also fires inside the stateful phase
        combos = [(s, o, e) for s in sites for o in (1, 2, 4) for e in FAULT_EXC
                  if not (e == "ConnectionError" and s != "unit.worker.send")]
        for s, o, e in common.sample(rng, combos, recipe["faults"]):
            out.append(dict(base, fault={"site": s, "occ": o, "exc": e}))
    return out


def _run_sched(item: dict) -> dict:
    from . import sched
    from .engine_driver import StaleReadAttack, run_one

    try:
        if item.get("attack"):
            ctrl = StaleReadAttack(item["attack"])
            run = run_one(item["desc"], controller=ctrl)
            run["origin"] = item["origin"]
            run["hdr"]["followed"] = ctrl.held
            return run
        ctrl = sched.Scheduler([tuple(x) for x in item["steps"]], fault=item["desc"].get("fault"))
        run = run_one(item["desc"], controller=ctrl)
        run["origin"] = item["origin"]
        return run
    except BaseException as exc:
        return {"hdr": None, "lines": [], "desc": item["desc"], "machinery": repr(exc)}


def schedule_items(ctx: Ctx, n_sim: int) -> tuple[list[dict], dict]:
    """Behaviours of Engine.tla -> forced schedules: counterexamples of the old (defective) designs + simulated behaviours."""
    import glob
    import os

    from . import sched

    items: list[dict] = []
    info: dict = {"attack_schedules": 0, "simulated": 0}
    # (a) attack schedules: what TLC finds when the spec is switched back to the old design of the code
    for cfg, nops in (("Engine_olddrain.cfg", 2),):
        res = tlc.require_ok(tlc.run_tlc("Engine", cfg, timeout=600), "old design " + cfg)
        if not res.violated:
            raise tlc.TLCFailure("%s: the old design is expected to violate the property in the model" % cfg)
        beh = sched.parse_counterexample(res.counterexample)
        steps, more = sched.skeleton(beh, nops)
        items.append({"steps": steps, "origin": "counterexample:" + cfg,
                      "desc": {"ops": more["ops"], "links": False, "phases": ["fuzzing"], "workers": 2, "max_examples": 1, "seed": 1,
                               "max_failures": 0, "fault": more["fault"], "env_stop": more["stopped"]}})
        info["attack_schedules"] += 1
    for cfg in ("Stateful_olddrain.cfg", "Stateful_oldctrlc.cfg", "Stateful_olddrainexec.cfg"):
        res = tlc.require_ok(tlc.run_tlc("Stateful", cfg, timeout=600), "old design " + cfg)
        if not res.violated:
            raise tlc.TLCFailure("%s: the old design is expected to violate the property in the model" % cfg)
        beh = sched.parse_counterexample(res.counterexample)
        steps, more = sched.skeleton_stateful(beh)
        for links in ("bad", "ok"):
            items.append({"steps": steps, "origin": "counterexample:" + cfg,
                          "desc": {"ops": ["ok"], "links": links, "phases": ["stateful"], "workers": 1, "max_examples": 3, "seed": 1,
                                   "max_failures": 0, "fault": None, "env_stop": more["stopped"]}})
            info["attack_schedules"] += 1
    # (a') stale-read attacks on the consumer's exit decision (see engine_driver.StaleReadAttack)
    for mode in ("empty-exception", "empty-call"):
        for desc in ({"ops": ["bad"], "links": False, "phases": ["fuzzing"], "workers": 1},
                     {"ops": ["bad", "ok"], "links": False, "phases": ["coverage", "fuzzing"], "workers": 2},
                     {"ops": ["ok"], "links": "bad", "phases": ["stateful"], "workers": 1}):
            items.append({"attack": mode, "steps": [], "origin": "stale-read:" + mode,
                          "desc": dict(desc, max_examples=2, seed=1, max_failures=0, fault=None, env_stop=False, params=True)})
            info["attack_schedules"] += 1
    # (b) simulated behaviours of the current design
    for cfg, mf in (("Engine_sim.cfg", 0), ("Engine_sim_mf.cfg", 1)):
        d = ctx.path("sim_" + cfg)
        os.makedirs(d, exist_ok=True)
        tlc.require_ok(tlc.run_tlc("Engine", cfg, workers=1, simulate="file=%s/tr,num=%d" % (d, n_sim // 2), depth=90, seed=ctx.seed + 11,
                                   timeout=600, want_prints=False), "simulation " + cfg)
        for f in sorted(glob.glob(d + "/tr_*")):
            beh = sched.parse_behaviour(f)
            if not beh or beh[-1][0] != "P_Finish":
                continue   # behaviour cut by -depth before the run ended
            steps, more = sched.skeleton(beh, 2)
            items.append({"steps": steps, "origin": "simulate:" + cfg,
                          "desc": {"ops": more["ops"], "links": False, "phases": ["fuzzing"], "workers": 2, "max_examples": 1, "seed": 1,
                                   "max_failures": mf, "fault": more["fault"], "env_stop": more["stopped"]}})
            info["simulated"] += 1
    return items, info


def action_level(ctx: Ctx, forced: list[dict]) -> dict:
    """Action-level trace validation (spec/EngineTrace.tla) of the runs that followed a full unit-phase skeleton without divergence."""
    batches: dict[int, list] = {0: [], 1: []}
    index: dict[int, list[int]] = {0: [], 1: []}
    for i, r in enumerate(forced):
        if not r.get("origin", "").startswith(("simulate:Engine", "counterexample:Engine")) or r["hdr"]["diverged"]:
            continue
        lines = []
        for ln in r["lines"]:
            if ln["e"] == "G":
                lines.append({"e": "G", "role": ln["role"], "tok": ln["tok"], "k": "", "st": "", "sc": 0})
            elif ln["e"] == "Y" and (ln["k"] in ("ES", "EF") or ln["ph"] == 4):
                lines.append({"e": "Y", "role": "", "tok": "", "k": ln["k"], "st": ln["st"], "sc": (100 + ln["op"]) if ln["k"] in ("ScS", "ScF", "NFE") else 0})
        mf = 1 if r["hdr"]["maxfail"] else 0
        batches[mf].append(lines)
        index[mf].append(i)
    info = {"runs": 0, "accepted": 0, "rejected": [], "states": 0}
    for mf in (0, 1):
        if not batches[mf]:
            continue
        path = ctx.path("etrace_%d.json" % mf)
        tlc.write_json(path, batches[mf])
        res = tlc.require_ok(tlc.run_tlc("EngineTrace", "EngineTrace_mf%d.cfg" % mf, env={"OBS_FILE": path}, workers=1, timeout=1800, heap="8g"),
                             "EngineTrace")
        acc = {p[1] for p in res.prints if isinstance(p, list) and p and p[0] == "ACCEPT"}
        inv = {p[1] for p in res.prints if isinstance(p, list) and p and p[0] == "INVARIANT"}
        stuck: dict[int, int] = {}
        for p in res.prints:
            if isinstance(p, list) and p and p[0] == "STUCK":
                stuck[p[1]] = max(stuck.get(p[1], 0), p[2])
        info["runs"] += len(batches[mf])
        info["states"] += res.distinct
        for k in range(1, len(batches[mf]) + 1):
            if k in acc and k not in inv:
                info["accepted"] += 1
            else:
                line = stuck.get(k, 0)
                info["rejected"].append({"run": index[mf][k - 1], "line": line, "invariant": k in inv,
                                         "next": batches[mf][k - 1][line - 1] if 0 < line <= len(batches[mf][k - 1]) else None})
    return info


STATEFUL_TRACE_CFG = """SPECIFICATION TSpec
CONSTANTS
  StepCount = %(steps)d
  MaxScen = 100000
  MaxSuites = 1000
  MaxFail = %(mf)d
  NKinds = 8
  FixDrain = TRUE
  FixCtrlC = TRUE
  FixDrainExec = TRUE
  FixSetup = TRUE
  FixWorst = TRUE
  AllowStop = TRUE
  AllowCtrlC = TRUE
  AllowError = TRUE
  AliveCheck = TRUE
INVARIANT Report
CHECK_DEADLOCK FALSE
"""


def stateful_trace_lines(run: dict) -> "list[dict] | str":
    """Projection of a recorded stateful-only run to the alphabet of spec/StatefulTrace.tla (a string = why it is outside the fragment)."""
    hdr = run["hdr"]
    if hdr is None or hdr.get("cli") or hdr["enabled"] != [False, False, False, False, True]:
        return "not-stateful-only"      # unit phases are Engine.tla's
    if any(ln["e"] in ("CRASH", "HANG", "TDEATH") for ln in run["lines"]):
        return "crash-or-hang"          # judged by EngineStream (NoCrash / Terminates / the death is a fault)
    out = []
    blank = {"e": "", "k": "", "st": "", "fails": 0, "limit": False}
    started = next((i for i, ln in enumerate(run["lines"]) if ln["e"] == "Y" and ln["k"] == "PS" and ln["ph"] == 5), None)
    if started is None or any(ln["e"] in ("STOP", "CTRLC") for ln in run["lines"][:started]):
        return "stopped-before-the-phase"   # the stateful phase never ran (Engine.tla's plan loop covers that)
    if not any(ln["e"] == "QPUT" and ln["k"] == "SS" for ln in run["lines"]):
        return "stopped-before-the-phase"   # stopped right after PhaseStarted: the plan loop skips the phase, its thread is never created
    for ln in run["lines"]:
        e = ln["e"]
        if e == "QPUT":
            out.append(dict(blank, e="Q", k=ln["k"], st=ln["st"]))
        elif e in ("STEP", "TEXIT", "STOP", "CTRLC"):
            out.append(dict(blank, e=e))
        elif e == "R":
            out.append(dict(blank, e="R"))
        elif e == "COUNT":
            out.append(dict(blank, e="COUNT", fails=ln["fails"], limit=bool(ln["limit"])))
        elif e == "Y":
            if ln["k"] in ("ES", "EF") or (ln["k"] == "PF" and ln["ph"] == 5):
                out.append(dict(blank, e="Y", k=ln["k"], st=ln["st"]))
            elif ln["k"] in ("SS", "ScS", "ScF", "SF", "NFE", "INT"):
                out.append(dict(blank, e="Y", k=ln["k"], st=ln["st"]))
    return out


def _chunked(batches: dict, index: dict, size: int) -> tuple[dict, dict]:
    """Split every batch (same TLC constants) into chunks of `size` traces: one JVM per chunk, several JVMs side by side."""
    b2: dict = {}
    i2: dict = {}
    for key in batches:
        for c in range(0, len(batches[key]), size):
            k2 = tuple(key) + (c // size,)
            b2[k2] = batches[key][c:c + size]
            i2[k2] = index[key][c:c + size]
    return b2, i2


def action_level_stateful(ctx: Ctx, runs: list[dict]) -> dict:
    """Every stateful-only run (free-running threads, any disturbance) must be a behaviour of Stateful.tla, action by action."""
    batches: dict[tuple, list] = {}
    index: dict[tuple, list[int]] = {}
    skipped: dict[str, int] = {}
    for i, r in enumerate(runs):
        lines = stateful_trace_lines(r) if r.get("hdr") else "no-header"
        if isinstance(lines, str):
            if lines != "not-stateful-only":
                skipped[lines] = skipped.get(lines, 0) + 1
            continue
        key = (int(r["hdr"]["steps"]), int(r["hdr"]["maxfail"]))
        batches.setdefault(key, []).append({"stop": any(ln["e"] == "STOP" for ln in lines), "unique": bool(r["hdr"]["unique"]), "lines": lines})
        index.setdefault(key, []).append(i)
    batches, index = _chunked(batches, index, 24)
    info = {"runs": 0, "accepted": 0, "rejected": [], "states": 0, "outside_fragment": skipped, "batches": len(batches)}
    jobs = []
    keys = sorted(batches)
    for key in keys:
        path = ctx.path("strace_%d_%d_%d.json" % key)
        tlc.write_json(path, batches[key])
        cfg = ctx.path("StatefulTrace_%d_%d_%d.cfg" % key)
        with open(cfg, "w") as fd:
            fd.write(STATEFUL_TRACE_CFG % {"steps": key[0], "mf": key[1]})
        jobs.append({"module": "StatefulTrace", "cfg": cfg, "env": {"OBS_FILE": path}, "workers": 1, "timeout": 1800, "heap": "2g"})
    results = tlc.run_many(jobs, parallel=12) if jobs else []
    for key, res in zip(keys, results):
        tlc.require_ok(res, "StatefulTrace %s" % (key,))
        acc = {p[1] for p in res.prints if isinstance(p, list) and p and p[0] == "ACCEPT"}
        inv = {p[1] for p in res.prints if isinstance(p, list) and p and p[0] == "INVARIANT"}
        stuck: dict[int, int] = {}
        for p in res.prints:
            if isinstance(p, list) and p and p[0] == "STUCK":
                stuck[p[1]] = max(stuck.get(p[1], 0), p[2])
        info["runs"] += len(batches[key])
        info["states"] += res.distinct
        for k in range(1, len(batches[key]) + 1):
            if k in acc and k not in inv:
                info["accepted"] += 1
            else:
                line = stuck.get(k, 0)
                lines = batches[key][k - 1]["lines"]
                info["rejected"].append({"run": index[key][k - 1], "line": line, "invariant": k in inv,
                                         "next": lines[line - 1] if 0 < line <= len(lines) else None,
                                         "context": [(x["e"], x["k"], x["st"]) for x in lines[max(0, line - 6):line]]})
    return info


UNIT_TRACE_CFG = """SPECIFICATION TSpec
CONSTANTS
  W = %(w)d
  NOps = %(nops)d
  K = 100000
  MaxFail = %(mf)d
  NPhases = 5
  FixDrain = TRUE
  FixWorkerErr = TRUE
  AllowStop = TRUE
  AllowFault = TRUE
  AliveCheck = TRUE
  PhaseOn = {%(on)s}
  AllowCtrlC = TRUE
  MaxNFE = 20
  AllowInvalid = TRUE
INVARIANT Report
CHECK_DEADLOCK FALSE
"""


def unit_trace_lines(run: dict) -> "list[dict] | str":
    """Projection of a recorded run without a stateful phase to the alphabet of spec/UnitTrace.tla (a string = why not)."""
    hdr = run["hdr"]
    if hdr is None or hdr.get("cli"):
        return "not-in-process"
    if hdr["enabled"][0] or hdr["enabled"][4]:
        return "probing-or-stateful-enabled"     # probing has its own event shape; the stateful phase is Stateful.tla's
    if any(ln["e"] in ("CRASH", "HANG", "TDEATH") for ln in run["lines"]):
        return "crash-or-hang"
    if hdr.get("rateL"):
        return "rate-limited"
    if (run["desc"].get("fault") or {}).get("site") == "unit.worker.case":
        return "fault-at-the-case-hook"      # raised outside the test function's own try block, before its stop check: not a step of the model
    out = []
    blank = {"e": "", "k": "", "st": "", "w": 0, "op": 0, "ph": 0, "fails": 0, "limit": False, "site": ""}
    thr_of: dict = {}
    phase = 0
    for ln in run["lines"]:
        e = ln["e"]
        if e == "Y" and ln["k"] == "PS":
            phase = ln["ph"]
            thr_of = {}          # every unit phase starts its own worker threads
        w = 0
        if e in ("QPUT", "SEND", "CASE", "WEXIT", "FAULT") and ln.get("thr"):
            w = thr_of.setdefault(ln["thr"], len(thr_of) + 1)
            if w > hdr["workers"]:
                return "more-threads-than-workers"
        if e == "QPUT":
            out.append(dict(blank, e="Q", k=ln["k"], st=ln["st"], w=w, op=ln["op"]))
        elif e in ("SEND", "CASE"):
            out.append(dict(blank, e=e, w=w, op=ln["op"]))
        elif e == "WEXIT":
            out.append(dict(blank, e="WEXIT", w=w))
        elif e == "FAULT":
            out.append(dict(blank, e="FAULT", w=w, site=ln["site"], op=ln["op"]))
        elif e in ("STOP", "CTRLC"):
            out.append(dict(blank, e=e))
        elif e == "COUNT":
            out.append(dict(blank, e="COUNT", fails=ln["fails"], limit=bool(ln["limit"])))
        elif e == "Y":
            out.append(dict(blank, e="Y", k=ln["k"], st=ln["st"], ph=ln["ph"] if ln["k"] in ("PS", "PF") else 0, op=ln["op"]))
    return out


def action_level_unit(ctx: Ctx, runs: list[dict]) -> dict:
    """Every free-running run of the unit phases must be a behaviour of Engine.tla, action by action (spec/UnitTrace.tla)."""
    batches: dict[tuple, list] = {}
    index: dict[tuple, list[int]] = {}
    skipped: dict[str, int] = {}
    for i, r in enumerate(runs):
        if "env_stop" in r.get("desc", {}):
            continue        # forced schedules are validated by EngineTrace.tla
        lines = unit_trace_lines(r) if r.get("hdr") else "no-header"
        if isinstance(lines, str):
            if lines not in ("probing-or-stateful-enabled", "not-in-process"):
                skipped[lines] = skipped.get(lines, 0) + 1
            continue
        hdr = r["hdr"]
        on = tuple(i + 1 for i, x in enumerate(hdr["enabled"]) if x)
        key = (int(hdr["workers"]), int(hdr["nops"]), int(hdr["maxfail"]), on)
        batches.setdefault(key, []).append({"stop": any(ln["e"] == "STOP" for ln in lines), "unique": bool(hdr["unique"]),
                                            "fault": bool(hdr["hasfault"]), "lines": lines})
        index.setdefault(key, []).append(i)
    batches, index = _chunked(batches, index, 12)
    info = {"runs": 0, "accepted": 0, "rejected": [], "states": 0, "outside_fragment": skipped, "batches": len(batches)}
    jobs = []
    keys = sorted(batches)
    for n, key in enumerate(keys):
        path = ctx.path("utrace_%d.json" % n)
        tlc.write_json(path, batches[key])
        cfg = ctx.path("UnitTrace_%d.cfg" % n)
        with open(cfg, "w") as fd:
            fd.write(UNIT_TRACE_CFG % {"w": key[0], "nops": key[1], "mf": key[2], "on": ", ".join(str(x) for x in key[3])})
        jobs.append({"module": "UnitTrace", "cfg": cfg, "env": {"OBS_FILE": path}, "workers": 1, "timeout": 1800, "heap": "2g"})
    results = tlc.run_many(jobs, parallel=12) if jobs else []
    for key, res in zip(keys, results):
        tlc.require_ok(res, "UnitTrace %s" % (key,))
        acc = {p[1] for p in res.prints if isinstance(p, list) and p and p[0] == "ACCEPT"}
        inv = {p[1] for p in res.prints if isinstance(p, list) and p and p[0] == "INVARIANT"}
        stuck: dict[int, int] = {}
        for p in res.prints:
            if isinstance(p, list) and p and p[0] == "STUCK":
                stuck[p[1]] = max(stuck.get(p[1], 0), p[2])
        info["runs"] += len(batches[key])
        info["states"] += res.distinct
        for k in range(1, len(batches[key]) + 1):
            if k in acc and k not in inv:
                info["accepted"] += 1
            else:
                line = stuck.get(k, 0)
                lines = batches[key][k - 1]["lines"]
                info["rejected"].append({"run": index[key][k - 1], "line": line, "invariant": k in inv,
                                         "next": lines[line - 1] if 0 < line <= len(lines) else None,
                                         "context": [(x["e"], x["k"], x["w"], x["op"], x["st"]) for x in lines[max(0, line - 7):line]]})
    return info


def run_property(ctx: Ctx, pid: str, design_cfgs: list[str]) -> Outcome:
    out = Outcome()
    rng = random.Random(ctx.seed * 7919 + int(pid[1:]))
    t0 = time.time()
    # 1. design models (Engine.tla = plan + unit phases; Stateful.tla = stateful phase) and, as a vacuity guard, the designs of the
    #    code before each repair (a Fix* flag switched off), which TLC must refute. All TLC jobs run side by side.
    states = transitions = 0
    design = []
    mod = lambda cfg: "Stateful" if cfg.startswith("Stateful") else "Engine"
    jobs = [{"module": mod(cfg), "cfg": cfg, "timeout": 3000, "workers": 4} for cfg in design_cfgs] + \
           [{"module": mod(cfg), "cfg": cfg, "timeout": 900, "workers": 2} for cfg, _ in OLD_DESIGNS]
    results = tlc.run_many(jobs, parallel=6)
    for cfg, res in zip(design_cfgs, results[:len(design_cfgs)]):
        tlc.require_ok(res, "design model " + cfg)
        states += res.distinct
        transitions += res.generated
        design.append({"cfg": cfg, "distinct": res.distinct, "generated": res.generated, "violated": res.violated, "wall_s": round(res.wall_s, 1)})
        for inv in res.violated:
            out.violations.append(Violation("%s:design:%s:%s" % (pid, cfg, inv),
                                            "design model %s violates %s" % (cfg, inv),
                                            {"kind": "design", "cfg": cfg, "invariant": inv, "trace": res.counterexample[:120]}))
    refuted = []
    for (cfg, inv), res in zip(OLD_DESIGNS, results[len(design_cfgs):]):
        tlc.require_ok(res, "old design " + cfg)
        if not res.violated:   # which invariant TLC reports first depends on worker scheduling; any of them refutes the design
            raise tlc.TLCFailure("%s: expected %s to be violated by the old design - the specification lost its teeth" % (cfg, inv))
        refuted.append(cfg)
    t_design = time.time() - t0
    # 2. family
    fam, fres = load_family()
    states += fres.distinct
    transitions += fres.generated
    # 3. reference (undisturbed) runs, then every disturbance position
    plain, recipes = expand(ctx, pid, fam, rng)
    t1 = time.time()
    refs = common.pmap(_run, plain, chunk=1)
    todo = []
    for base, ref, recipe in zip(plain, refs, recipes):
        if ref.get("machinery"):
            raise RuntimeError("engine driver failed: %s on %s" % (ref["machinery"], base))
        todo += variants(base, ref, recipe, rng)
    disturbed = common.pmap(_run, todo, chunk=1)
    for r in disturbed:
        if r.get("machinery"):
            raise RuntimeError("engine driver failed: %s on %s" % (r["machinery"], r["desc"]))
    # 3b. forced schedules (spec -> code for interleavings)
    items, sinfo = schedule_items(ctx, 40 if ctx.quick else 400)
    forced = common.pmap(_run_sched, items, chunk=1) if len(items) >= 32 else [_run_sched(i) for i in items]
    for r in forced:
        if r.get("machinery"):
            raise RuntimeError("scheduled run failed: %s on %s" % (r["machinery"], r["desc"]))
    sinfo["diverged"] = sum(1 for r in forced if r["hdr"]["diverged"])
    sinfo["steps_followed"] = sum(r["hdr"]["followed"] for r in forced)
    if sinfo["diverged"]:
        out.notes.append("%d forced schedule(s) could not be followed by the implementation (replay divergence, e.g. %s)" % (
            sinfo["diverged"], next(r["hdr"]["diverged"] for r in forced if r["hdr"]["diverged"])))
    # 3b'. the real command line in subprocesses (C05 only): process exit code vs. what the API served
    cli_runs: list[dict] = []
    if pid == "C05":
        cli_descs = [
            {"ops": ["ok", "ok"], "phases": ["coverage", "fuzzing"], "workers": 1},
            {"ops": ["ok", "bad"], "phases": ["fuzzing"], "workers": 2},
            {"ops": ["ok", "neterr"], "phases": ["fuzzing"], "workers": 1},
            {"ops": ["invalid", "ok"], "phases": ["fuzzing"], "workers": 1},
            {"ops": ["bad", "ok", "bad"], "phases": ["coverage", "fuzzing"], "workers": 2, "max_failures": 1},
            {"ops": ["ok", "ok"], "phases": ["fuzzing"], "workers": 1, "handler_fault": True},
        ]
        if not ctx.quick:
            cli_descs += [dict(d, workers=w, cof=c) for d in cli_descs[:5] for w in (1, 3) for c in (False, True)]
        cli_descs = [dict(d, seed=ctx.seed + i + 1, max_examples=2, params=True) for i, d in enumerate(cli_descs)]
        import multiprocessing as mp

        with mp.get_context("fork").Pool(min(6, len(cli_descs))) as pool:
            cli_runs = pool.map(_run_cli, cli_descs, chunksize=1)
        for r in cli_runs:
            if r.get("machinery"):
                raise RuntimeError("CLI run failed: %s on %s" % (r["machinery"], r["desc"]))
    runs = refs + disturbed + forced + cli_runs
    t_runs = time.time() - t1
    # 3c-4. the four trace validations are independent TLC jobs: run them side by side
    from concurrent.futures import ThreadPoolExecutor

    with ThreadPoolExecutor(max_workers=4) as _ex:
        _f_a = _ex.submit(action_level, ctx, forced)
        _f_s = _ex.submit(action_level_stateful, ctx, runs)
        _f_u = _ex.submit(action_level_unit, ctx, runs)
        _f_j = _ex.submit(judge, ctx, runs, pid)
        alevel, slevel, ulevel, _judged = _f_a.result(), _f_s.result(), _f_u.result(), _f_j.result()
    # An action-level rejection is reported only if it repeats: the log's atomicity assumptions (one recorder lock, hook points next
    # to - not inside - the code's own critical sections) leave room for a once-in-thousands benign interleaving that no model step
    # explains; a change of the threads' protocol rejects the same descriptor again. The descriptor is executed twice more.
    for level, fn, label in ((slevel, action_level_stateful, "StatefulTrace"), (ulevel, action_level_unit, "UnitTrace")):
        confirmed = []
        for rej in level["rejected"][:5]:
            desc = runs[rej["run"]]["desc"]
            if "env_stop" in desc:
                confirmed.append(rej)
                continue
            again = [_run(desc), _run(desc)]
            re_info = fn(ctx, again)
            if re_info["rejected"]:
                confirmed.append(rej)
            else:
                out.notes.append("%s: one execution of %s was not explained by the model at line %s (%s) but two further executions were: "
                                 "not reported" % (label, {k: v for k, v in desc.items() if k != "params"}, rej["line"], rej["next"]))
        level["unconfirmed"] = len(level["rejected"][:5]) - len(confirmed)
        level["rejected"] = confirmed
    # 3c. action-level trace validation of the fully forced unit-phase runs against Engine.tla's own actions
    for rej in alevel["rejected"][:5]:
        run = forced[rej["run"]]
        out.violations.append(Violation(
            "%s:EngineTrace:%s" % (pid, "invariant" if rej["invariant"] else "no-engine-action-explains-line"),
            "forced run %s is not a behaviour of Engine.tla: stuck before line %s (%s)" % (run["origin"], rej["line"], rej["next"]),
            {"kind": "run", "desc": run["desc"], "clause": "EngineTrace", "line": rej["line"]}))
    # 3d. action-level trace validation of every stateful-only run against Stateful.tla's own actions
    for rej in slevel["rejected"][:5]:
        run = runs[rej["run"]]
        out.violations.append(Violation(
            "%s:StatefulTrace:%s:%s" % (pid, "invariant" if rej["invariant"] else "no-stateful-action-explains-line", variant_of(run["desc"])),
            "run %s is not a behaviour of Stateful.tla: stuck before line %s %s after %s" % (
                {k: v for k, v in run["desc"].items() if k != "params"}, rej["line"], rej["next"], rej["context"]),
            {"kind": "run", "desc": run["desc"], "clause": "StatefulTrace", "line": rej["line"]}))
    # 3e. action-level trace validation of every free-running unit-phase run against Engine.tla's own actions
    for rej in ulevel["rejected"][:5]:
        run = runs[rej["run"]]
        out.violations.append(Violation(
            "%s:UnitTrace:%s:%s" % (pid, "invariant" if rej["invariant"] else "no-engine-action-explains-line", variant_of(run["desc"])),
            "run %s is not a behaviour of Engine.tla: stuck before line %s %s after %s" % (
                {k: v for k, v in run["desc"].items() if k != "params"}, rej["line"], rej["next"], rej["context"]),
            {"kind": "run", "desc": run["desc"], "clause": "UnitTrace", "line": rej["line"]}))
    # 4. trace validation
    rejected, accepted, jres = _judged
    own = 0
    foreign: dict[str, int] = {}
    for i, entries in sorted(rejected.items()):
      for line, clause in sorted(entries):
        owner = clause[:3]
        if owner == pid:
            own += 1
            run = runs[i]
            out.violations.append(Violation(
                signature(pid, clause, run, line),
                "%s at line %d of run %s" % (clause, line, {k: v for k, v in run["desc"].items() if k not in ("params",)}),
                {"kind": "run", "desc": run["desc"], "clause": clause, "line": line},
            ))
        else:
            foreign[clause] = foreign.get(clause, 0) + 1
    if foreign:
        out.notes.append("runs rejected for clauses owned by another property's check (not counted here): %s" % foreign)
    nontrivial = sum(1 for r in runs if any(ln["e"] in ("R",) and ln["bad"] for ln in r["lines"]) or variant_of(r["desc"]) != "plain")
    fired = sum(1 for r in runs if r["hdr"]["faultfired"])
    out.coverage = {
        "states": states, "transitions": transitions,
        "traces_validated_against_impl": len(runs),
        "samples": [{"desc": r["desc"], "events": [ln["k"] + (":" + ln["st"] if ln["st"] else "") for ln in r["lines"] if ln["e"] == "Y"][:60]}
                    for r in common.sample(rng, runs, 3)],
        "evaluations": len(runs),
        "distinct_nontrivial": nontrivial,
        "rule": "descriptors = seeded stratified sample of the TLC-enumerated EngineFamily (%d descriptors); per descriptor one undisturbed run plus "
                "every/sampled stop position, Ctrl-C position and single fault per the recipe of %s; non-trivial = run with a bad API answer or a disturbance" % (len(fam), pid),
        "exhaustive": False,
        "design_models": design, "old_designs_refuted": refuted,
        "cli_subprocess_runs": len(cli_runs), "forced_schedules": sinfo, "action_level_traces": {k: v for k, v in alevel.items() if k != "rejected"},
        "action_level_stateful_traces": {k: v for k, v in slevel.items() if k != "rejected"},
        "action_level_unit_traces": {k: v for k, v in ulevel.items() if k != "rejected"},
        "family_size": len(fam), "base_descriptors": len(plain), "disturbed_runs": len(todo), "faults_fired": fired,
        "accepted": len(accepted), "rejected_own": own, "rejected_foreign": sum(foreign.values()),
        "trace_lines": sum(len(r["lines"]) for r in runs), "judge_states": jres.distinct,
        "design_s": round(t_design, 1), "runs_s": round(t_runs, 1), "judge_s": round(jres.wall_s, 1),
    }
    out.assumptions = [
        "scripted loopback API is deterministic per operation; the server log is the ground truth for requests",
        "Hypothesis is a nondeterministic source of cases (its internals are outside the model)",
        "a run cut short by --max-failures is exempt like an interruption (DESIGN Appendix F.2)",
        "trace lines are totally ordered by one recorder lock; yields are logged by the consuming (main) thread",
    ]
    return out


def replay(ctx: Ctx, pid: str, data: dict) -> Outcome:
    out = Outcome()
    if data.get("kind") != "run":
        return out
    run = _run(data["desc"])
    rejected, _, _ = judge(ctx, [run], "replay")
    for i, entries in rejected.items():
        for line, clause in entries:
            if clause.startswith(pid):
                out.violations.append(Violation(signature(pid, clause, run, line), "%s at line %d" % (clause, line), data))
    return out


def selftest(ctx: Ctx, pid: str) -> bool:
    """Binding: corrupt one recorded field of an accepted run and require rejection with the right clause."""
    base = {"ops": ["ok", "bad"], "links": False, "phases": ["fuzzing"], "workers": 1, "max_failures": 0, "cof": False,
            "unique": False, "seed": 1, "max_examples": 2}
    good = _run(base)
    import copy

    bad = copy.deepcopy(good)
    if pid == "C11":      # drop the SuiteFinished line
        bad["lines"] = [ln for ln in bad["lines"] if not (ln["e"] == "Y" and ln["k"] == "SF")]
        want = "C11"
    elif pid == "C05":    # pretend the CLI exit code was 0 although a 500 was served
        for ln in bad["lines"]:
            if ln["e"] == "X":
                ln["code"] = 0
        want = "C05"
    else:                 # pretend more requests than max_examples were sent to the clean operation
        extra = [ln for ln in bad["lines"] if ln["e"] == "R" and ln["op"] == 1][:1] * 5
        idx = max(i for i, ln in enumerate(bad["lines"]) if ln["e"] == "R")
        bad["lines"][idx:idx] = [dict(x, dg=900 + j) for j, x in enumerate(extra)]
        want = "C12"
    rejected, accepted, _ = judge(ctx, [good, bad], "selftest")
    ok = 0 in accepted and 1 in rejected and any(c.startswith(want) for _, c in rejected[1])
    if not ok:
        print("selftest detail:", rejected, accepted)
    # action-level binding of the stateful phase: a recorded run is accepted by StatefulTrace.tla; with one queue put removed, one
    # status changed, or one request added it is no behaviour of Stateful.tla any more
    sgood = _run({"ops": ["ok"], "links": "bad", "phases": ["stateful"], "workers": 1, "max_failures": 1, "cof": False, "unique": False,
                  "seed": 3, "max_examples": 3, "step_count": 2})
    variants_ = [sgood]
    for kind in ("drop-put", "status", "extra-request"):
        v = copy.deepcopy(sgood)
        if kind == "drop-put":
            i = next(i for i, ln in enumerate(v["lines"]) if ln["e"] == "QPUT" and ln["k"] == "ScF")
            del v["lines"][i]
        elif kind == "status":
            ln = next(ln for ln in v["lines"] if ln["e"] == "QPUT" and ln["k"] == "SF")
            ln["st"] = "success" if ln["st"] != "success" else "failure"
        else:
            i = max(i for i, ln in enumerate(v["lines"]) if ln["e"] == "R")
            v["lines"][i:i] = [dict(v["lines"][i])] * 3
        variants_.append(v)
    sinfo = action_level_stateful(ctx, variants_)
    rej = {r["run"] for r in sinfo["rejected"]}
    sok = sinfo["runs"] == 4 and rej == {1, 2, 3}
    if not sok:
        print("selftest detail (StatefulTrace):", {k: v for k, v in sinfo.items() if k != "rejected"}, sorted(rej))
    # the same for the unit phases: a recorded two-worker run is a behaviour of Engine.tla; without one queue put, with a
    # scenario status changed, or with a worker exit moved before its last put it is not
    ugood = _run({"ops": ["ok", "bad", "ok"], "links": False, "phases": ["coverage", "fuzzing"], "workers": 2, "max_failures": 0, "cof": False,
                  "unique": False, "seed": 5, "max_examples": 2, "shape": "plain"})
    uvars = [ugood]
    for kind in ("drop-put", "status", "early-exit"):
        v = copy.deepcopy(ugood)
        if kind == "drop-put":
            i = next(i for i, ln in enumerate(v["lines"]) if ln["e"] == "QPUT" and ln["k"] == "ScF")
            del v["lines"][i]
        elif kind == "status":
            ln = next(ln for ln in v["lines"] if ln["e"] == "QPUT" and ln["k"] == "ScF" and ln["st"] == "failure")
            ln["st"] = "success"
        else:
            i = max(i for i, ln in enumerate(v["lines"]) if ln["e"] == "WEXIT")
            j = max(k for k, ln in enumerate(v["lines"][:i]) if ln["e"] == "QPUT" and ln["thr"] == v["lines"][i]["thr"])
            v["lines"].insert(j, v["lines"].pop(i))
        uvars.append(v)
    uinfo = action_level_unit(ctx, uvars)
    urej = {r["run"] for r in uinfo["rejected"]}
    uok = uinfo["runs"] == 4 and urej == {1, 2, 3}
    if not uok:
        print("selftest detail (UnitTrace):", {k: v for k, v in uinfo.items() if k != "rejected"}, sorted(urej))
    return ok and sok and uok
