"""Runs the REAL schemathesis engine for one abstract run descriptor against the scripted loopback API and records a trace.

Descriptor (abstract, chosen by the TLA+ family / the harness sampler):
  ops      : list of behaviours, op i (1-based) is `GET /o<i>` (+ integer query parameter `q` when "p" flag) with behaviour
             "ok" | "bad" (always 500) | "badif" (500 iff q > 100: Hypothesis has to find it) | "neterr" (connection dropped)
             | "invalid" (its schema makes test construction fail with InvalidSchema)
  links    : bool - op1 is `POST /o1` returning {"id": n} with a link to `GET /o1/{id}` ... (stateful phase has something to do)
  phases   : subset of ["examples", "coverage", "fuzzing", "stateful"]
  workers, max_failures (0 = unlimited), max_examples, cof (continue_on_failure), unique (unique_inputs), seed, step_count
  stop_at  : 0 or k: call EventStream.stop() right after the k-th yielded event
  ctrlc_at : 0 or k: raise KeyboardInterrupt inside the consumer's k-th queue get (Ctrl-C in the main thread)
  fault    : None or {"site": point name, "occ": n, "exc": "Exception" | "ConnectionError" | "AssertionError"}
The trace is a list of lines (dicts of ints / strings / bools) in ONE global order: every line is appended under a single lock,
by the thread that performs the step (main thread for yields, worker threads for hook points, server threads for requests).
"""
from __future__ import annotations

import os
import queue
import signal
import threading
import time
from typing import Any

PHASES = ["probing", "examples", "coverage", "fuzzing", "stateful"]
KIND = {"EngineStarted": "ES", "PhaseStarted": "PS", "PhaseFinished": "PF", "SuiteStarted": "SS", "SuiteFinished": "SF",
        "ScenarioStarted": "ScS", "ScenarioFinished": "ScF", "NonFatalError": "NFE", "Interrupted": "INT",
        "EngineFinished": "EF", "FatalError": "FE"}


class InjectedFault(Exception):
    pass


class Recorder:
    """Controller installed into schemathesis._verif: records selected points, injects one fault, numbers identifiers."""

    def __init__(self, fault: dict | None = None, ctrlc_at: int = 0):
        self.lock = threading.Lock()
        self.lines: list[dict] = []
        self.fault = fault
        self.fault_hits = 0
        self.fault_fired = False
        self.ctrlc_at = ctrlc_at
        self.ctrlc_empty_at = 0      # raise KeyboardInterrupt at the k-th idle poll of a consumer (inside its `except queue.Empty` handler)
        self.empties = 0
        self.gets = 0
        self.threads: dict[int, int] = {}
        self.ids: dict[Any, int] = {}
        self.phase = 0
        self.op_of_label: dict[str, int] = {}
        self.case_op: dict[str, int] = {}

    def tid(self) -> int:
        # a number per thread OBJECT: the OS re-uses thread idents as soon as a thread has ended
        t = threading.current_thread()
        n = getattr(t, "_verif_tid", None)
        if n is None or getattr(t, "_verif_rec", None) is not self:
            with self.lock:
                n = len(self.threads) + 1
                self.threads[n] = n
            t._verif_tid, t._verif_rec = n, self
        return n

    def num(self, key: Any) -> int:
        if key not in self.ids:
            self.ids[key] = len(self.ids) + 1
        return self.ids[key]

    def emit(self, line: dict) -> None:
        with self.lock:
            line["ph"] = line.get("ph", self.phase)
            self.lines.append(line)

    # --- _verif controller API ---
    def point(self, name: str, data: dict) -> None:
        op = 0
        if "operation" in data:
            op = self.op_of_label.get(data["operation"].label, 0)
        elif "case" in data:
            op = self.op_of_label.get(data["case"].operation.label, 0)
        if name == "unit.worker.send":
            self.emit({"e": "SEND", "thr": self.tid(), "op": op})
        elif name == "unit.worker.case":
            self.emit({"e": "CASE", "thr": self.tid(), "op": op})
        elif name == "stateful.thread.step":
            self.emit({"e": "STEP", "thr": self.tid(), "op": op, "stop": bool(data["stop"])})
        elif name == "worker.exit":
            self.emit({"e": "WEXIT", "thr": self.tid()})
        elif name == "stateful.thread.exit":
            self.emit({"e": "TEXIT", "thr": self.tid()})
        elif name in ("unit.consumer.empty", "stateful.consumer.empty") and self.ctrlc_empty_at:
            with self.lock:
                self.empties += 1
                fire = self.empties == self.ctrlc_empty_at
            if fire:
                self.emit({"e": "CTRLC"})
                raise KeyboardInterrupt
        elif name == "control.count":
            self.emit({"e": "COUNT", "fails": int(data["failures"]), "limit": bool(data["limit"])})
        f = self.fault
        if f is not None and not self.fault_fired and f["site"] == name and (not f.get("op") or f["op"] == op):
            with self.lock:
                self.fault_hits += 1
                fire = self.fault_hits == f["occ"]
                if fire:
                    self.fault_fired = True
            if fire:
                self.emit({"e": "FAULT", "site": name, "op": op, "exc": f["exc"], "thr": self.tid()})
                if f["exc"] == "ConnectionError":
                    import requests

                    raise requests.ConnectionError("injected")
                if f["exc"] == "AssertionError":
                    raise AssertionError("injected")
                raise InjectedFault("injected fault at %s" % name)

    def on_empty_read(self, name: str, result: bool) -> None:
        """Called after the consumer evaluated queue.empty() (result not yet used). Overridden by stale-read attacks."""

    def make_queue(self, name: str):
        rec = self

        class TracedQueue(queue.Queue):
            def get(self, block=True, timeout=None):
                if rec.ctrlc_at and block:   # Ctrl-C while the consumer WAITS for an event (C_CtrlC of the models); get_nowait() does not wait
                    with rec.lock:
                        rec.gets += 1
                        fire = rec.gets == rec.ctrlc_at
                    if fire:
                        rec.emit({"e": "CTRLC"})
                        raise KeyboardInterrupt
                return super().get(block, timeout)

            def empty(self):
                result = super().empty()
                rec.on_empty_read(name, result)
                return result

            def _put(self, item):  # called with the queue's own mutex held: the true linearisation point of a put
                super()._put(item)
                kind = KIND.get(type(item).__name__, type(item).__name__)
                status = getattr(item, "status", None)
                rec.emit({"e": "QPUT", "k": kind, "thr": rec.tid(), "st": getattr(status, "value", "") or "",
                          "op": rec.op_of_label.get(getattr(item, "label", None) or "", 0)})

        return TracedQueue()


class StaleReadAttack(Recorder):
    """Adversarial schedule derived from the consumer's exit decision in Engine.tla / Stateful.tla (C_Timeout, C_Alive): every
    shared-state read the decision depends on is made STALE by holding the consumer right after the read until every producer
    thread has finished (put its last events and died), then letting it act on what it read.
      mode "empty-exception": hold at the queue.Empty point (before the liveness check)        - the original lost-event race
      mode "empty-call":      hold inside queue.empty() after it answered True                  - emptiness read before liveness
    On correct code both are harmless (the decision re-reads / reads in a safe order); the run is validated like any other."""

    def __init__(self, mode: str, fault: dict | None = None):
        super().__init__(fault=fault)
        self.mode = mode
        self.producers: list[threading.Thread] = []
        self.held = 0
        self.main = threading.get_ident()

    def _hold(self) -> None:
        deadline = time.monotonic() + 3.0
        while time.monotonic() < deadline:
            with self.lock:
                threads = list(self.producers)
            if threads and all(not t.is_alive() for t in threads):
                break
            time.sleep(0.002)
        self.held += 1

    def point(self, name: str, data: dict) -> None:
        if name in ("unit.worker.loop", "stateful.thread.step", "stateful.thread.exit", "unit.worker.took"):
            t = threading.current_thread()
            with self.lock:
                if t not in self.producers:
                    self.producers.append(t)
        if self.mode == "empty-exception" and name in ("unit.consumer.empty", "stateful.consumer.empty") and self.held == 0:
            self._hold()
        super().point(name, data)

    def on_empty_read(self, name: str, result: bool) -> None:
        if self.mode == "empty-call" and result and threading.get_ident() == self.main and self.held == 0:
            self._hold()


def build_schema(desc: dict) -> dict:
    paths: dict = {}
    for i, beh in enumerate(desc["ops"], 1):
        op: dict = {"operationId": "op%d" % i, "responses": {"200": {"description": "ok"}}}
        params = []
        if beh in ("badif",) or desc.get("params"):
            # the example makes the examples phase send something (101+ triggers the conditional failure of "badif")
            params.append({"name": "q", "in": "query", "required": True, "schema": {"type": "integer", "minimum": 0, "maximum": 1000},
                           "example": 150 if beh == "badif" else 7})
        if beh == "invalid":
            params.append({"name": "broken", "in": "query", "schema": {"type": "wrong-type-name"}})
        if beh == "weird":
            import datetime

            params.append({"name": "since", "in": "query", "schema": {"type": "string", "format": "date", "example": datetime.date(2020, 1, 1)}})
        if params:
            op["parameters"] = params
        paths["/o%d" % i] = {"get": op}
    if desc.get("shape") == "twin":       # same path, no parameters, no payload: the prepared requests differ by the method only
        paths["/t"] = {"put": {"operationId": "twinPut", "responses": {"200": {"description": "ok"}}},
                       "delete": {"operationId": "twinDelete", "responses": {"200": {"description": "ok"}}}}
    if desc.get("links"):
        paths["/res"] = {"post": {
            "operationId": "createRes",
            "responses": {"201": {"description": "created",
                                  "content": {"application/json": {"schema": {"type": "object", "properties": {"id": {"type": "integer"}}}}},
                                  "links": {"getRes": {"operationId": "getRes", "parameters": {"id": "$response.body#/id"}}}}},
        }}
        paths["/res/{id}"] = {"get": {
            "operationId": "getRes",
            "parameters": [{"name": "id", "in": "path", "required": True, "schema": {"type": "integer"}}],
            "responses": {"200": {"description": "ok"}, "404": {"description": "nf"}},
        }}
    doc = {"openapi": "3.0.2", "info": {"title": "t", "version": "1"}, "paths": paths}
    if desc.get("shape") == "authprobe":
        doc["components"] = {"securitySchemes": {"ApiKey": {"type": "apiKey", "in": "header", "name": "X-Key"}}}
        doc["security"] = [{"ApiKey": []}]
    return doc


class RunHang(BaseException):
    """Raised by the watchdog alarm in the thread that iterates the event stream."""


def run_one(desc: dict, controller: "Recorder | None" = None) -> dict:
    """Execute one run; returns {"hdr": ..., "lines": [...]}. Never raises for engine-level problems (they become lines)."""
    import hypothesis
    import schemathesis
    from schemathesis import _verif
    from schemathesis.cli.commands.run.context import ExecutionContext
    from schemathesis.engine import events, from_schema
    from schemathesis.engine.config import EngineConfig, ExecutionConfig
    from schemathesis.engine.phases import PhaseName
    from schemathesis.engine.phases import stateful as stateful_phase
    from schemathesis.engine.phases import unit as unit_phase

    from .compat import enable_links
    from .server import LoopbackServer, json_response

    enable_links()  # see compat.py: restores link routing on the installed Hypothesis

    unit_phase.WORKER_TIMEOUT = 0.02  # harness process only: shorter polling, same logic
    rec = controller if controller is not None else Recorder(fault=desc.get("fault"), ctrlc_at=desc.get("ctrlc_at", 0))
    if controller is None:
        rec.ctrlc_empty_at = desc.get("ctrlc_empty_at", 0)
    # a worker / state-machine thread dying with an uncaught exception is an observation (TDEATH line), not console noise
    threading.excepthook = lambda args: rec.emit({"e": "TDEATH", "err": getattr(args.exc_type, "__name__", "?")})
    nops = len(desc["ops"])
    extra_ops = 2 if (desc.get("links") or desc.get("shape") == "twin") else 0
    assert not (desc.get("links") and desc.get("shape", "plain") != "plain")
    for i in range(1, nops + 1):
        rec.op_of_label["GET /o%d" % i] = i
    if desc.get("links"):
        rec.op_of_label["POST /res"] = nops + 1
        rec.op_of_label["GET /res/{id}"] = nops + 2
    if desc.get("shape") == "twin":
        rec.op_of_label["PUT /t"] = nops + 1
        rec.op_of_label["DELETE /t"] = nops + 2
    culprits: set = set()      # test-case ids of the requests whose answer makes a check fail
    digests: dict = {}
    counter = {"n": 0}

    def behaviour(r):
        op = 0
        bad = False
        status, body = 200, {}
        if r.path.startswith("/o"):
            try:
                op = int(r.path[2:])
            except ValueError:
                op = 0
            beh = desc["ops"][op - 1] if 1 <= op <= nops else "ok"
            if beh == "bad":
                status, bad = (502 if rec.phase == 4 else 500), True     # a different failure in the fuzzing phase
            elif beh == "badif":
                q = 0
                for part in r.query.split("&"):
                    if part.startswith("q="):
                        try:
                            q = int(part[2:])
                        except ValueError:
                            q = 0
                if q > 100:
                    status, bad = 500, True
            elif beh == "neterr":
                bad = True
                status = -1
        elif r.path == "/t":
            op = nops + 1 if r.method == "PUT" else nops + 2
            if r.method == "DELETE":
                status, bad = 500, True
        elif r.path == "/res":
            op = nops + 1
            counter["n"] += 1
            status, body = 201, {"id": counter["n"]}
        elif r.path.startswith("/res/"):
            op = nops + 2
            if desc.get("links") == "bad":
                status, bad = 500, True
        if desc.get("shape") == "authprobe" and status == 200 and r.header("X-Key", "") != "secret":
            bad = True      # the API serves a request that lacks the configured credential: what ignored_auth reports
        if bad:
            with rec.lock:
                culprits.add(r.header("X-Schemathesis-TestCaseId", ""))
        volatile = {"x-schemathesis-testcaseid", "host", "user-agent", "accept-encoding", "connection", "content-length", "accept"}
        key = (r.method, r.target, r.body, tuple(sorted((k.lower(), v) for k, v in r.headers if k.lower() not in volatile)))
        with rec.lock:
            dg = digests.setdefault(key, len(digests) + 1)
        rec.emit({"e": "R", "op": op, "bad": bad, "dg": dg, "case": rec.num(("case", r.header("X-Schemathesis-TestCaseId", ""))), "t": int(r.t_ms)})
        if status == -1:
            raise ConnectionAbortedError("scripted network error")
        return json_response(status, body)

    raw = build_schema(desc)
    phase_names = {"probing": PhaseName.PROBING, "examples": PhaseName.EXAMPLES, "coverage": PhaseName.COVERAGE, "fuzzing": PhaseName.FUZZING,
                   "stateful": PhaseName.STATEFUL_TESTING}
    ctx = ExecutionContext()
    delivered_failures: list = []
    fatal = ""
    t0 = time.time()
    with LoopbackServer(behaviour) as server:
        # a dropped connection: make the handler close the socket without a response
        orig = server.behaviour

        def wrapped(r):
            try:
                return orig(r)
            except ConnectionAbortedError:
                raise

        server.behaviour = wrapped
        schema = schemathesis.openapi.from_dict(raw).configure(base_url=server.base_url)
        if desc.get("rate"):
            schema.configure(rate_limit="%d/s" % desc["rate"])
        settings = hypothesis.settings(
            max_examples=desc.get("max_examples", 3), deadline=None, database=None, derandomize=False,
            stateful_step_count=desc.get("step_count", 3), suppress_health_check=list(hypothesis.HealthCheck),
        )
        extra_cfg: dict = {}
        extra_exec: dict = {}
        if desc.get("nan_target"):      # a target whose metric Hypothesis rejects: hypothesis.target() raises inside teardown()
            def nan_target(ctx):
                return float("nan")

            extra_exec["targets"] = [nan_target]
        if desc.get("two_checks"):      # a bad answer (undocumented 5xx) fails TWO checks at once: the failure counter moves by two in one step
            from schemathesis.checks import not_a_server_error
            from schemathesis.specs.openapi.checks import status_code_conformance

            extra_exec["checks"] = [not_a_server_error, status_code_conformance]
        if desc.get("shape") == "authprobe":
            from schemathesis.checks import not_a_server_error
            from schemathesis.engine.config import NetworkConfig
            from schemathesis.specs.openapi.checks import ignored_auth

            extra_cfg["network"] = NetworkConfig(headers={"X-Key": "secret"})
            extra_exec["checks"] = [not_a_server_error, ignored_auth]
        config = EngineConfig(execution=ExecutionConfig(
            phases=[phase_names[p] for p in desc["phases"]], hypothesis_settings=settings, workers_num=desc.get("workers", 1),
            seed=desc.get("seed", 1), max_failures=desc.get("max_failures") or None, unique_inputs=bool(desc.get("unique")),
            continue_on_failure=bool(desc.get("cof")), **extra_exec,
        ), **extra_cfg)
        _verif.install(rec)
        profile_before = None
        if desc.get("profile_max"):
            # a Hypothesis profile with a larger max_examples is loaded AFTER schemathesis was imported (history of the process)
            import schemathesis.generation.hypothesis.builder  # noqa: F401  (imported, as in a long-lived process, BEFORE the profile switch)

            profile_before = hypothesis.settings.default
            hypothesis.settings.register_profile("verif-large", max_examples=int(desc["profile_max"]))
            hypothesis.settings.load_profile("verif-large")
        # watchdog: a run that stops producing events (consumer waiting for a dead worker, join on a blocked thread, ...) is an
        # observation (HANG line), not a stuck check. SIGALRM interrupts lock waits of the main thread; only armed there.
        armed = threading.current_thread() is threading.main_thread()
        if armed:
            def _on_alarm(signum, frame):
                raise RunHang()

            old_handler = signal.signal(signal.SIGALRM, _on_alarm)
            hang_s = int(os.environ.get("VERIF_HANG_S", "120"))
            signal.alarm(hang_s)
        try:
            stream = from_schema(schema, config=config).execute()
            n = 0
            if desc.get("env_stop") and hasattr(rec, "gate"):
                def _env_stop():
                    rec.gate("stop", env=True)
                    if not rec.free or rec.idx > 0:
                        stream.stop()
                        rec.emit({"e": "STOP"})

                threading.Thread(target=_env_stop, daemon=True).start()
            try:
                for ev in stream:
                    n += 1
                    if armed:
                        signal.alarm(hang_s)   # the limit is on the silence between two events, not on the run
                    kind = KIND.get(type(ev).__name__, type(ev).__name__)
                    line: dict = {"e": "Y", "k": kind}
                    if kind in ("PS", "PF"):
                        line["ph"] = PHASES.index({"API probing": "probing", "Examples": "examples", "Coverage": "coverage",
                                                   "Fuzzing": "fuzzing", "Stateful": "stateful"}[ev.phase.name.value]) + 1
                        line["en"] = bool(ev.phase.is_enabled)
                        if kind == "PS":
                            rec.phase = line["ph"]
                        else:
                            line["st"] = ev.status.value
                            line["skip"] = ev.phase.skip_reason.value if ev.phase.skip_reason is not None else "none"
                    elif kind in ("SS", "SF"):
                        line["su"] = rec.num(("suite", ev.id if kind == "SS" else ev.id))
                        if kind == "SF":
                            line["st"] = ev.status.value
                    elif kind in ("ScS", "ScF"):
                        line["su"] = rec.num(("suite", ev.suite_id))
                        line["sc"] = rec.num(("scen", ev.id))
                        line["op"] = rec.op_of_label.get(ev.label or "", 0)
                        if kind == "ScF":
                            line["st"] = ev.status.value
                            nfail = 0
                            reqok = True
                            for case_id, checks in ev.recorder.checks.items():
                                for chk in checks:
                                    if chk.status.value == "failure":
                                        nfail += 1
                                        if chk.failure_info is not None and chk.failure_info.failure not in delivered_failures:
                                            delivered_failures.append(chk.failure_info.failure)
                                        inter = ev.recorder.interactions.get(case_id)
                                        if case_id not in ev.recorder.cases or inter is None or inter.request is None \
                                                or chk.failure_info is None or not chk.failure_info.code_sample:
                                            reqok = False
                                        # ... and that request is the one whose answer the API got wrong (not e.g. its parent)
                                        if desc.get("fault") is None and chk.name in ("not_a_server_error", "ignored_auth"):
                                            with rec.lock:
                                                blamed = case_id in culprits
                                            if not blamed:
                                                reqok = False
                            line["nfail"] = nfail
                            line["reqok"] = reqok
                    elif kind == "NFE":
                        line["op"] = rec.op_of_label.get(ev.label or "", 0)
                        line["rel"] = bool(ev.related_to_operation)
                        line["err"] = type(ev.value).__name__
                    try:
                        ctx.on_event(ev)
                    except Exception as exc:  # the CLI context crashing on an event is itself an observation
                        line["ctxerr"] = type(exc).__name__
                    rec.emit(line)
                    if desc.get("stop_at") and n == desc["stop_at"]:
                        stream.stop()
                        rec.emit({"e": "STOP"})
            except RunHang:
                fatal = "RunHang"
                rec.emit({"e": "HANG"})
                try:   # let the engine's threads wind down; a second expiry while the generator is being closed is part of the same hang
                    signal.alarm(20) if armed else None
                    stream.stop()
                    del stream
                except RunHang:
                    pass
            except BaseException as exc:  # the generator itself blew up
                fatal = type(exc).__name__
                rec.emit({"e": "CRASH", "err": fatal})
        finally:
            if armed:
                signal.alarm(0)
                signal.signal(signal.SIGALRM, old_handler)
            _verif.uninstall()
            if profile_before is not None:
                hypothesis.settings.register_profile("verif-restore", profile_before)
                hypothesis.settings.load_profile("verif-restore")
    # every distinct failure delivered with a ScenarioFinished must still be in the CLI's statistic at the end of the run
    recorded = [f for groups in ctx.statistic.failures.values() for g in groups.values() for f in g.failures]
    statlost = sum(1 for f in delivered_failures if f not in recorded)
    rec.emit({"e": "X", "code": int(ctx.exit_code), "statlost": statlost, "nfail": len(delivered_failures)})
    # normalise: every line carries every field the trace spec may read (TLC records are strict)
    lines = []
    for ln in rec.lines:
        full = {"e": "", "k": "", "ph": 0, "su": 0, "sc": 0, "op": 0, "st": "", "skip": "", "en": True, "bad": False, "dg": 0,
                "thr": 0, "nfail": 0, "reqok": True, "code": 0, "site": "", "exc": "", "stop": False, "fails": 0, "limit": False,
                "rel": True, "err": "", "case": 0, "ctxerr": "", "t": 0, "role": "", "tok": "", "statlost": 0}
        full.update(ln)
        lines.append(full)
    hdr = {"nops": nops + extra_ops, "unitops": nops, "workers": desc.get("workers", 1), "maxfail": desc.get("max_failures", 0) or 0,
           "maxex": desc.get("max_examples", 3), "cof": bool(desc.get("cof")), "unique": bool(desc.get("unique")),
           "enabled": [p in desc["phases"] for p in PHASES], "steps": desc.get("step_count", 3),
           "rateL": int(desc.get("rate") or 0), "rateW": 1000, "cli": False, "handlerfault": False,
           "hasfault": desc.get("fault") is not None, "faultfired": rec.fault_fired,
           "invalid": [i for i, b in enumerate(desc["ops"], 1) if b == "invalid"],
           "weird": [i for i, b in enumerate(desc["ops"], 1) if b == "weird"], "wall_ms": int((time.time() - t0) * 1000),
           "diverged": getattr(rec, "diverged", ""), "followed": getattr(rec, "followed", 0)}
    return {"hdr": hdr, "lines": lines, "desc": desc}


def run_cli(desc: dict) -> dict:
    """The same abstract descriptor executed by the REAL command line in a subprocess (`st run`): what is observable from outside
    is the traffic at the scripted API and the process exit code. `handler_fault`: a custom event handler (registered through
    SCHEMATHESIS_HOOKS) raises on the first ScenarioFinished."""
    import json
    import os
    import shutil
    import subprocess
    import tempfile

    from .server import LoopbackServer, json_response

    nops = len(desc["ops"])
    raw = build_schema(dict(desc, links=False))
    for path_item in raw["paths"].values():     # the schema travels as JSON: the unserialisable example becomes what YAML loaders give
        for op in path_item.values():
            for prm in op.get("parameters", []):
                ex = prm.get("schema", {}).get("example")
                if ex is not None and not isinstance(ex, (str, int, float, bool)):
                    prm["schema"]["example"] = str(ex)
    lines: list[dict] = []
    lock = threading.Lock()

    def behaviour(r):
        if r.path.endswith("/openapi.json"):
            return 200, [("Content-Type", "application/json")], json.dumps(raw).encode()
        op, bad, status = 0, False, 200
        if r.path.startswith("/o"):
            try:
                op = int(r.path[2:])
            except ValueError:
                op = 0
            beh = desc["ops"][op - 1] if 1 <= op <= nops else "ok"
            if beh == "bad":
                status, bad = 500, True
            elif beh == "badif":
                q = 0
                for part in r.query.split("&"):
                    if part.startswith("q="):
                        try:
                            q = int(part[2:])
                        except ValueError:
                            q = 0
                if q > 100:
                    status, bad = 500, True
            elif beh == "neterr":
                bad, status = True, -1
        with lock:
            lines.append({"e": "R", "op": op, "bad": bad, "ph": 4, "dg": len(lines) + 1, "t": int(r.t_ms)})
        if status == -1:
            raise ConnectionAbortedError("scripted network error")
        return json_response(status, {})

    d = tempfile.mkdtemp(prefix="verif-cli-")
    try:
        with LoopbackServer(behaviour) as srv:
            cmd = ["/venv/bin/st", "run", srv.base_url + "/openapi.json", "--phases", ",".join(p for p in desc["phases"] if p != "stateful"),
                   "--max-examples", str(desc.get("max_examples", 2)), "--checks", "not_a_server_error", "--workers", str(desc.get("workers", 1)),
                   "--seed", str(desc.get("seed", 1))]
            if desc.get("max_failures"):
                cmd += ["--max-failures", str(desc["max_failures"])]
            if desc.get("cof"):
                cmd += ["--continue-on-failure"]
            env = dict(os.environ, COLUMNS="200", NO_COLOR="1", TERM="dumb")
            env.pop("SCHEMATHESIS_HOOKS", None)
            if desc.get("handler_fault"):
                with open(os.path.join(d, "verifhooks.py"), "w") as fd:
                    fd.write("import schemathesis\nfrom schemathesis import cli\nfrom schemathesis.engine import events\n\n"
                             "@cli.handler()\nclass Boom(cli.EventHandler):\n"
                             "    def handle_event(self, ctx, event):\n"
                             "        if isinstance(event, events.ScenarioFinished):\n"
                             "            raise RuntimeError('injected handler fault')\n")
                env["SCHEMATHESIS_HOOKS"] = "verifhooks"
            proc = subprocess.run(cmd, capture_output=True, text=True, cwd=d, env=env, timeout=300)
    finally:
        shutil.rmtree(d, ignore_errors=True)
    lines.append({"e": "X", "code": int(proc.returncode), "ph": 5})
    full_lines = []
    for ln in lines:
        full = {"e": "", "k": "", "ph": 0, "su": 0, "sc": 0, "op": 0, "st": "", "skip": "", "en": True, "bad": False, "dg": 0,
                "thr": 0, "nfail": 0, "reqok": True, "code": 0, "site": "", "exc": "", "stop": False, "fails": 0, "limit": False,
                "rel": True, "err": "", "case": 0, "ctxerr": "", "t": 0, "role": "", "tok": "", "statlost": 0}
        full.update(ln)
        full_lines.append(full)
    hdr = {"nops": nops, "unitops": nops, "workers": desc.get("workers", 1), "maxfail": desc.get("max_failures", 0) or 0,
           "maxex": desc.get("max_examples", 2), "cof": bool(desc.get("cof")), "unique": False,
           "enabled": [p in desc["phases"] for p in PHASES], "steps": 3, "rateL": 0, "rateW": 1000, "cli": True,
           "handlerfault": bool(desc.get("handler_fault")), "hasfault": False, "faultfired": False,
           "invalid": [i for i, b in enumerate(desc["ops"], 1) if b == "invalid"],
           "weird": [], "wall_ms": 0, "diverged": "", "followed": 0, "tail": (proc.stdout + proc.stderr)[-600:]}
    return {"hdr": hdr, "lines": full_lines, "desc": dict(desc, cli=True)}
