"""C16 - report files are well-formed and faithful to the traffic.

(a) spec/Reports.tla enumerates event histories (TLC); each is replayed as REAL events (ScenarioRecorder, Case, Response,
    ScenarioFinished / NonFatalError / EngineFinished) into the real ExecutionContext.on_event, JunitXMLHandler and both
    CassetteWriters exactly the way cli/commands/run/executor.py:_execute drives them; Statistic snapshots, crashes and the
    three files are judged by spec/ReportsTrace.tla.
(b) spec/ReportsYaml.tla states the YAML subset of the hand-written VCR writer as fold automata and enumerates the string
    family; each string is placed into every user-controlled field of one exchange, the real files are produced and the raw
    VCR text is judged line by line by spec/ReportsYamlJudge.tla (HAR / JUnit: json / xml.etree for projection only).
    The scanner model itself is cross-checked against PyYAML on every enumerated string.
"""
from __future__ import annotations

import base64
import io
import json
import os
import random
import re
import shutil
import subprocess
import sys
import tempfile
import threading
import time
import uuid

from . import common, tlc
from .common import Ctx, Outcome, Violation

RAW = {
    "openapi": "3.0.2",
    "info": {"title": "t", "version": "1"},
    "paths": {"/a": {"get": {"responses": {"200": {"description": "ok"}}}}},
}
TITLE = {1: "F1", 2: "F2"}
BASE = "http://127.0.0.1:8080"
FIELDS = ["url-path", "url-query", "req-header", "resp-header", "req-body", "resp-body", "title", "message",
          "cov-description", "reason", "command", "req-form", "req-cookie", "resp-set-cookie", "url-userinfo"]
WIRE_FIELDS = ("url-path", "url-query", "req-header", "resp-header", "req-body", "resp-body", "reason", "req-form", "req-cookie",
               "resp-set-cookie")
CTYPES = ["application/json", "text/plain", "application/octet-stream"]  # -> requests' encoding: utf-8, ISO-8859-1, None
CLASS = {97: "alnum", 39: "squote", 34: "dquote", 92: "backslash", 58: "colon", 35: "hash", 10: "newline", 0: "nul",
         8232: "u2028", 233: "latin1", 55296: "surrogate", 32: "space", 45: "dash", 123: "brace", 91: "bracket", 128512: "astral", 1: "c0-control", 133: "nel", 156: "c1-control"}
_state: dict = {}


def cp(s: str) -> list[int]:
    return [ord(c) for c in s]


def _setup() -> dict:
    if not _state:
        import warnings

        warnings.simplefilter("ignore")
        import requests
        import schemathesis
        from click.utils import LazyFile
        from schemathesis.cli.commands.run.context import ExecutionContext
        from schemathesis.cli.commands.run.handlers.cassettes import CassetteWriter
        from schemathesis.cli.commands.run.handlers.junitxml import JunitXMLHandler
        from schemathesis.cli.commands.run.reports import ReportFormat
        from schemathesis.core.failures import Failure
        from schemathesis.core.transport import Response
        from schemathesis.engine import Status, events
        from schemathesis.engine.phases import PhaseName
        from schemathesis.engine.recorder import ScenarioRecorder
        from schemathesis.generation import GenerationMode
        from schemathesis.generation.meta import CaseMetadata, ComponentInfo, ComponentKind, GenerationInfo, PhaseInfo

        schema = schemathesis.openapi.from_dict(RAW)

        def meta(kind: str, desc: str = "d"):
            if kind == "none":
                return None
            phase = PhaseInfo.coverage(desc, "query", "q", "query") if kind == "coverage" else \
                PhaseInfo.coverage(desc, None, None, None) if kind == "coverage-bare" else PhaseInfo.generate()
            return CaseMetadata(generation=GenerationInfo(time=0.5, mode=GenerationMode.POSITIVE),
                                components={ComponentKind.QUERY: ComponentInfo(mode=GenerationMode.POSITIVE)}, phase=phase)

        _state.update(requests=requests, op=schema["/a"]["GET"], LazyFile=LazyFile, ExecutionContext=ExecutionContext,
                      CassetteWriter=CassetteWriter, JunitXMLHandler=JunitXMLHandler, ReportFormat=ReportFormat,
                      Failure=Failure, Response=Response, Status=Status, events=events, PhaseName=PhaseName,
                      Recorder=ScenarioRecorder, meta=meta)
    return _state


# ------------------------------------------------------------------------------------------------------------------
# building real objects
# ------------------------------------------------------------------------------------------------------------------
class OutsideFragment(Exception):
    pass


class WireServer:
    """Loopback HTTP server for the wire mode: logs what it RECEIVED (raw request-target, headers, body) and answers exactly what the
    script says - status line with its own reason phrase and only the scripted headers (+ Content-Length)."""

    def __init__(self):
        from http.server import BaseHTTPRequestHandler, ThreadingHTTPServer

        outer = self
        self.script: dict = {}
        self.log: list[dict] = []
        self.lock = threading.Lock()

        class Handler(BaseHTTPRequestHandler):
            protocol_version = "HTTP/1.1"

            def log_message(self, *a, **k):
                pass

            def _handle(self):
                n = int(self.headers.get("Content-Length") or 0)
                body = self.rfile.read(n) if n else b""
                sc = outer.script_for(self.command, self.path, body) if callable(outer.script_for) else outer.script
                with outer.lock:
                    outer.log.append({"method": self.command, "target": self.path, "headers": list(self.headers.items()), "body": body,
                                      "script": sc})
                self.send_response_only(sc["status"], sc["reason"])
                for k, v in sc["headers"]:
                    self.send_header(k, v)
                if sc.get("truncate"):  # a chunked response that ends in the middle of a chunk: the client gets no response at all
                    self.send_header("Transfer-Encoding", "chunked")
                    self.end_headers()
                    self.wfile.write(b"10\r\nabc")
                    self.wfile.flush()
                    self.close_connection = True
                    return
                self.send_header("Content-Length", str(len(sc["body"])))
                self.end_headers()
                self.wfile.write(sc["body"])

            def __getattr__(self, name):
                if name.startswith("do_"):
                    return self._handle
                raise AttributeError(name)

        self.script_for = None
        self.httpd = ThreadingHTTPServer(("127.0.0.1", 0), Handler)
        self.httpd.daemon_threads = True
        self.base_url = "http://127.0.0.1:%d" % self.httpd.server_address[1]
        threading.Thread(target=self.httpd.serve_forever, kwargs={"poll_interval": 0.05}, daemon=True).start()

    def stop(self):
        self.httpd.shutdown()
        self.httpd.server_close()


_wire: dict = {}


def _wire_env(st):
    if "srv" not in _wire:  # created lazily, i.e. inside the (forked) worker process
        _wire["srv"] = WireServer()
        _wire["session"] = st["requests"].Session()
    return _wire["srv"], _wire["session"]


def cov_extra(meta_kind: str) -> list[dict]:
    full = meta_kind == "coverage"
    return [{"key": cp(k), "has": full, "v": cp(v) if full else []}
            for k, v in (("location", "query"), ("parameter", "q"), ("parameter_location", "query"))]


def make_exchange(st, rec, *, cid, url, req_headers=None, req_body=None, resp=True, status=200, reason="OK",
                  resp_headers=None, resp_body=b"{}", meta_kind="generate", cov_desc="d", checks=(), wire=False, method="GET"):
    """Record one case + its interaction + check results into the real recorder; return the delivered-exchange projection.
    wire=True: the request really travels to a loopback server and the response really comes back (requests -> Response.from_requests);
    the projection is then what the SERVER received and sent."""
    requests = st["requests"]
    case = st["op"].Case(meta=st["meta"](meta_kind, cov_desc))
    case.id = cid  # deterministic ids keep the set of distinct cassette lines small
    rh = resp_headers if resp_headers is not None else {"content-type": ["application/json"]}
    if wire:
        srv, session = _wire_env(st)
        url = srv.base_url + url[len(BASE):]
    try:
        request = requests.Request(method, url, headers=req_headers or {"X-Req": "1"}, data=req_body)
        # on the wire the request is prepared by the session, as `requests.Session.request` (used by the transport) does
        prepared = session.prepare_request(request) if wire else request.prepare()
    except Exception as exc:  # a request that `requests` refuses to build can never be delivered
        raise OutsideFragment("prepare: %s" % type(exc).__name__)
    rec.record_case(parent_id=None, transition=None, case=case)
    response = None
    seen = None
    if wire:
        srv.script = {"status": status, "reason": reason, "headers": [(k, v[0]) for k, v in rh.items()], "body": resp_body}
        del srv.log[:]
        try:
            raw = session.send(prepared, allow_redirects=False, timeout=10)
        except Exception as exc:  # the HTTP client refused the scripted response / request: it was never delivered
            _wire.pop("session").close()
            _wire["session"] = requests.Session()
            raise OutsideFragment("wire: client raised %s" % type(exc).__name__)
        if len(srv.log) != 1:
            raise OutsideFragment("wire: %d requests reached the server" % len(srv.log))
        seen = srv.log[0]
        response = st["Response"].from_requests(raw, verify=False)
        rec.record_response(case_id=case.id, response=response)
    elif resp:
        response = st["Response"](status_code=status, headers=rh, content=resp_body, request=prepared, elapsed=0.25,
                                  verify=False, message=reason, encoding="utf-8")
        rec.record_response(case_id=case.id, response=response)
    else:
        rec.record_request(case_id=case.id, request=prepared)
    rec.interactions[case.id].timestamp = 1_700_000_000.0  # data, not code: keeps the set of distinct lines small
    if response is not None:
        response.elapsed = 0.25
    for name, fid, title, message in checks:
        if fid == 0:
            rec.record_check_success(name=name, case_id=case.id)
        else:
            rec.record_check_failure(name=name, case_id=case.id, code_sample="curl -X GET " + BASE + "/a",
                                     failure=st["Failure"](operation="GET /a", title=title, message=message))
    common_part = {"id": cp(case.id), "covDesc": {"has": meta_kind.startswith("coverage"), "v": cp(cov_desc)},
                   "covExtra": cov_extra(meta_kind), "meta": "coverage" if meta_kind.startswith("coverage") else meta_kind,
                   "code": cp(str(status)), "codeInt": status, "reason": cp(reason)}
    if seen is not None:  # ground truth = the server's side of the wire
        return dict(common_part, **{
            "method": cp(seen["method"]), "uri": cp(srv.base_url + seen["target"]),
            "reqHeaders": [{"name": cp(k), "value": cp(v)} for k, v in seen["headers"] if k.lower() != "host"],
            "hasReqBody": bool(seen["body"]) or prepared.body is not None, "reqBody": list(seen["body"]),
            "respHeaders": [{"name": cp(k.lower()), "value": cp(v)} for k, v in srv.script["headers"]]
                           + [{"name": cp("content-length"), "value": cp(str(len(resp_body)))}],
            "respBody": list(resp_body)})
    body = prepared.body.encode("utf-8") if isinstance(prepared.body, str) else prepared.body
    return dict(common_part, **{
        "method": cp(prepared.method), "uri": cp(prepared.url),
        "reqHeaders": [{"name": cp(k), "value": cp(v)} for k, v in prepared.headers.items()],
        "hasReqBody": body is not None, "reqBody": list(body or b""),
        "respHeaders": [{"name": cp(k.lower()), "value": cp(v[0])} for k, v in rh.items()] if resp else [],
        "respBody": list(resp_body) if resp else []})


SHAPES = {
    "ok": ("SUCCESS", [(True, [0])]),
    "f1": ("FAILURE", [(True, [1])]),
    "f2": ("FAILURE", [(True, [0, 2])]),
    "f12": ("FAILURE", [(True, [1]), (True, [1, 2])]),
    "neterr": ("ERROR", [(False, [])]),
    "nochecks": ("SUCCESS", [(True, [])]),
    "lost": ("ERROR", [(None, []), (True, [0]), (None, []), (True, [0]), (None, [])]),  # None = recorded case without an interaction
    "skip": ("SKIP", []),
    "empty": ("ERROR", []),
}
META = {1: "none", 2: "coverage", 3: "generate"}


def build_events(st, events_desc: list[dict]):
    """History descriptor -> real engine events + the delivered exchanges in delivery order."""
    ev, PhaseName, Status = st["events"], st["PhaseName"], st["Status"]
    out, exch = [], []
    suite = uuid.uuid4()
    for k, e in enumerate(events_desc, 1):
        phase = PhaseName.STATEFUL_TESTING if e["label"] == "Stateful tests" else \
            {1: PhaseName.EXAMPLES, 2: PhaseName.COVERAGE, 3: PhaseName.FUZZING}[e["phase"]]
        if e["kind"] == "NF":
            out.append(ev.NonFatalError(error=RuntimeError("boom %d" % k), phase=phase, label=e["label"], related_to_operation=True))
            continue
        status, cases = SHAPES[e["shape"]]
        rec = st["Recorder"](label=e["label"])  # a final scenario (Reports!CanBeFinal) carries a recorder like any other
        for c, (resp, checks) in enumerate(cases, 1):
            if resp is None:  # the case is recorded, nothing was sent / the transport failed without a prepared request to keep
                lost = st["op"].Case(meta=st["meta"](META[e["phase"]], "d"))
                lost.id = "e%dc%d" % (k, c)
                rec.record_case(parent_id=None, transition=None, case=lost)
                continue
            failed = any(checks)
            exch.append(make_exchange(
                st, rec, cid="e%dc%d" % (k, c), url="%s/a?e=%d&c=%d" % (BASE, k, c), resp=resp,
                status=500 if failed else 200, reason="Internal Server Error" if failed else "OK",
                req_body=b"k=%d" % k if c == 2 else None, resp_body=b'{"ev": %d}' % k,
                meta_kind="coverage-bare" if (META[e["phase"]] == "coverage" and (k + c) % 2) else META[e["phase"]],
                checks=[("chk", f, TITLE.get(f), "m%d" % f) for f in checks]))
        out.append(ev.ScenarioFinished(
            id=uuid.uuid4(), phase=phase, suite_id=suite, label=None if e["label"] == "Stateful tests" else e["label"],
            status=Status[status], recorder=rec, elapsed_time=0.01, skip_reason="why" if e["shape"] == "skip" else None,
            is_final=bool(e.get("final", False))))
    out.append(ev.EngineFinished(running_time=0.1))
    return out, exch


# ------------------------------------------------------------------------------------------------------------------
# running the real reporters the way executor._execute does
# ------------------------------------------------------------------------------------------------------------------
def _snap(statistic) -> dict:
    def key(case_id: str) -> tuple[int, int]:
        e, c = case_id[1:].split("c")
        return int(e), int(c)

    grouped = []
    for label, groups in statistic.failures.items():
        for case_id, group in groups.items():
            for f in group.failures:
                e, c = key(case_id)
                grouped.append({"label": label, "ev": e, "case": c, "f": int(f.title[1:])})
    unique = []
    for f, case_id in statistic.unique_failures_map.items():
        e, c = key(case_id)
        unique.append({"f": int(f.title[1:]), "ev": e, "case": c})
    return {"grouped": grouped, "unique": unique}


def run_reporters(st, events: list, *, preserve: bool = False, sanitize: bool = False, snapshots: bool = True) -> dict:
    """Mirror of executor._execute: start, (ctx.on_event; handler.handle_event)*, shutdown; then read the files back."""
    d = tempfile.mkdtemp(prefix="c16-")
    LazyFile, RF = st["LazyFile"], st["ReportFormat"]
    paths = {n: os.path.join(d, n) for n in ("junit.xml", "vcr.yaml", "har.json")}
    files = {n: LazyFile(p, mode="w", encoding="utf-8") for n, p in paths.items()}
    thread_errors: list[str] = []
    old_hook = threading.excepthook
    threading.excepthook = lambda a: thread_errors.append("%s:%s" % (a.thread.name if a.thread else "?", a.exc_type.__name__))
    crash_at, crash_site = 0, ""
    snaps = []
    try:
        handlers = [
            st["JunitXMLHandler"](files["junit.xml"]),
            st["CassetteWriter"](format=RF.VCR, path=files["vcr.yaml"], sanitize_output=sanitize, preserve_bytes=preserve),
            st["CassetteWriter"](format=RF.HAR, path=files["har.json"], sanitize_output=sanitize, preserve_bytes=preserve),
        ]
        ctx = st["ExecutionContext"](seed=1)
        for h in handlers:
            h.start(ctx)
        try:
            for k, event in enumerate(events, 1):
                try:
                    ctx.on_event(event)
                except Exception as exc:
                    crash_at, crash_site = k, "ExecutionContext.on_event:" + type(exc).__name__
                    break
                if snapshots and k < len(events):
                    snaps.append(_snap(ctx.statistic))
                for h in handlers:
                    try:
                        h.handle_event(ctx, event)
                    except Exception as exc:
                        crash_at, crash_site = k, "%s.handle_event:%s" % (type(h).__name__, type(exc).__name__)
                        break
                if crash_at:
                    break
        finally:
            for h in handlers:
                try:
                    h.shutdown(ctx)
                except Exception as exc:
                    if not crash_at:
                        crash_at, crash_site = len(events) + 1, "%s.shutdown:%s" % (type(h).__name__, type(exc).__name__)
        for h in handlers[1:]:
            if h.worker.is_alive():
                h.worker.join(120)  # the real process waits for the (non-daemon) writer thread at exit
                if h.worker.is_alive() and not crash_at:
                    crash_at, crash_site = len(events) + 1, "CassetteWriter.worker:still-running"
        if thread_errors and not crash_at:
            crash_at, crash_site = len(events) + 1, "writer-thread:" + thread_errors[0].split(":")[-1]
        for f in files.values():  # what process exit does
            try:
                f.close()
            except Exception:
                pass
        out = {"crashAt": crash_at, "crashSite": crash_site, "snaps": snaps}
        for n, p in paths.items():
            try:
                with open(p, encoding="utf-8", errors="surrogateescape", newline="") as fd:
                    out[n] = fd.read()
            except FileNotFoundError:
                out[n] = None
        return out
    finally:
        threading.excepthook = old_hook
        shutil.rmtree(d, ignore_errors=True)


# ------------------------------------------------------------------------------------------------------------------
# projections of the files (json / xml.etree: projection only; a parse error is the observation "not well-formed")
# ------------------------------------------------------------------------------------------------------------------
def project_har(text: str | None) -> dict:
    if text is None:
        return {"ok": False, "entries": []}
    try:
        data = json.loads(text)
        entries = []
        for e in data["log"]["entries"]:
            rq, rs = e["request"], e["response"]
            post = rq.get("postData")
            content = rs.get("content") or {}
            entries.append({
                "method": cp(rq["method"]), "url": cp(rq["url"]),
                "reqHeaders": [{"name": cp(h["name"]), "value": cp(h["value"])} for h in rq["headers"]],
                "hasPost": post is not None and post.get("text") is not None, "postText": cp((post or {}).get("text") or ""),
                "status": int(rs["status"]), "reason": cp(rs.get("statusText") or ""),
                "respHeaders": [{"name": cp(h["name"]), "value": cp(h["value"])} for h in rs["headers"]],
                "hasText": content.get("text") is not None, "text": cp(content.get("text") or ""),
                "b64": content.get("encoding") == "base64",
            })
        return {"ok": True, "entries": entries}
    except Exception:
        return {"ok": False, "entries": []}


def project_junit(text: str | None) -> dict:
    import xml.etree.ElementTree as ET

    if text is None:
        return {"ok": False, "cases": []}
    try:
        root = ET.fromstring(text.encode("utf-8", "surrogateescape"))
        cases = []
        for tc in root.iter("testcase"):
            msgs = [(f.get("message") or "") + (f.text or "") for f in tc.findall("failure")]
            titles = sorted(f for f, t in TITLE.items() if any(re.search(r"- %s(\s|$)" % t, m) for m in msgs))
            cases.append({"label": tc.get("name"), "errors": len(tc.findall("error")), "skipped": len(tc.findall("skipped")),
                          "failures": len(msgs), "titles": titles})
        return {"ok": True, "cases": cases}
    except Exception:
        return {"ok": False, "cases": []}


def split_lines(text: str | None) -> list[list[int]]:
    return [] if text is None else [cp(l) for l in text.split("\n")]


class Pool:
    """Distinct values -> 1-based index (TLC scans every distinct cassette line once)."""

    def __init__(self):
        self.idx: dict = {}
        self.items: list = []

    def add(self, value) -> int:
        key = json.dumps(value, sort_keys=True) if not isinstance(value, tuple) else value
        i = self.idx.get(key)
        if i is None:
            self.items.append(list(value) if isinstance(value, tuple) else value)
            i = self.idx[key] = len(self.items)
        return i


# driver-side (independent) reading of the cassette with PyYAML / libyaml - only to cross-check TLC's verdict
def py_vcr_ok(text: str | None, exch: list[dict], entries: list[dict], preserve: bool, uri_exact: bool = True,
              command: dict | None = None) -> bool:
    import yaml

    if text is None:
        return False
    if "\x85" in text or "\r" in text:  # PyYAML folds these breaks inside quotes; the one-line emitter grammar (ReportsYaml!Inline) has none
        return False
    try:
        doc = yaml.load(text, Loader=yaml.SafeLoader)  # the pure-Python loader the TLA+ scanners are cross-checked against
    except Exception:
        return False
    try:
        if command and command["has"] and (not isinstance(doc.get("command"), str) or
                                           (command["exact"] and cp(doc["command"]) != command["v"])):
            return False
        items = doc["http_interactions"] or []
        if len(items) != len(entries) or len(exch) != len(entries):
            return False
        for it, x, e in zip(items, exch, entries):
            if cp(it["id"]) != x["id"] or it["status"] != e["status"]:
                return False
            rq = it["request"]
            if (uri_exact and not _uri_matches(rq["uri"], x["uri"])) or cp(rq["method"]) != x["method"]:
                return False
            hs = rq["headers"] or {}
            if uri_exact and [(cp(k), cp(v[0])) for k, v in hs.items()] != [(h["name"], h["value"]) for h in x["reqHeaders"]]:
                return False
            if not _py_body_ok(rq.get("body"), x["hasReqBody"], bytes(x["reqBody"]), preserve):
                return False
            chk = it["checks"] or []
            if e.get("checks_exact", True):
                if len(chk) != len(e["checks"]):
                    return False
                for c, ce in zip(chk, e["checks"]):
                    if c["name"] != ce["name"] or c["status"] != ce["status"] or c["message"] != ce["message"]:
                        return False
            elif not all(any(c["name"] == ce["name"] and c["status"] == ce["status"] and c["message"] == ce["message"] for c in chk)
                         for ce in e["checks"]):
                return False
            if e["resp"]:
                rs = it["response"]
                if cp(rs["status"]["code"]) != x["code"] or cp(rs["status"]["message"]) != x["reason"]:
                    return False
                hs = rs["headers"] or {}
                if uri_exact and [(cp(k), cp(v[0])) for k, v in hs.items()] != [(h["name"], h["value"]) for h in x["respHeaders"]]:
                    return False
                if not _py_body_ok(rs.get("body"), True, bytes(x["respBody"]), preserve):
                    return False
            elif it["response"] is not None:
                return False
            if e["meta"] == "none":
                if "generation" in it or "phase" in it:
                    return False
            else:
                if it["phase"]["name"] != e["meta"] or "mode" not in it["generation"]:
                    return False
                if e["meta"] == "coverage":
                    data = it["phase"]["data"]
                    if cp(data["description"]) != x["covDesc"]["v"]:
                        return False
                    for extra in x["covExtra"]:
                        got = data["".join(map(chr, extra["key"]))]
                        if (got is None) == extra["has"] or (extra["has"] and cp(got) != extra["v"]):
                            return False
        return True
    except Exception:
        return False


def _uri_matches(recorded: str, sent: list[int]) -> bool:
    return cp(recorded) == sent or cp(recorded.split("#", 1)[0]) == sent


def _py_body_ok(body, has: bool, raw: bytes, preserve: bool) -> bool:
    if not has or (raw == b"" and body is None):
        return body is None or not (body.get("string") or body.get("base64_string"))
    if body is None:
        return False
    if preserve:
        try:
            return base64.b64decode(body["base64_string"], validate=True) == raw
        except Exception:
            return False
    enc = str(body.get("encoding", "")).lower()
    if not isinstance(body.get("string"), str):
        return False
    if enc in ("iso-8859-1", "latin-1", "latin1"):
        return cp(body["string"]) == list(raw)
    if enc not in ("utf-8", "utf8"):
        return True
    try:
        text = raw.decode("utf-8")
    except UnicodeDecodeError:
        return True
    return body.get("string") == text


def py_har_ok(har: dict, exch: list[dict], entries: list[dict], preserve: bool, uri_exact: bool = True) -> bool:
    if not har["ok"] or len(har["entries"]) != len(entries) or len(exch) != len(entries):
        return False

    def body_ok(has_field, text, b64, has, raw, tag_preserve):
        if not has or (raw == b"" and not has_field):
            return not (has_field and text)
        if not has_field:
            return False
        if tag_preserve:
            try:
                return base64.b64decode("".join(map(chr, text)), validate=True) == raw
            except Exception:
                return False
        try:
            t = raw.decode("utf-8")
        except UnicodeDecodeError:
            return True
        return text == cp(t) and not b64

    def hset(hs):
        return sorted((tuple(h["name"]), tuple(h["value"])) for h in hs)

    for h, x, e in zip(har["entries"], exch, entries):
        if h["method"] != x["method"] or (uri_exact and not _uri_matches("".join(map(chr, h["url"])), x["uri"])) or \
                (uri_exact and hset(h["reqHeaders"]) != hset(x["reqHeaders"])):
            return False
        if not body_ok(h["hasPost"], h["postText"], preserve, x["hasReqBody"], bytes(x["reqBody"]), preserve):
            return False
        if e["resp"]:
            if h["status"] != x["codeInt"] or h["reason"] != x["reason"] or \
                    (uri_exact and hset(h["respHeaders"]) != hset(x["respHeaders"])):
                return False
            if not body_ok(h["hasText"], h["text"], h["b64"], True, bytes(x["respBody"]), preserve):
                return False
        elif h["status"] != 0 or h["respHeaders"] or h["hasText"]:
            return False
    return True


def py_junit_ok(j: dict, expected: list[dict]) -> bool:
    if not j["ok"] or [c["label"] for c in j["cases"]] != [c["label"] for c in expected]:
        return False
    return all(o["errors"] == e["errors"] and o["skipped"] == e["skipped"] and o["titles"] == sorted(e["titles"])
               for o, e in zip(j["cases"], expected))


# ------------------------------------------------------------------------------------------------------------------
# (a) histories
# ------------------------------------------------------------------------------------------------------------------
def observe_history(h: dict) -> dict:
    st = _setup()
    events, exch = build_events(st, h["events"])
    r = run_reporters(st, events)
    o = {"events": h["events"], "exch": exch, "crashAt": r["crashAt"], "crashSite": r["crashSite"], "snaps": r["snaps"],
         "vcr": r["vcr.yaml"], "har": project_har(r["har.json"]), "junit": project_junit(r["junit.xml"])}
    if "entries" in h:  # the driver's own verdict (PyYAML is slow: computed here, in the worker processes)
        o["py"] = sorted(py_history_verdict(h, o))
    return o


def _expected_entries(h: dict) -> list[dict]:
    return [{"status": e["status"], "resp": e["resp"], "meta": e["meta"],
             "checks": [{"name": "chk", "status": "FAILURE" if c["fail"] else "SUCCESS", "message": TITLE.get(c["fail"])}
                        for c in e["checks"]]} for e in h["entries"]]


def py_history_verdict(h: dict, o: dict) -> set[str]:
    """Driver-side comparison (components that disagree) - must coincide with TLC's verdict."""
    bad = set()
    for k, s in enumerate(o["snaps"], 1):
        exp = h["snaps"][k - 1]
        canon = lambda rows: sorted(json.dumps(r, sort_keys=True) for r in rows)
        if canon(s["grouped"]) != canon(exp["grouped"]) or canon(s["unique"]) != canon(exp["unique"]):
            bad.add("stat")
    if o["crashAt"]:
        bad.add("crash")
        return bad
    entries = _expected_entries(h)
    if not py_vcr_ok(o["vcr"], o["exch"], entries, False):
        bad.add("vcr")
    if not py_har_ok(o["har"], o["exch"], entries, False):
        bad.add("har")
    if not py_junit_ok(o["junit"], h["junit"]):
        bad.add("junit")
    return bad


RELEVANT = {"JunitXMLHandler": ("failure-scenario-without-group-under-label",),
            "ExecutionContext": ("all-failures-already-seen", "no-response", "case-without-interaction"),
            "CassetteWriter": ("case-without-metadata", "no-response", "case-without-interaction"),
            "writer-thread": ("case-without-metadata", "no-response", "case-without-interaction")}


def history_signature(h: dict, o: dict, comp: str, n: int, detail: str) -> str:
    """<property>:<writer/site>:<class of the history>. The class comes from the hazards the spec attached to the event
    (crash) or from the spec's description of the cassette entry that contains the offending line / field."""
    if comp == "crash":
        k = o["crashAt"]
        # a writer thread dies asynchronously (seen at shutdown): any event of the history may be the cause
        hz = h["hazards"][k - 1] if 0 < k <= len(h["hazards"]) else {x for hs in h["hazards"] for x in hs}
        key = [x for x in sorted(hz) if x in RELEVANT.get(o["crashSite"].split(".")[0].split(":")[0], ())]
        return "C16:crash:%s:%s" % (o["crashSite"], "+".join(key) or "any-history")
    if comp == "vcr" and detail == "malformed":
        lines = (o["vcr"] or "").split("\n")
        entry = sum(1 for l in lines[:n] if l.startswith("- id:"))
        e = h["entries"][entry - 1] if 0 < entry <= len(h["entries"]) else None
        return "C16:vcr:malformed-line:%s:%s" % (_line_key(cp(lines[n - 1])) if 0 < n <= len(lines) else "?",
                                                  "meta=%s" % e["meta"] if e else "header")
    if comp in ("vcr", "har") and 0 < n <= len(h["entries"]):
        e = h["entries"][n - 1]
        return "C16:%s:%s:meta=%s+resp=%s+checks=%d" % (comp, detail, e["meta"], e["resp"], len(e["checks"]))
    hz_all = sorted({x for hs in h["hazards"] for x in hs} - {"repeated-label"})
    return "C16:%s:%s:%s" % (comp, detail, "+".join(hz_all) or "plain-history")


def judge_histories(ctx: Ctx, hs: list[dict], obs: list[dict], tag: str) -> tuple[dict[int, set], int, float]:
    """TLC judges every replay. Returns {index -> set of (component, n, tag)} and the number of states TLC visited."""
    chunks = [list(range(i, min(i + 6000, len(hs)))) for i in range(0, len(hs), 6000)]
    results: dict[int, set] = {}
    total_states = 0
    t0 = time.time()

    def run_chunk(ci: int):
        idxs = chunks[ci]
        lines, xs, hp = Pool(), Pool(), Pool()
        traces = []
        for i in idxs:
            o = obs[i]
            traces.append({
                "events": o["events"], "snaps": o["snaps"], "crashAt": o["crashAt"], "crashSite": o["crashSite"] or "-",
                "exch": [xs.add(x) for x in o["exch"]],
                "vcr": {"written": o["vcr"] is not None, "doc": [lines.add(tuple(l)) for l in split_lines(o["vcr"])]},
                "har": {"ok": o["har"]["ok"], "entries": [hp.add(e) for e in o["har"]["entries"]]},
                "junit": o["junit"],
            })
        f = ctx.path("hist-%s-%d.json" % (tag, ci))
        tlc.write_json(f, {"pool": lines.items, "xpool": xs.items, "hpool": hp.items, "traces": traces})
        found: list = []
        res = tlc.require_ok(tlc.run_tlc("ReportsTrace", "ReportsTrace.cfg", env={"OBS_FILE": f}, workers=4, timeout=3000,
                                         heap="6g", on_json=lambda t, d: found.append(d), want_prints=False),
                             "ReportsTrace chunk %d" % ci)
        return idxs, res, found

    threads_out: list = [None] * len(chunks)

    def worker(ci):
        try:
            threads_out[ci] = run_chunk(ci)
        except BaseException as exc:  # re-raised below
            threads_out[ci] = exc

    ts = []
    for ci in range(len(chunks)):
        t = threading.Thread(target=worker, args=(ci,))
        t.start()
        ts.append(t)
        if len(ts) >= 4:
            ts.pop(0).join()
    for t in ts:
        t.join()
    for r in threads_out:
        if isinstance(r, BaseException):
            raise r
        idxs, res, found = r
        total_states += res.distinct
        for d in found:
            results.setdefault(idxs[d["i"] - 1], set()).update((x[0], x[1], x[2]) for x in d["v"])
    return results, total_states, time.time() - t0


# ------------------------------------------------------------------------------------------------------------------
# (b) emitter grammar: one string in one field of one exchange
# ------------------------------------------------------------------------------------------------------------------
# fields whose text the VCR writer quotes by hand; only these get the longest strings of the thorough family
HAND_QUOTED = ("url-path", "url-query", "title", "command", "cov-description", "req-body", "resp-body")


def variants(field: str, length: int = 0, max_len: int = 3) -> list[dict]:
    """Variants exercised for a field and a string length: preserve_bytes, sanitize_output, wire (the exchange really crosses a
    loopback HTTP connection) and, on the wire, the response media type (decides the character encoding `requests` reports)."""
    plain = {"preserve": False, "sanitize": False, "wire": False, "ctype": 0}
    if length >= 3 and length == max_len:
        return [plain] if field in HAND_QUOTED else []
    out = [plain] if field not in ("req-form",) else []
    if field in ("req-body", "resp-body"):
        out.append(dict(plain, preserve=True))
    if field in ("url-path", "url-query", "command", "url-userinfo", "req-header", "resp-header"):
        out.append(dict(plain, sanitize=True))  # headers: a name that is not sanitised, every character class of the value
    if field in WIRE_FIELDS:
        out.append(dict(plain, wire=True, ctype=length % 3))
        if field == "resp-body":
            out += [dict(plain, wire=True, ctype=(length + 1) % 3), dict(plain, wire=True, ctype=(length + 2) % 3),
                    dict(plain, wire=True, preserve=True, ctype=1)]
    return out


def observe_string(case: dict) -> dict:
    """case = {s: code points, field, preserve, sanitize}. Returns the observation or {"skip": reason}."""
    st = _setup()
    s = "".join(map(chr, case["s"]))
    field = case["field"]
    wire = case.get("wire", False)
    kw: dict = {"cid": "e1c1", "url": BASE + "/a?e=1&c=1", "checks": [("chk", 0, None, ""), ("chk", 1, "F1", "m1")],
                "meta_kind": "coverage-bare" if field == "cov-description" else "coverage", "wire": wire}
    if wire:
        kw["resp_headers"] = {"content-type": [CTYPES[case.get("ctype", 0)]]}
    latin1_line = all(ord(c) < 256 and c not in "\r\n" for c in s) and s == s.strip(" ")
    if field == "url-path":
        kw["url"] = BASE + "/a/" + s
    elif field == "url-query":
        kw["url"] = BASE + "/a?q=" + s
    elif field == "url-userinfo":
        kw["url"] = BASE.replace("://", "://user:%s@" % s) + "/a?e=1&c=1"  # credentials in the base URL stay in the prepared URL
    elif field == "req-header":
        if not latin1_line:
            return {"skip": "header value not sendable (latin-1, no CR/LF, no outer space)"}
        kw["req_headers"] = {"X-Canary": s}
    elif field == "resp-header":
        if not latin1_line:
            return {"skip": "header value not receivable (latin-1, no CR/LF, no outer space)"}
        kw["resp_headers"] = dict(kw.get("resp_headers") or {"content-type": ["application/json"]}, **{"x-canary": [s]})
    elif field == "req-body":
        kw["req_body"] = s.encode("utf-8", "surrogatepass")
    elif field == "resp-body":
        kw["resp_body"] = s.encode("utf-8", "surrogatepass")
    elif field == "title":
        kw["checks"] = [("chk", 0, None, ""), ("chk", 1, s, "m1")]
    elif field == "message":
        kw["checks"] = [("chk", 0, None, ""), ("chk", 1, "F1", s)]
    elif field == "cov-description":
        kw["cov_desc"] = s
    elif field == "reason":
        if not latin1_line or s != s.strip():  # http.client strips the status line's reason with str.strip() (NEL is white space there)
            return {"skip": "reason phrase not receivable"}
        kw["reason"] = s
    elif field == "req-form":
        kw["req_body"] = {"k": s}  # `requests` encodes it to a str body (application/x-www-form-urlencoded)
        kw["method"] = "POST"
    elif field == "req-cookie":
        if not latin1_line:
            return {"skip": "header value not sendable (latin-1, no CR/LF, no outer space)"}
        kw["req_headers"] = {"Cookie": "sid=" + s}
    elif field == "resp-set-cookie":
        if not latin1_line:
            return {"skip": "header value not receivable (latin-1, no CR/LF, no outer space)"}
        kw["resp_headers"] = dict(kw.get("resp_headers") or {"content-type": ["application/json"]}, **{"set-cookie": ["sid=%s; Path=/" % s]})
    if wire and field in ("req-body",):
        kw["method"] = "POST"
    argv = ["/venv/bin/st", "run", BASE + "/openapi.json", "--include-name", s] if field == "command" else None
    rec = st["Recorder"](label="GET /a")
    try:
        x = make_exchange(st, rec, **kw)
    except OutsideFragment as exc:
        return {"skip": str(exc)}
    ev = st["events"]
    events = [ev.ScenarioFinished(id=uuid.uuid4(), phase=st["PhaseName"].COVERAGE, suite_id=uuid.uuid4(), label="GET /a",
                                  status=st["Status"].FAILURE, recorder=rec, elapsed_time=0.01, skip_reason=None, is_final=False),
              ev.EngineFinished(running_time=0.1)]
    old_argv = sys.argv
    try:
        if argv:
            sys.argv = argv  # data the writer reads (cassettes.get_command_representation), as under the real `st` entry point
        r = run_reporters(st, events, preserve=case["preserve"], sanitize=case["sanitize"], snapshots=False)
    finally:
        sys.argv = old_argv
    command = {"has": argv is not None, "exact": not case["sanitize"], "v": cp("st " + " ".join(argv[1:])) if argv else []}
    title = kw["checks"][1][2]
    x["checks"] = [{"name": cp("chk"), "status": cp("SUCCESS"), "hasMsg": False, "msg": []},
                   {"name": cp("chk"), "status": cp("FAILURE"), "hasMsg": True, "msg": cp(title)}]
    x["hasResp"] = True
    x["checksExact"] = True
    o = {"xs": [x], "command": command, "crashAt": r["crashAt"], "crashSite": r["crashSite"], "vcr": r["vcr.yaml"],
         "har": project_har(r["har.json"]), "junitOk": project_junit(r["junit.xml"])["ok"], "title": title}
    o["py"] = sorted(py_string_verdict(case, o))
    return o


TEXT_FIELDS = ("title", "message", "cov-description", "command")


def vcr_judged(case: dict) -> bool:
    """A lone surrogate is not a Unicode scalar value: YAML has no representation for it (PyYAML reads "\\uD800", libyaml
    rejects it), so the cassette of a text field containing one is outside the judged fragment (ReportsYamlJudge!VcrJudged)."""
    return not (case["field"] in TEXT_FIELDS and any(0xD800 <= c <= 0xDFFF for c in case["s"]))


def py_string_verdict(case: dict, o: dict) -> set[str]:
    bad = set()
    if o["crashAt"]:
        return {"crash"}
    entries = o.get("entries") or [{"status": "FAILURE", "resp": True, "meta": "coverage",
                                    "checks": [{"name": "chk", "status": "SUCCESS", "message": None},
                                               {"name": "chk", "status": "FAILURE", "message": o["title"]}]}]
    exact = not case["sanitize"]
    if vcr_judged(case) and not py_vcr_ok(o["vcr"], o["xs"], entries, case["preserve"], uri_exact=exact, command=o["command"]):
        bad.add("vcr")
    if not py_har_ok(o["har"], o["xs"], entries, case["preserve"], uri_exact=exact):
        bad.add("har")
    if not o["junitOk"]:
        bad.add("junit")
    return bad


def judge_strings(ctx: Ctx, cases: list[dict], obs: list[dict]) -> tuple[dict[int, set], int, float]:
    chunks = [list(range(i, min(i + 8000, len(cases)))) for i in range(0, len(cases), 8000)]
    results: dict[int, set] = {}
    states = 0
    t0 = time.time()
    outs: list = [None] * len(chunks)

    def run_chunk(ci: int):
        idxs = chunks[ci]
        lines = Pool()
        rows = []
        for i in idxs:
            c, o = cases[i], obs[i]
            rows.append({"field": c["field"], "s": c["s"], "preserve": c["preserve"], "uriExact": not c["sanitize"], "xs": o["xs"],
                         "command": o["command"],
                         "crashAt": o["crashAt"], "crashSite": o["crashSite"] or "-",
                         "vcr": {"written": o["vcr"] is not None, "doc": [lines.add(tuple(l)) for l in split_lines(o["vcr"])]},
                         "har": o["har"], "junitOk": o["junitOk"]})
        f = ctx.path("str-%d.json" % ci)
        tlc.write_json(f, {"pool": lines.items, "cases": rows})
        found: list = []
        try:
            outs[ci] = (idxs, tlc.require_ok(tlc.run_tlc("ReportsYamlJudge", "ReportsYamlJudge.cfg", env={"OBS_FILE": f},
                                                         workers=4, timeout=3000, heap="6g", want_prints=False,
                                                         on_json=lambda t, d: found.append(d)),
                                             "ReportsYamlJudge chunk %d" % ci), found)
        except BaseException as exc:
            outs[ci] = exc

    ts = []
    for ci in range(len(chunks)):
        t = threading.Thread(target=run_chunk, args=(ci,))
        t.start()
        ts.append(t)
        if len(ts) >= 4:
            ts.pop(0).join()
    for t in ts:
        t.join()
    for r in outs:
        if isinstance(r, BaseException):
            raise r
        idxs, res, found = r
        states += res.distinct
        for d in found:
            results.setdefault(idxs[d["i"] - 1], set()).update((x[0], x[1], x[2]) for x in d["v"])
    return results, states, time.time() - t0


def char_classes(s: list[int]) -> str:
    return "+".join(sorted({CLASS.get(c, "other") for c in s})) or "empty"


def subsequences(s: list[int]) -> list[tuple]:
    out = set()
    n = len(s)
    for mask in range(0, (1 << n) - 1):  # proper subsequences only
        out.add(tuple(s[i] for i in range(n) if mask >> i & 1))
    return list(out)


def crosscheck_pyyaml(strings: list[dict]) -> tuple[int, list]:
    """Binding of the spec's YAML model: TLA+ scanner verdicts vs PyYAML on the raw text used as 'S', "S" and S."""
    import yaml

    def load(text: str):
        try:
            v = yaml.load("k: " + text, Loader=yaml.SafeLoader)
            return ("ok", v["k"]) if isinstance(v, dict) and list(v) == ["k"] else ("struct", None)
        except Exception as exc:
            return ("err", type(exc).__name__)

    breaks = {10, 13, 0x85, 0x2028, 0x2029}
    mismatches = []
    n = 0
    for c in strings:
        s = "".join(map(chr, c["s"]))
        multiline = any(x in breaks for x in c["s"])
        for q, ok_key, val_key in (("'", "sqOk", "sqVal"), ('"', "dqOk", "dqVal")):
            text = q + s + q
            kind, v = load(text)
            n += 1
            if c[ok_key]:
                if not (kind == "ok" and isinstance(v, str) and cp(v) == c[val_key]):
                    mismatches.append((text, "tla accepts", c[val_key], kind, v))
            elif kind == "ok" and isinstance(v, str) and not multiline and (q + "#") not in text[1:]:
                # PyYAML tolerates '#' glued to a closing quote (YAML 1.1 7.3 requires separation); multi-line flow
                # scalars are valid YAML but outside the one-line emitter grammar
                mismatches.append((text, "tla rejects", None, kind, v))
        if c["plOk"]:
            n += 1
            if load(s)[0] != "ok":
                mismatches.append((s, "tla accepts plain", None) + load(s))
    return n, mismatches


# ------------------------------------------------------------------------------------------------------------------
# (c) the writer thread: queue + bounded join + slow sink
# ------------------------------------------------------------------------------------------------------------------
class SlowSink:
    """Stands in for the LazyFile of a report: every write() takes `delay` seconds (busy disk / network file system) and the
    calls that reach the file are logged in one total order (lock)."""

    def __init__(self, path: str, delay: float, log: list, lock: threading.Lock):
        self._fd = open(path, "w", encoding="utf-8")
        self._delay, self._log, self._lock = delay, log, lock
        self.writer_thread: threading.Thread | None = None
        self.name = path
        self.item = 0
        self.marker = "\n- id: '" if path.endswith(".yaml") else '"startedDateTime"'

    def open(self):
        return self

    def write(self, data: str) -> int:
        time.sleep(self._delay)
        n = self._fd.write(data)  # raises ValueError on a closed file - as the real LazyFile does
        if self.marker in data:  # the piece that opens the next exchange (content-based: item boundaries are observable)
            self.item += 1
        with self._lock:
            self._log.append(("W", self.item))
        return n

    def flush(self) -> None:
        if not self._fd.closed:
            self._fd.flush()

    def close(self) -> None:
        me = threading.current_thread()
        with self._lock:
            if me is not self.writer_thread and not self._fd.closed and self.writer_thread is not None and self.writer_thread.is_alive():
                self._log.append("CloseMain")
        self._fd.close()

    def __getattr__(self, name: str):
        return getattr(self._fd, name)


def writer_run(desc: dict) -> list[dict]:
    """One real run of both cassette writers on slow sinks, driven like executor._execute (start, events, shutdown), then the
    process-exit part (wait for the non-daemon writer threads, close the files). Returns one trace per format."""
    st = _setup()
    n = desc["n"]
    events, exch = build_events(st, [{"kind": "SF", "label": "GET /a", "phase": 3, "shape": "ok"} for _ in range(n)])
    events = events[:-1]  # EngineFinished is irrelevant for the cassettes
    d = tempfile.mkdtemp(prefix="c16w-")
    RF = st["ReportFormat"]
    lock = threading.Lock()
    runs = []
    died: dict[str, str] = {}
    old_hook = threading.excepthook
    threading.excepthook = lambda a: died.__setitem__(a.thread.name if a.thread else "?", a.exc_type.__name__ + ": " + str(a.exc_value)[:80])
    try:
        for fmt, delay, fname in ((RF.VCR, desc["vcr_delay"], "vcr.yaml"), (RF.HAR, desc["har_delay"], "har.json")):
            log: list[str] = []
            sink = SlowSink(os.path.join(d, fname), delay, log, lock)
            h = st["CassetteWriter"](format=fmt, path=sink, sanitize_output=False, preserve_bytes=False)
            h.worker.name = "writer-" + fmt.value
            sink.writer_thread = h.worker
            runs.append((fmt.value, sink, h, log))
        ctx = st["ExecutionContext"](seed=1)
        for _, _, h, log in runs:
            h.start(ctx)
            with lock:
                log.append("Start")
        for event in events:
            ctx.on_event(event)
            for _, _, h, log in runs:
                h.handle_event(ctx, event)
                with lock:
                    log.append("Enq")
        for _, _, h, log in runs:  # executor: `finally: shutdown()`
            with lock:
                log.append("PutFin")
            h.shutdown(ctx)
            with lock:
                log.append("JoinTimeout" if h.worker.is_alive() else "Joined")
        out = []
        for fmt, sink, h, log in runs:  # interpreter exit: waits for non-daemon threads, then files are closed
            h.worker.join(300)
            with lock:
                log.append("Died" if h.worker.name in died else "Done")
                log.append("Exit")
            sink.close()
            with open(sink.name, encoding="utf-8") as fd:
                text = fd.read()
            entries, ok = [], True
            try:
                if fmt == "vcr":
                    import yaml

                    doc = yaml.load(text, Loader=yaml.SafeLoader)
                    uris = [it["request"]["uri"] for it in doc["http_interactions"] or []]
                    ok = py_vcr_ok(text, exch, [{"status": "SUCCESS", "resp": True, "meta": "generate",
                                                 "checks": [{"name": "chk", "status": "SUCCESS", "message": None}]}] * n, False)
                else:
                    uris = [e["request"]["url"] for e in json.loads(text)["log"]["entries"]]
                entries = [int(re.search(r"[?&]e=(\d+)", u).group(1)) for u in uris]
            except Exception:
                ok = False
            out.append({"format": fmt, "events": log, "n": n, "entries": entries, "wellFormed": ok,
                        "timedOut": "JoinTimeout" in log, "died": died.get(h.worker.name, ""), "desc": desc})
        return out
    finally:
        threading.excepthook = old_hook
        shutil.rmtree(d, ignore_errors=True)


# ------------------------------------------------------------------------------------------------------------------
# (d) the front door: `st run --report junit,vcr,har` in a subprocess, judged against what the server saw and sent
# ------------------------------------------------------------------------------------------------------------------
CLI_SCHEMA = {"openapi": "3.0.2", "info": {"title": "t", "version": "1"}, "paths": {"/items": {"post": {
    "parameters": [{"name": "q", "in": "query", "required": True, "schema": {"type": "string"}}],
    "requestBody": {"required": True, "content": {"application/json": {"schema": {"type": "string"}}}},
    "responses": {"200": {"description": "ok"}}}},
    "/ping": {"get": {"parameters": [{"name": "n", "in": "query", "required": True, "schema": {"type": "integer", "minimum": 0, "maximum": 9}}],
                      "responses": {"200": {"description": "ok"}}}}}}
HOSTILE = b'\xff\x00 caf\xe9 "dq" \'sq\' \\ \n: #{[ \xe2\x80\xa8 end'


def _cli_script(method: str, path: str, body: bytes) -> dict:
    if path.startswith("/openapi.json"):
        return {"status": 200, "reason": "OK", "headers": [("Content-Type", "application/json")], "body": json.dumps(CLI_SCHEMA).encode()}
    if path.startswith("/ping"):
        return {"status": 200, "reason": "OK", "headers": [("Content-Type", "application/json")], "body": b'{"pong": true}'}
    kind = len(body) % 3
    return {"status": 500 if len(body) % 5 == 4 else 200, "reason": "It's \"fine\": #1", "truncate": len(body) % 4 == 3,
            "headers": [("Content-Type", CTYPES[kind]), ("X-Weird", "a'b\"c: #d \\ \xe9")],
            "body": HOSTILE if kind else b'{"ok": "\\ud800 \xc3\xa9"}'}


def cli_run(desc: dict) -> dict:
    """One real `st run` (subprocess) with all report formats; the delivered exchanges are read off the server log."""
    srv = WireServer()
    srv.script_for = _cli_script
    d = tempfile.mkdtemp(prefix="c16cli-")
    try:
        cmd = ["/venv/bin/st", "run", srv.base_url + "/openapi.json", "--report", "junit,vcr,har", "--report-dir", d, "--phases", "fuzzing",
               "--max-examples", str(desc["examples"]), "--checks", "not_a_server_error", "--workers", "1", "--seed", str(desc["seed"]),
               "--output-sanitize", "true" if desc["sanitize"] else "false"] + (["--report-preserve-bytes"] if desc["preserve"] else [])
        p = subprocess.run(cmd, capture_output=True, text=True, cwd=d, timeout=600, env=dict(os.environ, NO_COLOR="1", COLUMNS="200"))
        files = {}
        for n in ("junit.xml", "vcr.yaml", "har.json"):
            try:
                with open(os.path.join(d, n), encoding="utf-8", errors="surrogateescape", newline="") as fd:
                    files[n] = fd.read()
            except FileNotFoundError:
                files[n] = None
        with srv.lock:
            log = [r for r in srv.log if r["target"].startswith(("/items", "/ping")) and not r["script"].get("truncate")
                   and any(k.lower() == "x-schemathesis-testcaseid" for k, _ in r["headers"])]
            truncated = sum(1 for r in srv.log if r["script"].get("truncate"))
        xs, entries = [], []
        for r in log:
            sc = r["script"]
            failed = sc["status"] >= 500
            xs.append({"id": cp(next(v for k, v in r["headers"] if k.lower() == "x-schemathesis-testcaseid")),
                       "method": cp(r["method"]), "uri": cp(srv.base_url + r["target"]),
                       "reqHeaders": [{"name": cp(k), "value": cp(v)} for k, v in r["headers"] if k.lower() != "host"],
                       "hasReqBody": bool(r["body"]), "reqBody": list(r["body"]), "hasResp": True,
                       "code": cp(str(sc["status"])), "codeInt": sc["status"], "reason": cp(sc["reason"]),
                       "respHeaders": [{"name": cp(k.lower()), "value": cp(v)} for k, v in sc["headers"]]
                                      + [{"name": cp("content-length"), "value": cp(str(len(sc["body"])))}],
                       "respBody": list(sc["body"]), "covDesc": {"has": False, "v": []}, "covExtra": [], "meta": "generate", "checksExact": False,
                       "checks": [{"name": cp("not_a_server_error"), "status": cp("FAILURE" if failed else "SUCCESS"), "hasMsg": failed,
                                   "msg": cp("Server error") if failed else []}]})
            entries.append({"status": "FAILURE" if failed else "SUCCESS", "resp": True, "meta": "generate", "checks_exact": False,
                            "checks": [{"name": "not_a_server_error", "status": "FAILURE" if failed else "SUCCESS",
                                        "message": "Server error" if failed else None}]})
        junit = project_junit(files["junit.xml"])
        o = {"xs": xs, "entries": entries, "command": {"has": False, "exact": False, "v": []}, "crashAt": 0 if p.returncode in (0, 1) else 1,
             "crashSite": "" if p.returncode in (0, 1) else "st run exit code %s: %s" % (p.returncode, (p.stdout + p.stderr)[-300:]),
             "vcr": files["vcr.yaml"], "har": project_har(files["har.json"]),
             "junitOk": junit["ok"] and sorted(c["label"] for c in junit["cases"]) == ["GET /ping", "POST /items"], "title": "", "desc": desc,
             "exchanges": len(xs), "truncated_responses": truncated, "failed": sum(e["status"] == "FAILURE" for e in entries)}
        case = {"s": [], "field": "cli", "preserve": desc["preserve"], "sanitize": desc["sanitize"], "wire": True, "cli": desc}
        o["py"] = sorted(py_string_verdict(case, o))
        return {"case": case, "obs": o}
    finally:
        srv.stop()
        shutil.rmtree(d, ignore_errors=True)


def helper_main() -> None:
    """Runs in the helper subprocess of run(): the slow-sink writer runs and the CLI runs (threads and sleeps stay out of the main process)."""
    spec = json.load(sys.stdin)
    print(json.dumps({"writer": [t for d in spec["writer"] for t in writer_run(d)], "cli": [cli_run(d) for d in spec["cli"]]}))


def _ename(e) -> str:
    return e if isinstance(e, str) else e[0]


def judge_writer(ctx: Ctx, traces: list[dict], tag: str = "w") -> tuple[list[dict], int]:
    """TLC replays every trace through ReportsWriter's actions. Returns per trace {accepted, stuck_at} and the state count."""
    f = ctx.path("writer-%s.json" % tag)
    tlc.write_json(f, {"traces": [{"events": [{"e": e, "k": 0} if isinstance(e, str) else {"e": e[0], "k": e[1]} for e in t["events"]], "n": t["n"], "entries": t["entries"], "wellFormed": t["wellFormed"]}
                                  for t in traces]})
    at: list = []
    res = tlc.require_ok(tlc.run_tlc("ReportsWriterTrace", "ReportsWriterTrace.cfg", env={"OBS_FILE": f}, workers=4, timeout=1800,
                                     on_json=lambda tg, d: at.append(d), want_prints=False), "ReportsWriterTrace")
    out = []
    for k, t in enumerate(traces, 1):
        mine = [a for a in at if a["i"] == k]
        reached = max([a["idx"] for a in mine] or [0])
        out.append({"accepted": any(a["fin"] for a in mine), "reached": reached,
                    "stuck_at": _ename(t["events"][reached]) if reached < len(t["events"]) else "final-state"})
    return out, res.distinct


def writer_violations(traces: list[dict], verdicts: list[dict]) -> list[Violation]:
    out = []
    for t, v in zip(traces, verdicts):
        # driver-side reading of the same run; must coincide with TLC's
        mine = t["wellFormed"] and t["entries"] == list(range(1, t["n"] + 1)) and not t["died"] and "CloseMain" not in t["events"]
        if mine != v["accepted"]:
            raise tlc.TLCFailure("writer trace %s: driver says %s, TLC says %s - machinery inconsistency" % (t["format"], mine, v))
        if not v["accepted"]:
            out.append(Violation(
                "C16:writer:%s:%s:%s" % (t["format"], v["stuck_at"], "join-timed-out" if t["timedOut"] else "joined"),
                "%s writer on a slow sink (%d scenarios): no behaviour of ReportsWriter matches the run beyond event #%d (%s); "
                "file has entries %s of %d, well-formed=%s, writer thread: %s" % (
                    t["format"], t["n"], v["reached"] + 1, v["stuck_at"], t["entries"][:20], t["n"], t["wellFormed"], t["died"] or "ended normally"),
                {"kind": "writer", "desc": t["desc"]}))
    return out


# ------------------------------------------------------------------------------------------------------------------
def run(ctx: Ctx) -> Outcome:
    out = Outcome()
    rng = random.Random(ctx.seed)
    tier = "quick" if ctx.quick else "thorough"

    # ---- (c) writer thread on a slow sink: started now, runs beside (a) and (b) --------------------------------
    wdescs = [{"n": 8, "vcr_delay": 0.012, "har_delay": 0.3}] if ctx.quick else \
        [{"n": 8, "vcr_delay": 0.012, "har_delay": 0.3}, {"n": 3, "vcr_delay": 0.03, "har_delay": 0.4},
         {"n": 16, "vcr_delay": 0.006, "har_delay": 0.08}, {"n": 2, "vcr_delay": 0.0, "har_delay": 0.0}]
    # a separate process (the slow runs take seconds of wall time but no CPU; this process must stay single-threaded for pmap's fork)
    cdescs = [{"examples": 12, "seed": 1 + ctx.seed, "preserve": False, "sanitize": False},
              {"examples": 12, "seed": 2 + ctx.seed, "preserve": True, "sanitize": True}]
    if not ctx.quick:
        cdescs += [{"examples": 40, "seed": 3 + ctx.seed, "preserve": True, "sanitize": False},
                   {"examples": 40, "seed": 4 + ctx.seed, "preserve": False, "sanitize": True}]
    wproc = subprocess.Popen([sys.executable, "-c", "from harness import c16; c16.helper_main()"],
                             stdin=subprocess.PIPE, stdout=subprocess.PIPE, stderr=subprocess.PIPE, text=True, cwd=common.ROOT)
    wproc.stdin.write(json.dumps({"writer": wdescs, "cli": cdescs}))
    wproc.stdin.close()
    res_w = tlc.require_ok(tlc.run_tlc("ReportsWriter", "ReportsWriter.cfg", workers=4, timeout=600), "ReportsWriter model")
    for inv in res_w.violated:
        out.violations.append(Violation("C16:spec:" + inv, "property %s violated in ReportsWriter.tla" % inv,
                                        {"kind": "spec", "invariant": inv, "trace": res_w.counterexample[:60]}))
    if not ctx.quick:  # the design with the handler closing the file after the bounded join must be refuted by the same properties
        res_c = tlc.require_ok(tlc.run_tlc("ReportsWriter", "ReportsWriter_closing.cfg", workers=4, timeout=600), "ReportsWriter closing")
        if "WriterNeverDies" not in res_c.violated:
            raise tlc.TLCFailure("ReportsWriter_closing.cfg: the closing design is not refuted - the writer properties are vacuous")

    # ---- (a) histories --------------------------------------------------------------------------------------
    hs: list[dict] = []
    res_h = tlc.require_ok(tlc.run_tlc("Reports", "Reports_%s.cfg" % tier, workers=1, timeout=3000,
                                       on_json=lambda t, d: hs.append(d), want_prints=False), "Reports enumeration")
    for inv in res_h.violated:
        out.violations.append(Violation("C16:spec:" + inv, "design invariant %s violated in Reports.tla" % inv,
                                        {"kind": "spec", "invariant": inv, "trace": res_h.counterexample[:60]}))
    t1 = time.time()
    obs_h = common.pmap(observe_history, hs)
    t_replay_h = time.time() - t1
    verdict_h, states_judge_h, t_judge_h = judge_histories(ctx, hs, obs_h, "a")
    n_bad_h = 0
    for i, (h, o) in enumerate(zip(hs, obs_h)):
        mine = set(o["py"])
        theirs = {c for c, _, _ in verdict_h.get(i, set())}
        if mine != theirs:
            raise tlc.TLCFailure("history %d: driver says %s, TLC says %s - machinery inconsistency (%s)" % (
                i, sorted(mine), sorted(verdict_h.get(i, set())), json.dumps(h["events"])))
        if not theirs:
            continue
        n_bad_h += 1
        by_sig: dict[str, list] = {}
        for comp, n, tg in sorted(verdict_h[i]):
            by_sig.setdefault(history_signature(h, o, comp, n, tg), []).append((comp, n, tg))
        for sig, items in by_sig.items():
            out.violations.append(Violation(sig, "history %s: %s" % (
                " ; ".join("%s(%s,%s,%s%s)" % (e["kind"], e["label"], e["phase"], e["shape"], ",final" if e.get("final") else "") for e in h["events"]),
                ", ".join("%s[%s]:%s" % it for it in items[:4])), {"kind": "history", "history": h}))

    # ---- (b) emitter grammar ---------------------------------------------------------------------------------
    strings: list[dict] = []
    res_s = tlc.require_ok(tlc.run_tlc("ReportsYaml", "ReportsYaml_%s.cfg" % tier, workers=1, timeout=3000,
                                       on_json=lambda t, d: strings.append(d), want_prints=False), "ReportsYaml enumeration")
    for inv in res_s.violated:
        out.violations.append(Violation("C16:spec:" + inv, "design invariant %s violated in ReportsYaml.tla" % inv,
                                        {"kind": "spec", "invariant": inv, "trace": res_s.counterexample[:60]}))
    n_x, mism = crosscheck_pyyaml(strings)
    if mism:
        raise tlc.TLCFailure("the TLA+ YAML scanner and PyYAML disagree on %d of %d scalars, e.g. %r - the spec's model of "
                             "YAML is wrong (machinery)" % (len(mism), n_x, mism[:3]))
    max_len = max(len(c["s"]) for c in strings)
    cases = [dict(v, s=c["s"], field=f) for c in strings for f in FIELDS for v in variants(f, len(c["s"]), max_len)]
    t1 = time.time()
    obs_all = common.pmap(observe_string, cases)
    t_replay_s = time.time() - t1
    skipped: dict[str, int] = {}
    kept_cases, kept_obs = [], []
    for c, o in zip(cases, obs_all):
        if "skip" in o:
            skipped[o["skip"]] = skipped.get(o["skip"], 0) + 1
        else:
            kept_cases.append(c)
            kept_obs.append(o)
    wout = wproc.stdout.read()  # every fork of this process is done: the helper's results can be collected
    if wproc.wait(timeout=1800) != 0:
        raise RuntimeError("helper process (writer / CLI runs) failed: " + wproc.stderr.read()[-2000:])
    helper = json.loads(wout.strip().splitlines()[-1])
    wtraces = helper["writer"]
    cli_obs = helper["cli"]
    for co in cli_obs:
        if not co["obs"]["xs"]:
            raise RuntimeError("CLI run delivered no exchange: %s" % co["obs"]["crashSite"])
        kept_cases.append(co["case"])
        kept_obs.append(co["obs"])
    verdict_s, states_judge_s, t_judge_s = judge_strings(ctx, kept_cases, kept_obs)
    failing: dict[tuple, dict[tuple, tuple]] = {}  # (field, preserve, sanitize, comp, tag) -> {string: (case, obs, n)}
    for i, (c, o) in enumerate(zip(kept_cases, kept_obs)):
        mine = set(o["py"])
        theirs = {comp for comp, _, _ in verdict_s.get(i, set())}
        if mine != theirs:
            raise tlc.TLCFailure("string case %s: driver says %s, TLC says %s - machinery inconsistency" % (
                json.dumps(c), sorted(mine), sorted(verdict_s.get(i, set()))))
        for comp, n, tg in verdict_s.get(i, set()):
            if comp == "vcr" and tg == "malformed":
                lines = split_lines(o["vcr"])
                tg = "malformed-line:" + _line_key(lines[n - 1] if 0 < n <= len(lines) else [])
            if comp == "crash":
                tg = o["crashSite"]
            failing.setdefault((c["field"] + (":wire" if c.get("wire") else ""), c["preserve"], c["sanitize"], comp, tg), {})[tuple(c["s"])] = (c, o)
    n_bad_s = len(verdict_s)
    implied = 0
    for (field, preserve, sanitize, comp, tg), group in sorted(failing.items()):
        for s, (c, o) in sorted(group.items(), key=lambda kv: (len(kv[0]), kv[0])):
            if any(sub in group for sub in subsequences(list(s))):
                implied += 1
                continue  # a shorter failing string explains it
            sig = "C16:%s:%s:%s:%s" % (comp, field, tg, char_classes(list(s)))
            out.violations.append(Violation(sig, "%s of %r placed in %s (preserve_bytes=%s, sanitize=%s): %s" % (
                comp, "".join(map(chr, s)), field, preserve, sanitize, tg), {"kind": "string", "case": c}))

    wverdicts, states_w = judge_writer(ctx, wtraces)
    out.violations.extend(writer_violations(wtraces, wverdicts))

    nontrivial_h = sum(1 for h in hs if any(hz for hz in h["hazards"]))
    out.coverage = {
        "states": res_h.distinct + res_s.distinct + res_w.distinct,
        "transitions": res_h.generated + res_s.generated + res_w.generated,
        "traces_validated_against_impl": len(hs) + len(kept_cases) + len(wtraces),
        "judge_states": states_judge_h + states_judge_s + states_w,
        "writer_model_states": res_w.distinct,
        "cli_runs": [{"desc": co["obs"]["desc"], "exchanges": co["obs"]["exchanges"], "failed_checks": co["obs"]["failed"],
                      "truncated_responses": co["obs"]["truncated_responses"]} for co in cli_obs],
        "writer_traces": [{"format": t["format"], "n": t["n"], "events": len(t["events"]), "join_timed_out": t["timedOut"],
                           "accepted": v["accepted"]} for t, v in zip(wtraces, wverdicts)],
        "evaluations": len(hs) + len(cases),
        "distinct_nontrivial": nontrivial_h + sum(1 for c in kept_cases if any(x != 97 for x in c["s"])),
        "histories": len(hs), "histories_with_hazard": nontrivial_h, "histories_disagreeing": n_bad_h,
        "hazard_counts": _count(x for h in hs for hz in h["hazards"] for x in hz),
        "strings": len(strings), "string_cases": len(cases), "string_cases_judged": len(kept_cases),
        "string_cases_disagreeing": n_bad_s, "string_violations_implied_by_shorter": implied,
        "skipped_outside_fragment": sum(skipped.values()) + sum(1 for c in kept_cases if not vcr_judged(c)),
        "skipped_reasons": dict(skipped, **{"lone surrogate in a text field: cassette not judged (no YAML representation)":
                                            sum(1 for c in kept_cases if not vcr_judged(c))}),
        "pyyaml_crosscheck_scalars": n_x, "pyyaml_crosscheck_mismatches": 0,
        "samples": [{"history": h["events"], "hazards": h["hazards"], "impl": {"crashAt": o["crashAt"], "site": o["crashSite"],
                                                                              "junit": o["junit"]["cases"]}}
                    for h, o in common.sample(rng, [x for x in zip(hs, obs_h) if any(x[0]["hazards"])] or list(zip(hs, obs_h)), 3)]
                   + [{"string": "".join(map(chr, c["s"])).encode("unicode_escape").decode(), "field": c["field"],
                       "preserve": c["preserve"], "tlc": sorted(verdict_s.get(i, set()))}
                      for i, c in common.sample(rng, list(enumerate(kept_cases)), 3)],
        "rule": "(a) every finished history reachable in Reports.tla under Reports_%s.cfg, each replayed once through the real "
                "ExecutionContext/JunitXMLHandler/CassetteWriter(vcr,har) and judged step by step by ReportsTrace.tla; "
                "(b) every string of ReportsYaml_%s.cfg x %d fields x preserve/sanitize variants (strings of the maximal length 3: the 7 "
                "hand-quoted fields, plain variant only), raw cassette judged line by line "
                "by ReportsYamlJudge.tla; (c) ReportsWriter.tla model-checked (all interleavings of handler and writer thread incl. the "
                "bounded join timing out), real writer runs on a slow sink validated as traces by ReportsWriterTrace.tla; (d) real `st run "
                "--report junit,vcr,har` subprocess runs judged against the server's log; non-trivial = history with a spec hazard / string with a non-alphanumeric character" % (
                    tier, tier, len(FIELDS)),
        "exhaustive": True,
        "constants": {"history_cfg": "Reports_%s.cfg" % tier, "string_cfg": "ReportsYaml_%s.cfg" % tier, "fields": FIELDS},
        "tlc_enumeration_s": round(res_h.wall_s + res_s.wall_s, 1), "replay_s": round(t_replay_h + t_replay_s, 1),
        "tlc_judge_s": round(t_judge_h + t_judge_s, 1),
    }
    out.assumptions = [
        "the slow sink's write()/close() log (one lock) is the linearisation of the writer run; queue.get (Take) is not observed",
        "hand-built ScenarioRecorder/Case/PreparedRequest/Response objects are what the engine delivers; the driver's loop mirrors executor._execute",
        "the history family over-approximates engine orders (phases non-decreasing, any label in any phase); a finding is triaged for reachability",
        "closing the LazyFile handles after shutdown stands for process exit",
        "json / xml.etree project HAR / JUnit (a parse error is the observation 'not well-formed'); PyYAML only cross-checks the TLA+ scanner and the driver's own verdict",
        "YAML is judged against the one-line emitter grammar of ReportsYaml.tla (a sub-language of YAML 1.1); without preserve-bytes a body that is not valid UTF-8 is not judged",
        "with sanitisation on, the cassette URI is only required to be present and well-formed (C15 judges its content)",
    ]
    return out


def _count(items) -> dict:
    d: dict = {}
    for x in items:
        d[x] = d.get(x, 0) + 1
    return d


def _line_key(line: list[int]) -> str:
    """Key of a malformed line = its mapping key (text up to the first ':'), so one broken construct = one class."""
    text = "".join(map(chr, line)).strip()
    if text.startswith('- "'):  # a scalar sequence entry (header value): it has no key of its own
        return "seq-item"
    text = text.lstrip("- ")
    return text.split(":")[0][:24] or "?"


def replay(ctx: Ctx, data: dict) -> Outcome:
    out = Outcome()
    if data.get("kind") == "history":
        h = data["history"]
        o = observe_history(h)
        verdict, _, _ = judge_histories(ctx, [h], [o], "r")
        for comp, n, tg in sorted(verdict.get(0, set())):
            out.violations.append(Violation(history_signature(h, o, comp, n, tg), "%s[%s]:%s" % (comp, n, tg), data))
    elif data.get("kind") == "writer":
        traces = writer_run(data["desc"])
        verdicts, _ = judge_writer(ctx, traces, "replay")
        out.violations.extend(writer_violations(traces, verdicts))
    elif data.get("kind") == "string":
        c = data["case"]
        o = cli_run(c["cli"])["obs"] if c.get("cli") else observe_string(c)
        if "skip" not in o:
            verdict, _, _ = judge_strings(ctx, [c], [o])
            for comp, n, tg in sorted(verdict.get(0, set())):
                out.violations.append(Violation("C16:%s:%s:%s:%s" % (comp, c["field"], tg, char_classes(c["s"])),
                                                "%s[%s]:%s" % (comp, n, tg), data))
    return out


def selftest(ctx: Ctx) -> bool:
    """Binding: corrupted recordings must be rejected by the TLA+ judges, the untouched ones accepted."""
    h = {"events": [{"kind": "SF", "label": "GET /a", "phase": 3, "shape": "f1", "final": False},
                    {"kind": "SF", "label": "GET /a", "phase": 3, "shape": "ok", "final": False}]}
    good = observe_history(h)
    if good["crashAt"] or good["vcr"] is None:
        print("selftest: baseline history did not produce reports:", good["crashSite"])
        return False
    bad_stat = json.loads(json.dumps(good))
    bad_stat["snaps"][0]["unique"] = []
    bad_line = json.loads(json.dumps(good))
    bad_line["vcr"] = good["vcr"].replace("method: 'GET'", "method: 'GET'x", 1)
    bad_uri = json.loads(json.dumps(good))
    bad_uri["vcr"] = good["vcr"].replace("/a?e=1&c=1", "/a?e=1&c=9", 1)
    bad_junit = json.loads(json.dumps(good))
    bad_junit["junit"]["cases"][0]["titles"] = []
    bad_har = json.loads(json.dumps(good))
    bad_har["har"]["entries"] = bad_har["har"]["entries"][:1]
    obs = [good, bad_stat, bad_line, bad_uri, bad_junit, bad_har]
    verdict, _, _ = judge_histories(ctx, [h] * len(obs), obs, "selftest")
    comps = [sorted({(c, t) for c, _, t in verdict.get(i, set())}) for i in range(len(obs))]
    expect = [[], [("stat", "unique")], [("vcr", "malformed")], [("vcr", "uri")], [("junit", "failures")], [("har", "count")]]
    if comps != expect:
        print("selftest: history judge gave", comps, "expected", expect)
        return False
    # writer traces: the real run is accepted; the same run with the file closed by the handler / a lost entry is not
    tr = writer_run({"n": 3, "vcr_delay": 0.02, "har_delay": 0.3})
    bad1 = dict(tr[0], events=[e for e in tr[0]["events"]])
    k = bad1["events"].index("JoinTimeout") if "JoinTimeout" in bad1["events"] else bad1["events"].index("Joined")
    bad1["events"] = bad1["events"][:k + 1] + ["CloseMain", "Died", "Exit"]
    bad2 = dict(tr[1], entries=tr[1]["entries"][:-1])
    wv, _ = judge_writer(ctx, tr + [bad1, bad2], "selftest")
    if [v["accepted"] for v in wv] != [True, True, False, False] or wv[2]["stuck_at"] != "CloseMain":
        print("selftest: writer judge gave", wv, [t["events"][-6:] for t in tr])
        return False
    c = {"s": [39, 34], "field": "resp-body", "preserve": False, "sanitize": False}
    o = observe_string(c)
    o2 = json.loads(json.dumps(o))
    o2["vcr"] = o["vcr"].replace('string: "\'\\""', 'string: "\'"')
    o3 = json.loads(json.dumps(o))
    o3["har"]["entries"][0]["text"] = [39]
    verdict, _, _ = judge_strings(ctx, [c, c, c], [o, o2, o3])
    comps = [sorted({(cc, t) for cc, _, t in verdict.get(i, set())}) for i in range(3)]
    if comps != [[], [("vcr", "response-body")], [("har", "response-body")]] or o2["vcr"] == o["vcr"]:
        print("selftest: string judge gave", comps)
        return False
    return True


def main(argv=None) -> int:
    return common.main("C16", run, replay, selftest, argv)
