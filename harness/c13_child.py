"""C13 child process: runs the REAL schemathesis engine one or more times in THIS process against a server owned by the parent.

usage: python -m harness.c13_child <job.json>
job = {"schema": {"kind": "dict", "raw": {...}} | {"kind": "path", "path": "..."}, "base_url": "...",     (a run may carry its own "schema")
       "runs": [{"tag": "A", "seed": 1, "workers": 1, "phases": ["coverage"], "modes": ["positive"], "max_examples": 8, "steps": 6}]}
Before / after every run and at every PhaseStarted / PhaseFinished event a marker request is sent to the server, so that the parent can
cut the server log (the ground truth) into runs and phases.  Prints one JSON object: {"runs": [{"tag", "failures": [...], "events": n}]}.
"""
from __future__ import annotations

import json
import sys
import zlib


def marker(base_url: str, **data) -> None:
    import urllib.request

    req = urllib.request.Request(base_url + "/__verif__/marker", data=json.dumps(data).encode(), method="POST",
                                 headers={"Content-Type": "application/json"})
    urllib.request.urlopen(req, timeout=30).read()


def run_engine(schema, base_url: str, run: dict) -> dict:
    import hypothesis
    from hypothesis import HealthCheck
    from schemathesis.engine import Status, events, from_schema
    from schemathesis.engine.config import EngineConfig, ExecutionConfig
    from schemathesis.engine.phases import PhaseName
    from schemathesis.generation import GenerationConfig, GenerationMode
    from urllib.parse import urlsplit

    settings = hypothesis.settings(max_examples=run["max_examples"], database=None, deadline=None, derandomize=bool(run.get("deterministic")),
                                   suppress_health_check=list(HealthCheck), stateful_step_count=run.get("steps", 6))
    config = EngineConfig(execution=ExecutionConfig(
        phases=[PhaseName.from_str(p) for p in run["phases"]],
        seed=run["seed"], workers_num=run["workers"], hypothesis_settings=settings,
        unique_inputs=bool(run.get("unique_inputs")), continue_on_failure=bool(run.get("continue_on_failure")), max_failures=run.get("max_failures"),
        generation=GenerationConfig(modes=[GenerationMode(m) for m in run["modes"]],
                                    # a user-supplied collection of methods is a SET (as the CLI builds it): built here, under this process's hash seed
                                    unexpected_methods=set(run["unexpected_methods"]) if run.get("unexpected_methods") else None),
    ))
    failures = set()
    n = 0
    marker(base_url, event="run-start", tag=run["tag"])
    force_schedule(run)
    for ev in from_schema(schema, config=config).execute():
        n += 1
        if isinstance(ev, events.PhaseStarted):
            marker(base_url, event="phase-start", tag=run["tag"], phase=ev.phase.name.name)
        elif isinstance(ev, events.PhaseFinished):
            marker(base_url, event="phase-end", tag=run["tag"], phase=ev.phase.name.name)
        elif isinstance(ev, events.ScenarioFinished):
            rec = ev.recorder
            for case_id, checks in rec.checks.items():
                for chk in checks:
                    if chk.status == Status.FAILURE and chk.failure_info is not None:
                        f = chk.failure_info.failure
                        inter = rec.interactions.get(case_id)
                        where = ["", "", 0]
                        if inter is not None:
                            parts = urlsplit(inter.request.uri)
                            where = [inter.request.method, parts.path + ("?" + parts.query if parts.query else ""),
                                     zlib.crc32(inter.request.body or b"")]
                        failures.add(json.dumps([ev.phase.name, ev.label or "", chk.name, type(f).__name__, f.title] + where))
        elif isinstance(ev, events.NonFatalError):
            failures.add(json.dumps([ev.phase.name, ev.label or "", "<error>", type(ev.value).__name__, str(ev.value)[:80], "", "", 0]))
        elif isinstance(ev, events.FatalError):
            failures.add(json.dumps(["-", "", "<fatal>", type(ev.exception).__name__, str(ev.exception)[:80], "", "", 0]))
    marker(base_url, event="run-end", tag=run["tag"])
    return {"tag": run["tag"], "failures": sorted(failures), "events": n}


class Rendezvous:
    """Every one of `n` threads waits here until all have arrived (or `timeout` passed since it arrived)."""

    def __init__(self, n: int, timeout: float):
        import threading

        self.n, self.timeout, self.count, self.generation, self.cond = n, timeout, 0, 0, threading.Condition()

    def meet(self) -> None:
        with self.cond:
            generation = self.generation
            self.count += 1
            if self.count >= self.n:
                self.count, self.generation = 0, self.generation + 1
                self.cond.notify_all()
                return
            self.cond.wait_for(lambda: self.generation != generation, self.timeout)
            if self.generation == generation:       # not everybody came (fewer operations than workers are left): let this round go
                self.count, self.generation = 0, self.generation + 1
                self.cond.notify_all()


_ORIGINAL_SETUP = []


def force_schedule(run: dict) -> None:
    """Derandomised multi-worker runs are executed under the schedule that refutes the shared-slot model of spec/ReproDigest.tla:
    every worker has prepared its operation (written the digest) before any worker starts its test (reads it).  Harness side only:
    the engine's `setup_hypothesis_database_key` is followed by a rendezvous; nothing of the engine's state is touched."""
    from schemathesis.engine.phases.unit import _executor

    if not _ORIGINAL_SETUP:
        _ORIGINAL_SETUP.append(_executor.setup_hypothesis_database_key)
    original = _ORIGINAL_SETUP[0]
    if not run.get("deterministic") or run["workers"] < 2:
        _executor.setup_hypothesis_database_key = original
        return
    rendezvous = Rendezvous(run["workers"], 0.5)

    def setup_then_meet(test, operation):
        original(test, operation)
        rendezvous.meet()

    _executor.setup_hypothesis_database_key = setup_then_meet


def run_cli(schema_path: str, base_url: str, run: dict) -> dict:
    """The CLI front door: `schemathesis run <file> --url ... --seed N ...` executed in this process (so that the two harness-side
    normalisations apply); one phase per invocation, so the whole log of the run belongs to that phase."""
    import re

    from click.testing import CliRunner
    from schemathesis.cli import schemathesis as cli

    assert len(run["phases"]) == 1
    phase = {"examples": "EXAMPLES", "coverage": "COVERAGE", "fuzzing": "FUZZING", "stateful": "STATEFUL_TESTING"}[run["phases"][0]]
    seed_args = ["--generation-deterministic"] if run.get("deterministic") else ["--seed", str(run["seed"])]
    force_schedule(run)
    args = ["run", schema_path, "--url", base_url, "--phases", run["phases"][0], *seed_args, "-n", str(run["max_examples"]),
            "-w", str(run["workers"]), "-m", "all" if len(run["modes"]) == 2 else run["modes"][0], "--suppress-health-check", "all",
            "--no-color", "-c", "not_a_server_error"] + ([] if run.get("deterministic") else ["--generation-database", "none"])
    if run.get("unexpected_methods"):
        args += ["--experimental", "coverage-phase", "--experimental-coverage-unexpected-methods", ",".join(run["unexpected_methods"])]
    if run.get("unique_inputs"):
        args.append("--generation-unique-inputs")
    if run.get("continue_on_failure"):
        args.append("--continue-on-failure")
    if run.get("max_failures"):
        args += ["--max-failures", str(run["max_failures"])]
    marker(base_url, event="run-start", tag=run["tag"])
    marker(base_url, event="phase-start", tag=run["tag"], phase=phase)
    result = CliRunner().invoke(cli, args)
    marker(base_url, event="phase-end", tag=run["tag"], phase=phase)
    marker(base_url, event="run-end", tag=run["tag"])
    if result.exit_code not in (0, 1):
        raise RuntimeError("CLI exit code %s: %s %r" % (result.exit_code, result.output[-800:], result.exception))
    # what the CLI reports as failures: the headers of the failure sections and the failure titles (no ids, no timings, no addresses)
    failures = set()
    section = ""
    for line in result.output.splitlines():
        m = re.match(r"^_+ (.+?) _+$", line)
        if m:
            section = m.group(1)
        elif re.match(r"^- [A-Z]", line):
            failures.add(json.dumps([phase, section, "cli", line[2:].strip(), "", "", "", 0]))
    failures.add(json.dumps([phase, "", "cli", "exit code %d" % result.exit_code, "", "", "", 0]))
    return {"tag": run["tag"], "failures": sorted(failures), "events": 0, "output_tail": result.output[-2500:]}


def neutralise_local_constants() -> bool:
    """Environment normalisation (harness side, nothing in /repo changes).

    Hypothesis >= 6.131 mixes constants collected from the source of every imported *local* module (= not stdlib, not site-packages)
    into generated data and re-scans `sys.modules` whenever its length changes.  Observed while building this check:
      * /repo is an editable install, so schemathesis' own source counts as "local": the pool - hence the data drawn for a fixed seed -
        changes whenever schemathesis lazily imports one more of its modules (first stateful phase, first failure ...), so a second
        run in the same process differs.  An installed copy lives in site-packages and is never scanned (Hypothesis hard-codes the
        same exemption for itself);
      * the harness's own modules are local as well, and the scan is not thread-safe: with 3 workers a thread intermittently draws
        from a half-built pool.
    Both are properties of Hypothesis + this sandbox's layout, not of schemathesis; the children therefore run with an empty pool
    (no module counts as local), which is what a CLI user without local hook modules gets.
    """
    try:
        from hypothesis.internal.conjecture import providers

        providers.is_local_module_file  # noqa: B018
    except (ImportError, AttributeError):
        return False
    providers.is_local_module_file = lambda path: False
    return True


def main(argv: list[str]) -> int:
    import os

    if os.environ.get("COVERAGE_PROCESS_START"):
        import coverage

        coverage.process_startup()
    job = json.load(open(argv[1]))
    import schemathesis

    from harness.compat import enable_links

    neutralise_local_constants()
    enable_links()  # Hypothesis 6.168 compatibility shim of the harness: without it no OpenAPI link is ever followed (see compat.py)
    out = []
    for run in job["runs"]:
        # the schema is loaded anew for every run, as a new CLI invocation / test session would; module-level caches stay warm
        # a run may name its own schema (process history: ANOTHER schema is tested earlier in this process, spec/ReproHistory.tla)
        source = run.get("schema") or job["schema"]
        if source["kind"] == "path":
            schema = schemathesis.openapi.from_path(source["path"])
        else:
            schema = schemathesis.openapi.from_dict(source["raw"])
        if run.get("front") == "cli":
            out.append(run_cli(source["path"], job["base_url"], run))
            continue
        schema.configure(base_url=job["base_url"])
        out.append(run_engine(schema, job["base_url"], run))
    sys.stdout.write(json.dumps({"runs": out}))
    return 0


if __name__ == "__main__":
    sys.exit(main(sys.argv))
